------------------------------- MODULE GPTrain -------------------------------
(* Book-keeping of the Gaussian-process trainer (ciderpress/models/train.py: MOLGP).
   Per-kernel dictionaries of system covariances, the reaction lists that fit() stacks into the
   linear system, and the order in which add_reactions appends to them -- including what is left
   behind when a reaction names a system whose covariances were never stored (KeyError in the
   middle of an append sequence).

   store_mol_covs(ids, get_correlation, get_orb_deriv)
                                          fills cov[k] for every kernel (or only the exchange ones)
                                          and the reference dictionaries while kernel 0 is processed;
                                          with orbital derivatives also dcov[k] (covariances of the
                                          occupation derivatives) for every processed kernel and the
                                          derivative references (for ANY processed kernel, not only kernel 0)
   add_reactions(list)                    per reaction: reference lookup (mode 0), exchange kernels'
                                          covariances, [mode 2: KS baseline, correlation kernels'
                                          covariances | mode 0: zeros for correlation kernels],
                                          then the label and the noise.  An entry of a reaction is a
                                          system or a (system, orbital) pair; pairs are looked up in the
                                          derivative dictionaries.  An XC reaction (mode 2) with a pair fails
                                          at the Kohn-Sham baseline lookup, AFTER the exchange rows were appended
   reset_reactions(), fit()  *)
EXTENDS Integers, Sequences, FiniteSets, TLC
CONSTANTS Systems, Comp,      \* Comp: sequence of "x" / "c", one per kernel
          Rxns,               \* [id -> [mode, structs (systems entered as such), dstructs (systems entered through (system, orbital) pairs)]]
          MaxOps
VARIABLES cov, refs, dcov, drefs, rxnRef, rxnNoise, rxnCov, fitted, lastErr, nops, hist
vars == <<cov, refs, dcov, drefs, rxnRef, rxnNoise, rxnCov, fitted, lastErr, nops, hist>>
NK == Len(Comp)
XK == {k \in 1..NK : Comp[k] = "x"}
CK == {k \in 1..NK : Comp[k] # "x"}
None == <<>>
View == <<cov, refs, dcov, drefs, rxnRef, rxnNoise, rxnCov, fitted, lastErr, nops>>   \* hist is observation only
Init == /\ cov = [k \in 1..NK |-> {}] /\ refs = {} /\ dcov = [k \in 1..NK |-> {}] /\ drefs = {} /\ rxnRef = <<>> /\ rxnNoise = <<>>
        /\ rxnCov = [k \in 1..NK |-> <<>>] /\ fitted = None /\ lastErr = FALSE /\ nops = 0 /\ hist = <<>>

Processed(k, getcorr) == getcorr \/ Comp[k] = "x"
Store(ids, getcorr, deriv) ==
  /\ nops < MaxOps
  /\ cov' = [k \in 1..NK |-> IF Processed(k, getcorr) THEN cov[k] \cup ids ELSE cov[k]]
  /\ refs' = IF Processed(1, getcorr) THEN refs \cup ids ELSE refs      \* save_refs = (i == 0)
  /\ dcov' = [k \in 1..NK |-> IF deriv /\ Processed(k, getcorr) THEN dcov[k] \cup ids ELSE dcov[k]]
  /\ drefs' = IF deriv /\ (\E k \in 1..NK : Processed(k, getcorr)) THEN drefs \cup ids ELSE drefs
  /\ lastErr' = FALSE /\ nops' = nops + 1 /\ hist' = Append(hist, <<"store", ids, getcorr, deriv>>)
  /\ UNCHANGED <<rxnRef, rxnNoise, rxnCov, fitted>>

\* one reaction, in the code's order of effects; returns [ok, rxnRef, rxnNoise, rxnCov]
RECURSIVE AppendKernels(_, _, _, _, _)
\* append `id` to the covariance lists of kernels ks (ascending) until one lacks the systems
AppendKernels(rc, ks, id, need, dneed) ==
  IF ks = {} THEN [ok |-> TRUE, rc |-> rc]
  ELSE LET k == CHOOSE x \in ks : \A y \in ks : x <= y IN
       IF need \subseteq cov[k] /\ dneed \subseteq dcov[k] THEN AppendKernels([rc EXCEPT ![k] = Append(@, id)], ks \ {k}, id, need, dneed)
       ELSE [ok |-> FALSE, rc |-> rc]
OneRxn(st, id) ==
  LET r == Rxns[id] IN
  IF ~st.ok THEN st
  ELSE IF r.mode = 0 /\ ~(r.structs \subseteq refs /\ r.dstructs \subseteq drefs) THEN [st EXCEPT !.ok = FALSE]
  ELSE LET a == AppendKernels(st.rc, XK, id, r.structs, r.dstructs) IN
       IF ~a.ok THEN [st EXCEPT !.ok = FALSE, !.rc = a.rc]
       \* mode 2: the Kohn-Sham baseline dictionary is keyed by systems only: a (system, orbital) pair is a KeyError here
       ELSE IF r.mode = 2 /\ (~(r.structs \subseteq refs) \/ r.dstructs # {}) THEN [st EXCEPT !.ok = FALSE, !.rc = a.rc]
       ELSE LET b == IF r.mode = 2 THEN AppendKernels(a.rc, CK, id, r.structs, r.dstructs)
                     ELSE [ok |-> TRUE, rc |-> [k \in 1..NK |-> IF k \in CK THEN Append(a.rc[k], "zero") ELSE a.rc[k]]] IN
            IF ~b.ok THEN [st EXCEPT !.ok = FALSE, !.rc = b.rc]
            ELSE [ok |-> TRUE, rc |-> b.rc, rr |-> Append(st.rr, id), rn |-> Append(st.rn, id)]
RECURSIVE Fold(_, _)
Fold(st, ids) == IF ids = <<>> THEN st ELSE Fold(OneRxn(st, Head(ids)), Tail(ids))
AddReactions(ids) ==
  /\ nops < MaxOps
  /\ LET st == Fold([ok |-> TRUE, rc |-> rxnCov, rr |-> rxnRef, rn |-> rxnNoise], ids) IN
       /\ rxnCov' = st.rc /\ rxnRef' = st.rr /\ rxnNoise' = st.rn /\ lastErr' = ~st.ok
  /\ nops' = nops + 1 /\ hist' = Append(hist, <<"add", ids>>) /\ UNCHANGED <<cov, refs, dcov, drefs, fitted>>
Reset == /\ nops < MaxOps /\ rxnRef' = <<>> /\ rxnNoise' = <<>> /\ rxnCov' = [k \in 1..NK |-> <<>>]
         /\ lastErr' = FALSE /\ nops' = nops + 1 /\ hist' = Append(hist, <<"reset">>) /\ UNCHANGED <<cov, refs, dcov, drefs, fitted>>
Aligned == \A k \in 1..NK : Len(rxnCov[k]) = Len(rxnRef) /\ Len(rxnNoise) = Len(rxnRef)
Fit == /\ nops < MaxOps
       /\ IF Aligned /\ Len(rxnRef) > 0
          THEN fitted' = [ref |-> rxnRef, cov |-> rxnCov] /\ lastErr' = FALSE
          ELSE fitted' = fitted /\ lastErr' = TRUE                     \* stacking / shape error
       /\ nops' = nops + 1 /\ hist' = Append(hist, <<"fit">>) /\ UNCHANGED <<cov, refs, dcov, drefs, rxnRef, rxnNoise, rxnCov>>
RxnSeqs == UNION {[1..n -> DOMAIN Rxns] : n \in 1..2}
Next == \/ \E ids \in SUBSET Systems \ {{}} : \E g, d \in BOOLEAN : Store(ids, g, d)
        \/ \E s \in RxnSeqs : AddReactions(s)
        \/ Reset \/ Fit
Spec == Init /\ [][Next]_vars
\* ---- properties
\* an add_reactions call that succeeded leaves every list the same length (zeros appended for
\* correlation kernels of exchange-only reactions), provided the lists were aligned before
AlignedUnlessFailed == [][(Aligned /\ \E s \in RxnSeqs : AddReactions(s)) => (lastErr' \/ Aligned')]_vars
\* fit() never succeeds on misaligned lists and always solves for exactly the current reactions
FitUsesCurrent == [][Fit => (lastErr' \/ (fitted'.ref = rxnRef /\ fitted'.cov = rxnCov))]_vars
ResetClears == [][Reset => (Aligned' /\ Len(rxnRef') = 0)]_vars
\* derivative dictionaries are only ever filled together with the plain ones
DerivImpliesPlain == (\A k \in 1..NK : dcov[k] \subseteq cov[k])
\* row r of every kernel's list belongs to reaction rxnRef[r]
RowsBelong == Aligned => \A k \in 1..NK, r \in 1..Len(rxnRef) : rxnCov[k][r] \in {rxnRef[r], "zero"}
Emit == nops = MaxOps => PrintT(<<"HIST", hist>>)
=============================================================================
