SPECIFICATION TSpec
INVARIANT FeatureCount
INVARIANT WithinBound
INVARIANT Tightens
INVARIANT Ordered
INVARIANT PathsAgree
POSTCONDITION Accepted
CHECK_DEADLOCK FALSE
