---- MODULE MC_GPTrain ----
EXTENDS GPTrain
MCSystems == {"s1", "s2", "s3"}
MCCompXC == <<"x", "c">>
MCCompX == <<"x">>
MCCompCX == <<"c", "x">>
\* r1: exchange reaction of s1; r2: exchange reaction of s1,s2; r3: XC reaction of s2,s3; r4: XC of s1;
\* r5: XC reaction that lists a system TWICE (a dimer binding written A2 - A - A): for the state machine only the set of
\* systems matters, the harness's label / covariance oracle sums the stoichiometric counts entry by entry
\* r6: exchange reaction that is ONE orbital-derivative entry (s1, O0); r7: exchange reaction mixing a derivative entry of s2
\* with the plain system s1; r8: an XC reaction with a derivative entry (the code fails at the Kohn-Sham baseline lookup)
MCRxns == [r1 |-> [mode |-> 0, structs |-> {"s1"}, dstructs |-> {}], r2 |-> [mode |-> 0, structs |-> {"s1", "s2"}, dstructs |-> {}],
           r3 |-> [mode |-> 2, structs |-> {"s2", "s3"}, dstructs |-> {}], r4 |-> [mode |-> 2, structs |-> {"s1"}, dstructs |-> {}],
           r5 |-> [mode |-> 2, structs |-> {"s1", "s2"}, dstructs |-> {}],
           r6 |-> [mode |-> 0, structs |-> {}, dstructs |-> {"s1"}], r7 |-> [mode |-> 0, structs |-> {"s1"}, dstructs |-> {"s2"}],
           r8 |-> [mode |-> 2, structs |-> {"s1"}, dstructs |-> {"s1"}]]
====
