SPECIFICATION Spec
CONSTANTS
  Families = {"sl", "nldf_j", "nldf_i", "nldf_ij", "nldf_k", "sdmx", "nldf_j+sdmx"}
  Interps = {"onsite_direct", "onsite_spline"}
  NlcFamilies = {"sl", "nldf_j", "sdmx"}
INVARIANT NoNumbersWhenUnsupported
PROPERTY GradientOnlyAfterSCF
INVARIANT Emit
