SPECIFICATION Spec
CONSTANTS
  T = 2
  N = 0
  Kind = "critical"
  NCells = 2
INVARIANT FinalIsSequential
INVARIANT ManualTiles
INVARIANT ScratchPrivate
INVARIANT MutualExclusion
