------------------------------ MODULE TwoPhase ------------------------------
(* Objects with a VALUE routine and a DERIVATIVE routine that both take the input explicitly (feature maps:
   fill_feat_(y, x) / fill_deriv_(dfdx, dfdy, x); normaliser lists: get_normalized_feature_vector(X) /
   get_derivative_wrt_unnormed_features(X, df)).  The evaluation drivers call them in whatever order the data flow needs:
   KernelEvalBase.get_descriptors runs the value routine for BOTH spin channels before apply_descriptor_grad runs the
   derivative routine for the first one.  The contract: the derivative routine is a function of ITS OWN arguments --
   whatever value calls came before, for whatever input.

     StashBug   the value routine stashes an intermediate (keyed on shape only) that the derivative routine consumes
                instead of recomputing it from its argument              -> DerivFromOwnArgument

   TLC enumerates every call sequence up to MaxLen over the symbolic inputs; the sequences are replayed on the real
   maps and lists (harness/c12.py), every derivative call compared with a fresh object that never saw a value call. *)
EXTENDS Integers, Sequences, FiniteSets, TLC
CONSTANTS Inputs, MaxLen, StashBug
VARIABLES stash,    \* "none" or the input the last value call saw (what a stashing implementation would reuse)
          used,     \* the input the last derivative call effectively differentiated at
          asked,    \* the input it was asked to differentiate at
          hist
vars == <<stash, used, asked, hist>>
Init == stash = "none" /\ used = "none" /\ asked = "none" /\ hist = <<>>
Value(x) == /\ Len(hist) < MaxLen /\ stash' = x /\ hist' = Append(hist, <<"value", x>>) /\ UNCHANGED <<used, asked>>
Deriv(x) == /\ Len(hist) < MaxLen
            /\ used' = IF StashBug /\ stash # "none" THEN stash ELSE x
            /\ asked' = x
            /\ stash' = IF StashBug THEN "none" ELSE stash       \* the stash is consumed
            /\ hist' = Append(hist, <<"deriv", x>>)
Next == \E x \in Inputs : Value(x) \/ Deriv(x)
Spec == Init /\ [][Next]_vars
DerivFromOwnArgument == used = asked
Emit == (Len(hist) = MaxLen /\ \E i \in 1..Len(hist) : hist[i][1] = "deriv") => PrintT(<<"TP_HIST", hist>>)
=============================================================================
