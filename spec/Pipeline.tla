------------------------------- MODULE Pipeline -------------------------------
(* The nonlocal-feature pipeline (LCAONLDFGenerator._perform_fwd_convolution /
   _perform_bwd_convolution and LCAOInterpolator[Direct].project_orb2grid / project_grid2orb) as
   sequences of LINEAR STAGES.  Potentials are exact transposes of feature Jacobians iff the
   backward pipeline is the reversed sequence of the transposed forward stages, with the same
   offsets and counts.  Inside the grid projection the on-site ("direct") terms and the spline
   interpolation are parallel branches whose contributions are summed, so there the requirement is
   on the MULTISET of stages (transposition commutes with summation).

   outer chain (version i skips the second coefficient transform):
     fwd:  a2y -> rad2orb -> T(-1,fwd) -> atc(fwd) -> [T(0,bwd)] -> orb2grid
     bwd:  grid2orb -> [T(0,fwd)] -> atc(bwd) -> T(-1,bwd) -> orb2rad -> y2a
   inner stages of the projection for n0 scalar and n1 vector interpolation channels:
     spline branch:   conv2spline -> interp(fwd)            |  interp(bwd) -> spline2conv
     on-site branch:  onsite(atco,  n0,  0,  0)             |  same descriptors, transposed
                      onsite(l1atco, 3 n1, 0, n0)           |
                      onsite(atco,  n1, n0+n1, n0+3 n1)     |
                      lp1                                   |  *)
EXTENDS Integers, Sequences, FiniteSets, TLC, Bags
CONSTANTS Versions, MaxN0, MaxN1
VARIABLES cfg, fwd, bwd
vars == <<cfg, fwd, bwd>>
Stage(name, dir, a, b, c) == [name |-> name, dir |-> dir, cnt |-> a, o1 |-> b, o2 |-> c]
T(s) == [s EXCEPT !.dir = IF s.dir = "fwd" THEN "bwd" ELSE "fwd"]
Reverse(s) == [k \in 1..Len(s) |-> s[Len(s) + 1 - k]]
OuterFwd(c) == <<Stage("angc_ylm", "fwd", 0, 0, 0), Stage("rad_orb", "fwd", 0, 0, 0), Stage("coef_transform_theta", "fwd", 0, 0, 0),
                 Stage("atc", "fwd", 0, 0, 0)>>
               \o (IF c.ver = "i" THEN <<>> ELSE <<Stage("coef_transform_feat", "bwd", 0, 0, 0)>>)
               \o <<Stage("project", "fwd", 0, 0, 0)>>
OuterBwd(c) == <<Stage("project", "bwd", 0, 0, 0)>>
               \o (IF c.ver = "i" THEN <<>> ELSE <<Stage("coef_transform_feat", "fwd", 0, 0, 0)>>)
               \o <<Stage("atc", "bwd", 0, 0, 0), Stage("coef_transform_theta", "bwd", 0, 0, 0), Stage("rad_orb", "bwd", 0, 0, 0),
                    Stage("angc_ylm", "bwd", 0, 0, 0)>>
InnerFwd(c) == {Stage("spline", "fwd", 0, 0, 0), Stage("interp", "fwd", 0, 0, 0)}
               \cup (IF c.onsite THEN {Stage("onsite_atco", "fwd", c.n0, 0, 0)} ELSE {})
               \cup (IF c.onsite /\ c.n1 > 0 THEN {Stage("onsite_l1atco", "fwd", 3 * c.n1, 0, c.n0),
                                                   Stage("onsite_atco", "fwd", c.n1, c.n0 + c.n1, c.n0 + 3 * c.n1),
                                                   Stage("lp1", "fwd", c.n1, 0, 0)} ELSE {})
InnerBwd(c) == {Stage("spline", "bwd", 0, 0, 0), Stage("interp", "bwd", 0, 0, 0)}
               \cup (IF c.onsite THEN {Stage("onsite_atco", "bwd", c.n0, 0, 0)} ELSE {})
               \cup (IF c.onsite /\ c.n1 > 0 THEN {Stage("onsite_l1atco", "bwd", 3 * c.n1, 0, c.n0),
                                                   Stage("onsite_atco", "bwd", c.n1, c.n0 + c.n1, c.n0 + 3 * c.n1),
                                                   Stage("lp1", "bwd", c.n1, 0, 0)} ELSE {})
Cfgs == {[ver |-> v, onsite |-> o, n0 |-> a, n1 |-> b] : v \in Versions, o \in BOOLEAN, a \in 1..MaxN0, b \in 0..MaxN1}
Init == cfg = <<>> /\ fwd = <<>> /\ bwd = <<>>
Pick(c) == cfg = <<>> /\ cfg' = c /\ fwd' = [outer |-> OuterFwd(c), inner |-> InnerFwd(c)]
           /\ bwd' = [outer |-> OuterBwd(c), inner |-> InnerBwd(c)]
Next == \E c \in Cfgs : Pick(c)
Spec == Init /\ [][Next]_vars
\* ---- the adjoint structure
OuterIsReversedTranspose == cfg # <<>> => bwd.outer = Reverse([k \in 1..Len(fwd.outer) |-> T(fwd.outer[k])])
InnerIsTranspose == cfg # <<>> => bwd.inner = {T(s) : s \in fwd.inner}
\* offsets of the three on-site calls do not overlap and tile the interpolation channels
OnsiteOffsetsTile == (cfg # <<>> /\ cfg.onsite /\ cfg.n1 > 0) =>
   LET grid == {[lo |-> s.o2, hi |-> s.o2 + s.cnt] : s \in {x \in fwd.inner : x.name \in {"onsite_atco", "onsite_l1atco"}}}
   IN /\ \A a, b \in grid : a # b => (a.hi <= b.lo \/ b.hi <= a.lo)
      /\ UNION {a.lo..(a.hi - 1) : a \in grid} = 0..(cfg.n0 + 4 * cfg.n1 - 1)
=============================================================================
