SPECIFICATION Spec
CONSTANTS
  Classes = {"gaussian", "spline"}
INVARIANT NeverSilentUnlessAsked
INVARIANT GuardCoversTheWindow
INVARIANT NeverEmpty
INVARIANT CappedOnlyIfAsked
INVARIANT Emit
