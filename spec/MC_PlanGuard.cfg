SPECIFICATION Spec
CONSTANTS
  Classes = {"gaussian", "spline"}
INVARIANT NeverSilentUnlessAsked
INVARIANT NeverEmpty
INVARIANT CappedOnlyIfAsked
INVARIANT Emit
