SPECIFICATION Spec
CONSTANTS
  T = 2
  N = 3
  Kind = "disjoint"
  NCells = 2
INVARIANT FinalIsSequential
INVARIANT ManualTiles
INVARIANT ScratchPrivate
INVARIANT MutualExclusion
