------------------------------ MODULE Registry ------------------------------
(* Serialisation of feature lists, evaluators and whole models as a state machine over the
   LIVE code table.  Reg (code -> class, transform_data.ALL_CLASS_DICT) and Writes (class -> the
   "code" its as_dict emits) are extracted from the running modules by the harness and substituted
   as constants, so TLC always checks the tables the current tree contains.

   Artifacts:  a feature list goes through as_dict/from_dict ("dict") or dump/load ("yaml");
   a spline evaluator through to_dict/from_dict or dump/load; a whole mapped model through
   yaml.dump / joblib.dump and load_cider_model(fname, fmt), whose format is given or inferred
   from the file suffix.  A dict-coded artifact names classes by CODE (the registry decides what
   is rebuilt); a whole-model file carries Python class identity itself.
   An ANALYZER (ciderpress/pyscf/analyzers.py: the object that carries a converged calculation, its grid level and
   stored grid data to the training side) goes through as_dict/from_dict ("dict") or dump/load (hdf5, "yaml" slot of the
   coded formats); its code is the calculation type ("RHF"/"UHF", aliases "RKS"/"UKS"), its shape the class together with
   the grid level it was built with (levels 0..3: 0 is a legal level). *)
EXTENDS Integers, Sequences, FiniteSets, TLC
CONSTANTS Classes,     \* names of the registered feature-map classes
          RegCodes,    \* DOMAIN of the registry (strings; "None" for a class without code)
          Reg,         \* [RegCodes -> Classes]
          Writes,      \* [Classes -> STRING]
          SplineShapes,\* index layouts of a spline-set evaluator (which features each term reads, IN WHICH ORDER): the order
                       \* pairs feature columns with spline axes, so it is part of the object's identity
          AnalyzerShapes, \* "RHFAnalyzer@<grid level>", "UHFAnalyzer@<grid level>"
          AWrites,        \* [AnalyzerShapes -> code written by as_dict]
          AReg,           \* [analyzer codes accepted by from_dict -> "R" | "U"]   (aliases map to the same family)
          AFamily,        \* [AnalyzerShapes -> "R" | "U"]
          AAlias,         \* [written codes -> the alias of the same family]
          MaxCycles

VARIABLES obj,   \* the live object: [kind, cls, ver] | Error | None   (ver: which parameter set it carries)
          file,  \* THE artifact at the (single) path in use: [kind, fmt, code, cls, suffix, ver] | None.  A later dump
                 \* OVERWRITES it; a load must return what the path holds NOW, not what an earlier load saw there
          ncyc, hist
vars == <<obj, file, ncyc, hist>>
None == <<>>
Error == [kind |-> "error"]
ListFmts == {"dict", "yaml"}
ModelFmts == {"yaml", "joblib"}
Suffix(fmt) == IF fmt = "yaml" THEN ".yaml" ELSE IF fmt = "joblib" THEN ".joblib" ELSE ".txt"
LoadFmts == {"yaml", "joblib", "other", "infer"}
Suffixes == {".yaml", ".joblib", ".txt"}

Init == obj = None /\ file = None /\ ncyc = 0 /\ hist = <<>>
\* a dump is only worth exploring right after the object was made or (re)loaded
LastOp == IF hist = <<>> THEN "none" ELSE hist[Len(hist)][1]
FreshObj == LastOp \in {"make", "load", "loadmodel", "renew"}

Make(kind, c) == /\ obj = None /\ obj' = [kind |-> kind, cls |-> c, ver |-> 0] /\ UNCHANGED <<file, ncyc>>
                 /\ hist' = Append(hist, <<"make", kind, c>>)
\* the user goes on (refits, edits) after a reload: same kind and class, NEW parameters; the next dump overwrites the path
Renew == /\ obj # None /\ obj # Error /\ LastOp \in {"load", "loadmodel"} /\ ncyc < MaxCycles
         /\ obj' = [obj EXCEPT !.ver = @ + 1] /\ hist' = Append(hist, <<"renew">>) /\ UNCHANGED <<file, ncyc>>

\* FeatureList.as_dict / dump ; SplineSetEvaluator.to_dict / dump
DumpCoded(fmt) ==
  /\ obj # None /\ obj # Error /\ obj.kind \in {"list", "spline", "analyzer"} /\ fmt \in ListFmts /\ ncyc < MaxCycles /\ FreshObj
  /\ file' = [kind |-> obj.kind, fmt |-> fmt, cls |-> obj.cls,
              code |-> IF obj.kind = "list" THEN Writes[obj.cls] ELSE IF obj.kind = "analyzer" THEN AWrites[obj.cls] ELSE "spline",
              suffix |-> Suffix(fmt), ver |-> obj.ver]
  /\ hist' = Append(hist, <<"dump", fmt>>) /\ UNCHANGED <<obj, ncyc>>
\* FeatureNormalizer.from_dict: dispatch on the code through the registry
LoadCoded ==
  /\ file # None /\ file.kind \in {"list", "spline", "analyzer"} /\ LastOp \in {"dump", "corrupt", "alias"}
  /\ obj' = IF file.kind = "spline" THEN [kind |-> "spline", cls |-> file.cls, ver |-> file.ver]
            \* ElectronAnalyzer.from_dict: the code selects the class family; everything else (grid level, stored data) is read back
            ELSE IF file.kind = "analyzer"
                 THEN (IF file.code \in DOMAIN AReg /\ AReg[file.code] = AFamily[file.cls]
                       THEN [kind |-> "analyzer", cls |-> file.cls, ver |-> file.ver] ELSE Error)
            ELSE IF file.code \in RegCodes THEN [kind |-> "list", cls |-> Reg[file.code], ver |-> file.ver] ELSE Error
  /\ ncyc' = ncyc + 1 /\ hist' = Append(hist, <<"load">>) /\ UNCHANGED file
\* a hand-edited / foreign file with a code nobody registered
Corrupt == /\ file # None /\ file.kind \in {"list", "analyzer"} /\ file.code # "Bogus" /\ LastOp = "dump"
           /\ file' = [file EXCEPT !.code = "Bogus"] /\ hist' = Append(hist, <<"corrupt">>)
           /\ UNCHANGED <<obj, ncyc>>

\* the same calculation type under its other name (a file written by a Kohn-Sham run: "RKS" / "UKS")
Alias == /\ file # None /\ file.kind = "analyzer" /\ file.code \in DOMAIN AAlias /\ LastOp = "dump"
         /\ file' = [file EXCEPT !.code = AAlias[file.code]] /\ hist' = Append(hist, <<"alias">>)
         /\ UNCHANGED <<obj, ncyc>>

\* whole models: yaml.dump(model) / joblib.dump(model) to a file with any suffix
DumpModel(fmt, sfx) ==
  /\ obj # None /\ obj # Error /\ obj.kind \in {"model", "list"} /\ fmt \in ModelFmts /\ ncyc < MaxCycles /\ FreshObj
  /\ file' = [kind |-> IF obj.kind = "model" THEN "modelfile" ELSE "listfile", fmt |-> fmt, cls |-> obj.cls,
              code |-> "n/a", suffix |-> sfx, ver |-> obj.ver]
  /\ hist' = Append(hist, <<"dumpmodel", fmt, sfx>>) /\ UNCHANGED <<obj, ncyc>>
\* load_cider_model(fname, mlfunc_format)
Resolved(fmt, sfx) == IF fmt = "infer" THEN (IF sfx = ".yaml" THEN "yaml" ELSE IF sfx = ".joblib" THEN "joblib" ELSE "unsupported")
                      ELSE IF fmt \in ModelFmts THEN fmt ELSE "unsupported"
LoadModel(fmt) ==
  /\ file # None /\ file.kind \in {"modelfile", "listfile"} /\ fmt \in LoadFmts /\ LastOp = "dumpmodel"
  /\ LET rf == Resolved(fmt, file.suffix) IN
       obj' = IF rf = "unsupported" THEN Error                 \* ValueError("Unsupported file format")
              ELSE IF rf # file.fmt THEN Error                  \* parser of the other format fails
              ELSE IF file.kind # "modelfile" THEN Error        \* not a MappedXC: ValueError
              ELSE [kind |-> "model", cls |-> file.cls, ver |-> file.ver]
  /\ ncyc' = ncyc + 1 /\ hist' = Append(hist, <<"loadmodel", fmt>>) /\ UNCHANGED file

Next == \/ \E k \in {"list", "model"}, c \in Classes : Make(k, c)
        \/ \E sh \in SplineShapes : Make("spline", sh)
        \/ \E sh \in AnalyzerShapes : Make("analyzer", sh)
        \/ \E f \in ListFmts : DumpCoded(f)
        \/ LoadCoded \/ Corrupt \/ Alias \/ Renew
        \/ \E f \in ModelFmts, s \in Suffixes : DumpModel(f, s)
        \/ \E f \in LoadFmts : LoadModel(f)
Spec == Init /\ [][Next]_vars

\* ---- properties
\* every registered class is rebuilt as ITSELF from what it writes
RegistryConsistent == \A c \in Classes : Writes[c] \in RegCodes /\ Reg[Writes[c]] = c
\* a successful load yields the class that was dumped
RoundTrip == [][(LoadCoded \/ \E f \in LoadFmts : LoadModel(f)) =>
                 (obj' # Error => obj'.cls = file.cls /\ obj'.ver = file.ver)]_vars
\* unknown codes and unsupported / mismatching formats never produce an object
UnknownCodeRejected == [][(LoadCoded /\ ((file.kind = "list" /\ file.code \notin RegCodes) \/ (file.kind = "analyzer" /\ file.code \notin DOMAIN AReg))) => obj' = Error]_vars
\* an analyzer file under either name of its calculation type loads
AliasLoads == [][(LoadCoded /\ file.kind = "analyzer" /\ file.code \in DOMAIN AReg /\ AReg[file.code] = AFamily[file.cls]) => obj' # Error]_vars
BadFormatRejected == [][\A f \in LoadFmts : (LoadModel(f) /\ Resolved(f, file.suffix) # file.fmt) => obj' = Error]_vars
\* loading what a coded dump of a sound object wrote never fails
SoundLoadSucceeds == [][(LoadCoded /\ file.kind = "list" /\ file.code = Writes[file.cls]) => obj' # Error]_vars
Emit == ncyc = MaxCycles => PrintT(<<"HIST", hist>>)
=============================================================================
