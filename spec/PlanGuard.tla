------------------------------ MODULE PlanGuard ------------------------------
(* The large-exponent guard of the NLDF auxiliary plans (ciderpress/dft/plans.py: NLDFAuxiliaryPlan.__init__, .new,
   get_interpolation_arguments / eval_feat_exp) as a decision table over HOW a plan object came to be:

     direct                NLDFGaussianPlan | NLDFSplinePlan(..., raise_large_expnt_error=r, use_smooth_expnt_cutoff=s)
     derived               base.new(keywords kw): a plan of the same class "with the same settings except kw"

   For an input whose length-scale exponent exceeds the largest interpolation exponent at a point above the density
   cutoff, an evaluation has one of three outcomes:
     "raises"     RuntimeError                                         (the default)
     "capped"     the exponent is damped smoothly below the maximum    (use_smooth_expnt_cutoff=True was ASKED for)
     "unguarded"  the exponent is used / clamped silently              (only if raise_large_expnt_error=False was ASKED for)
   The property (C18): "an exponent outside the interpolation range raises an error instead of being silently
   extrapolated" -- so "unguarded" must be reachable only through an explicit request.  For the flags a derived plan
   was NOT given, the code may inherit them from the base plan or fall back to the defaults (both are readings of
   "same settings"); the table therefore gives the SET of admissible outcomes per case.

   WHERE the offending point sits relative to the low-density cutoff is part of the case: rhocut is a cutoff on the TOTAL
   density, a plan for nspin channels sees per-channel densities and masks a point iff nspin * rho_channel < rhocut.
     "dense"   far above the cutoff
     "window"  total density in (rhocut, nspin * rhocut]: above the cutoff, but the per-channel density is below rhocut
               (for nspin = 1 the window is empty and the point sits just above the cutoff)
     "below"   total density below the cutoff: the point is masked, nothing is evaluated there and nothing is raised *)
EXTENDS Integers, Sequences, FiniteSets, TLC
CONSTANTS Classes        \* plan classes
Tri == {"unset", "T", "F"}
VARIABLES case
vars == <<case>>
None == <<>>
\* base: how the base plan was constructed; kw: keyword overrides given to new() ("none" = direct use of the base plan)
Cases == {[cls |-> c, bsmooth |-> bs, braise |-> br, derive |-> d, ksmooth |-> ks, kraise |-> kr, nspin |-> ns, where |-> w] :
             c \in Classes, bs \in {"unset", "T"}, br \in Tri, d \in BOOLEAN, ks \in Tri, kr \in Tri,
             ns \in {1, 2}, w \in {"dense", "window", "below"}}
WellFormed(c) == (~c.derive => (c.ksmooth = "unset" /\ c.kraise = "unset"))
\* somebody explicitly asked for no error
AskedNoRaise(c) == c.braise = "F" \/ c.kraise = "F"
AskedSmooth(c) == c.bsmooth = "T" \/ c.ksmooth = "T"
Admissible(c) ==
  IF c.where = "below" THEN {"masked"}
  ELSE IF ~c.derive THEN
       (IF c.bsmooth = "T" THEN {"capped"} ELSE IF c.braise = "F" THEN {"unguarded"} ELSE {"raises"})
  ELSE IF c.ksmooth = "T" THEN {"capped"}
  ELSE IF c.ksmooth = "F" THEN
       \* smoothing explicitly switched off for the derived plan
       (IF c.kraise = "F" THEN {"unguarded"}
        ELSE IF c.kraise = "T" THEN {"raises"}
        ELSE IF c.braise = "F" THEN {"raises", "unguarded"}     \* inherit the base's explicit request, or the default
        ELSE {"raises"})
  ELSE \* smoothing not mentioned: inherit the base's, or the default
       (IF c.bsmooth = "T" THEN {"capped", "raises"} \cup (IF AskedNoRaise(c) THEN {"unguarded"} ELSE {})
        ELSE IF c.kraise = "F" THEN {"unguarded"}
        ELSE IF c.kraise = "T" THEN {"raises"}
        ELSE IF c.braise = "F" THEN {"raises", "unguarded"}
        ELSE {"raises"})
Init == case = None
Pick(c) == case = None /\ WellFormed(c) /\ case' = c
Next == \E c \in Cases : Pick(c)
Spec == Init /\ [][Next]_vars
\* ---- the property: never silent unless asked
NeverSilentUnlessAsked == case # None => ("unguarded" \in Admissible(case) => AskedNoRaise(case))
\* the guard applies at every point that is not masked, whatever the number of spin channels
GuardCoversTheWindow == case # None => (case.where = "window" => Admissible(case) = Admissible([case EXCEPT !.where = "dense"]))
NeverEmpty == case # None => Admissible(case) # {}
CappedOnlyIfAsked == case # None => ("capped" \in Admissible(case) => AskedSmooth(case))
Emit == case # None => PrintT(<<"GUARDCASE", case, Admissible(case)>>)
=============================================================================
