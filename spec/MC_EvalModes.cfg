SPECIFICATION Spec
CONSTANTS
  Modes = {"SEP", "NPOL", "POL"}
  EvalKinds = {"kernel", "rbf", "antisym", "spinrbf", "spline", "linear"}
  MaxEvals = 2
  Versions = {"v1", "v2"}
INVARIANT EveryEvaluatorOnce
INVARIANT MaskBoth
INVARIANT PointLocal
INVARIANT ShapeAgree
INVARIANT Emit
