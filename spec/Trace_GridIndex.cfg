SPECIFICATION TSpec
CONSTANTS
  Elements <- NoSet
  ShellChoices <- NoSet
  MaxAtoms = 0
  Aligns <- NoSet
  MaxPermPoints = 0
INVARIANT ObsRadLoc
INVARIANT ObsRaLoc
INVARIANT ObsArRa
INVARIANT ObsYlmLocInside
INVARIANT ObsGaLoc
INVARIANT IdxMapInjective
INVARIANT OwnerAgrees
INVARIANT PaddingZeroWeight
INVARIANT SizesAgree
INVARIANT NumericOK
INVARIANT PruneKeepsMap
POSTCONDITION Accepted
CHECK_DEADLOCK FALSE
