--------------------------- MODULE FeatureAlgebra ---------------------------
(* The discrete algebra of CiderPress feature settings (ciderpress/dft/settings.py,
   feat_normalizer.py): which constructor arguments are accepted, how many features a settings
   object declares, the uniform-scaling power (USP) of every feature, which normaliser the
   "reasonable normaliser" recipe picks and what USP it carries, the per-family offsets.

   Two independent sources are compared for the USPs of the NLDF kernel specs:
     * Declared -- the table the code ships (SPEC_USPS, RHO_MULT_USPS), substituted from the
                   LIVE module by the harness;
     * Derived  -- the dimension algebra of the DOCUMENTED kernel (docs/features/nldf.rst):
                   k = a^p r^q exp(..) has power 2p - q, a vector kernel carries one more r,
                   the measure d^3r' (-3) cancels the density (+3).
   Everything else is a transcription of the code's case analysis, so that every reachable
   state of this module is one implementation test (harness/featalg.py constructs the real
   object for the state and compares the projection). All powers are integers. *)
EXTENDS Integers, Sequences, FiniteSets, TLC

CONSTANTS LiveSpecUsps,      \* [spec string -> Int]       settings.SPEC_USPS
          LiveRhoMultUsps,   \* [rho_mult string -> Int]   settings.RHO_MULT_USPS
          Families           \* sequence of sets of configurations to explore (a tuple, so that TLC
                             \* never has to form the quadratic union of large sets of records)

VARIABLES cfg, attr
vars == <<cfg, attr>>

\* ------------------------------------------------------------------ documented kernels
\* [ap: power of a, rp: power of r, vec: vector kernel]; se_lapl = 4 a^2 r^2 - 2 a (both terms 2)
DocForm == [se       |-> [ap |-> 0, rp |-> 0, vec |-> FALSE],
            se_r2    |-> [ap |-> 0, rp |-> 2, vec |-> FALSE],
            se_ar2   |-> [ap |-> 1, rp |-> 2, vec |-> FALSE],
            se_a2r4  |-> [ap |-> 2, rp |-> 4, vec |-> FALSE],
            se_erf_rinv |-> [ap |-> 0, rp |-> 0, vec |-> FALSE],   \* erf(sqrt(b) r)/(sqrt(b) r): dimensionless
            se_ap    |-> [ap |-> 1, rp |-> 0, vec |-> FALSE],
            se_apr2  |-> [ap |-> 1, rp |-> 2, vec |-> FALSE],
            se_ap2r2 |-> [ap |-> 2, rp |-> 2, vec |-> FALSE],
            se_lapl  |-> [ap |-> 1, rp |-> 0, vec |-> FALSE],
            se_grad  |-> [ap |-> 1, rp |-> 0, vec |-> TRUE],
            se_rvec  |-> [ap |-> 0, rp |-> 0, vec |-> TRUE]]
DerivedUsp(spec) == IF spec = "grad_rho" THEN 4          \* grad n: lambda^3 * lambda
                    ELSE 2 * DocForm[spec].ap - DocForm[spec].rp - (IF DocForm[spec].vec THEN 1 ELSE 0)
DerivedRhoMultUsp(m) == IF m = "expnt" THEN 2 ELSE 0      \* a[n_lambda] = lambda^2 a[n]
DeclaredMatchesDerived ==
  /\ \A s \in DOMAIN DocForm \cup {"grad_rho"} : s \in DOMAIN LiveSpecUsps /\ LiveSpecUsps[s] = DerivedUsp(s)
  /\ \A m \in {"one", "expnt"} : m \in DOMAIN LiveRhoMultUsps /\ LiveRhoMultUsps[m] = DerivedRhoMultUsp(m)

L0Specs == {"se", "se_r2", "se_apr2", "se_ap", "se_ap2r2", "se_lapl"}
L1Specs == {"se_grad", "se_rvec"}
JSpecs == {"se", "se_ar2", "se_a2r4", "se_erf_rinv"}

\* ------------------------------------------------------------------ helpers
RECURSIVE SumSeq(_)
SumSeq(s) == IF s = <<>> THEN 0 ELSE Head(s) + SumSeq(Tail(s))
Map(f(_), s) == [k \in 1..Len(s) |-> f(s[k])]
Take(s, n) == SubSeq(s, 1, n)
Usp(spec) == LiveSpecUsps[spec]

\* ------------------------------------------------------------------ NLDF settings
\* c = [ver, level, rho_mult, theta_len, a0ok, l0, l1, dots, jspecs, jplens]
NParams(level) == IF level = "MGGA" THEN 3 ELSE 2
ParamLenOK(level, spec, n) == n = NParams(level) + (IF spec = "se_erf_rinv" THEN 1 ELSE 0)
DotsOK(dots, n1) == \A k \in 1..Len(dots) : \A d \in {dots[k][1], dots[k][2]} : d >= -1 /\ d < n1
NLDFValid(c) ==
  /\ c.a0ok /\ c.theta_len = NParams(c.level)
  /\ c.level \in {"GGA", "MGGA"} /\ c.rho_mult \in {"one", "expnt"}
  /\ (c.ver \in {"i", "ij"} => /\ \A k \in 1..Len(c.l0) : c.l0[k] \in L0Specs
                               /\ \A k \in 1..Len(c.l1) : c.l1[k] \in L1Specs
                               /\ DotsOK(c.dots, Len(c.l1)))
  /\ (c.ver \in {"j", "ij", "k"} => /\ \A k \in 1..Len(c.jspecs) : c.jspecs[k] \in JSpecs
                                    /\ Len(c.jplens) = Len(c.jspecs)
                                    /\ \A k \in 1..Len(c.jspecs) : ParamLenOK(c.level, c.jspecs[k], c.jplens[k]))
HasI(c) == c.ver \in {"i", "ij"}
HasJ(c) == c.ver \in {"j", "ij", "k"}
NVJ(c) == IF HasJ(c) THEN Len(c.jspecs) ELSE 0
NVI(c) == IF HasI(c) THEN Len(c.l0) + Len(c.dots) ELSE 0
NLDFNFeat(c) == NVJ(c) + NVI(c)
DotSpec(c, d) == IF d = -1 THEN "grad_rho" ELSE c.l1[d + 1]
NLDFUsps(c) ==
  LET u0 == LiveRhoMultUsps[c.rho_mult]
      uj == IF HasJ(c) THEN [k \in 1..Len(c.jspecs) |-> u0 + Usp(c.jspecs[k])] ELSE <<>>
      ui == IF HasI(c) THEN [k \in 1..Len(c.l0) |-> u0 + Usp(c.l0[k])] \o
                            [k \in 1..Len(c.dots) |-> u0 + Usp(DotSpec(c, c.dots[k][1])) + Usp(DotSpec(c, c.dots[k][2]))]
            ELSE <<>>
  IN uj \o ui
\* is the UEG value of VI feature k zero? (the dot features vanish for a uniform density)
VIUegZero(c, k) == k > Len(c.l0)
\* get_reasonable_normalizer: normaliser kinds. <<"gen", 2*rho_pow, 2*exp_pow>> is
\* get_normalizer_from_exponent_params(rho_pow, exp_pow, ..), whose USP is 3*rho_pow + 2*exp_pow
NormJ(u) == IF u = 0 THEN <<"const">> ELSE <<"gen", 0, -u>>          \* exp_pow = -u/2
NormI(u, uegzero) == IF u = 0 /\ ~uegzero THEN <<"const">>
                     ELSE IF u = 0 THEN <<"none">>
                     ELSE IF u = -2 THEN <<"gen", 0, 2>>
                     ELSE IF u = 2 THEN <<"gen", 0, -2>>
                     ELSE IF u = 5 THEN <<"gen", -2, -2>>
                     ELSE <<"raise">>
NLDFNorms(c) ==
  LET us == NLDFUsps(c)
  IN [k \in 1..NVJ(c) |-> NormJ(us[k])] \o
     [k \in 1..NVI(c) |-> NormI(us[NVJ(c) + k], VIUegZero(c, k))]
NormUsp(nk) == IF nk[1] = "gen" THEN (3 * nk[2] + 2 * nk[3]) \div 2
               ELSE IF nk[1] = "dens" THEN nk[2]
               ELSE 0
Raises(norms) == \E k \in 1..Len(norms) : norms[k] = <<"raise">>

\* ------------------------------------------------------------------ semilocal settings
SLValid(mode) == mode \in {"nst", "npa", "ns", "np"}
SLNFeat(mode) == IF mode \in {"nst", "npa"} THEN 3 ELSE 2
SLUsps(mode) == IF mode = "nst" THEN <<3, 8, 5>> ELSE IF mode = "npa" THEN <<3, 0, 0>>
                ELSE IF mode = "ns" THEN <<3, 8>> ELSE <<3, 0>>
\* documented: n -> 3, sigma = |grad n|^2 -> 8, tau -> 5, reduced gradient and alpha -> 0
ModeLetters == [nst |-> <<"n", "s", "t">>, npa |-> <<"n", "p", "a">>, ns |-> <<"n", "s">>, np |-> <<"n", "p">>]
SLDerived(mode) == LET v == [n |-> 3, s |-> 8, t |-> 5, p |-> 0, a |-> 0]
                   IN [k \in 1..Len(ModeLetters[mode]) |-> v[ModeLetters[mode][k]]]

\* ------------------------------------------------------------------ SDMX settings
\* s = [kind, pows, nd, n1, full]; kind in {"none","SDMX","G","1","G1","Full"}
\* SDMXSettings takes pows only, SDMXGSettings (pows, nd), SDMX1Settings (pows, n1), SDMXG1Settings all three
EffNd(s) == IF s.kind \in {"G", "G1"} THEN s.nd ELSE 0
EffN1(s) == IF s.kind \in {"1", "G1"} THEN s.n1 ELSE 0
\* kind "Full" (SDMXFullSettings): s.full is a sequence, sorted by ratio, of entries
\*   [ratio10 (10 x the ratio), pows, cnt = <<n0, n0d, n1, n1d>>]
\* feature order (iterate_l0_terms / iterate_l1_terms, SDMXFullPlan): ALL l=0 terms ratio by ratio (plain, then
\* d/dR), THEN all l=1 terms ratio by ratio.  Every term of power n scales as lambda^(3+n).
RECURSIVE FullFlat(_, _, _)
FullFlat(es, k, l1) == IF k > Len(es) THEN <<>>
                       ELSE (IF l1 THEN Take(es[k].pows, es[k].cnt[3]) \o Take(es[k].pows, es[k].cnt[4])
                                   ELSE Take(es[k].pows, es[k].cnt[1]) \o Take(es[k].pows, es[k].cnt[2])) \o FullFlat(es, k + 1, l1)
FullPows(s) == FullFlat(s.full, 1, FALSE) \o FullFlat(s.full, 1, TRUE)
FullValid(s) == \A k \in 1..Len(s.full) : /\ s.full[k].ratio10 >= 10
                                           /\ \A c \in 1..4 : s.full[k].cnt[c] <= Len(s.full[k].pows)
\* the shipped UEG table knows ratios 1, 1.5, 2 and powers 0, 1, 2; anything else must be refused
\* (NotImplementedError) by ueg_vector / get_reasonable_normalizer, never answered silently
FullTabulated(s) == \A k \in 1..Len(s.full) : /\ s.full[k].ratio10 \in {10, 15, 20}
                                               /\ \A c \in 1..4 : \A m \in 1..s.full[k].cnt[c] : s.full[k].pows[m] \in {0, 1, 2}
SDMXValid(s) == s.kind = "none" \/ (IF s.kind = "Full" THEN FullValid(s) ELSE EffNd(s) <= Len(s.pows) /\ EffN1(s) <= Len(s.pows))
SDMXNFeat(s) == IF s.kind = "none" THEN 0 ELSE IF s.kind = "Full" THEN Len(FullPows(s)) ELSE Len(s.pows) + EffNd(s) + EffN1(s)
SDMXUsps(s) == IF s.kind = "none" THEN <<>>
               ELSE IF s.kind = "Full" THEN [k \in 1..Len(FullPows(s)) |-> 3 + FullPows(s)[k]]
               ELSE LET base == [k \in 1..Len(s.pows) |-> 3 + s.pows[k]]
                    IN base \o Take(base, EffNd(s)) \o Take(base, EffN1(s))
\* the recommended normaliser of feature k is a density power cancelling ITS OWN scaling power (feature order)
SDMXNorms(s) == IF s.kind = "none" THEN <<>>
                ELSE IF s.kind = "Full" /\ ~FullTabulated(s) THEN <<<<"raise">>>>
                ELSE LET us == SDMXUsps(s) IN [k \in 1..Len(us) |-> <<"dens", -us[k]>>]

\* ------------------------------------------------------------------ fractional Laplacian settings
\* f = [present, s2 (seq of 2*s), nk0, nk1, dots, nd1, ndd]
FLValid(f) == ~f.present \/ (/\ f.nk0 <= Len(f.s2) /\ f.nk1 <= Len(f.s2) /\ f.nd1 <= Len(f.s2)
                             /\ f.ndd <= f.nd1 /\ DotsOK(f.dots, f.nk1) /\ DotsOK(f.lddots, f.nd1))
FLNFeat(f) == IF f.present THEN f.nk0 + Len(f.dots) + Len(f.lddots) + f.ndd ELSE 0
FLBase(f, d) == IF d = -1 THEN 3 ELSE 3 + f.s2[d + 1]
FLUsps(f) == IF ~f.present THEN <<>>
             ELSE [k \in 1..f.nk0 |-> 3 + f.s2[k]] \o
                  [k \in 1..Len(f.dots) |-> FLBase(f, f.dots[k][1]) + FLBase(f, f.dots[k][2]) + 2] \o
                  \* contractions of the derivative vectors F^d (ld_dots): their own group, same power law, AFTER the l1 group
                  [k \in 1..Len(f.lddots) |-> FLBase(f, f.lddots[k][1]) + FLBase(f, f.lddots[k][2]) + 2] \o
                  [k \in 1..f.ndd |-> 3 + f.s2[k] + 2]

\* ------------------------------------------------------------------ FeatureSettings
\* cfg = [sl, nldf (record or <<>>), sdmx, fl]
HasNLDF(c) == c.nldf # <<>>
Valid(c) == /\ SLValid(c.sl) /\ (HasNLDF(c) => NLDFValid(c.nldf)) /\ SDMXValid(c.sdmx) /\ FLValid(c.fl)
NFeatParts(c) == <<SLNFeat(c.sl), IF HasNLDF(c) THEN NLDFNFeat(c.nldf) ELSE 0, FLNFeat(c.fl), SDMXNFeat(c.sdmx), 0>>
FeatLoc(c) == LET p == NFeatParts(c) IN [k \in 1..6 |-> SumSeq(Take(p, k - 1))]
NFeat(c) == SumSeq(NFeatParts(c))
FeatUsps(c) == SLUsps(c.sl) \o (IF HasNLDF(c) THEN NLDFUsps(c.nldf) ELSE <<>>) \o FLUsps(c.fl) \o SDMXUsps(c.sdmx)
Attr(c) ==
  IF ~Valid(c) THEN [valid |-> FALSE]
  ELSE LET nn == IF HasNLDF(c) THEN NLDFNorms(c.nldf) ELSE <<>>
       IN [valid |-> TRUE, nfeat |-> NFeat(c), loc |-> FeatLoc(c), usps |-> FeatUsps(c),
           nldf_norms |-> nn, norm_raises |-> (Raises(nn) \/ Raises(SDMXNorms(c.sdmx))), sdmx_norms |-> SDMXNorms(c.sdmx),
           nldf_norm_usps |-> [k \in 1..Len(nn) |-> NormUsp(nn[k])]]


\* ------------------------------------------------------------------ plan constructor arguments
\* NLDFAuxiliaryPlan.__init__ (plans.py): the accept / reject predicate over argument classes
\* pa = [alpha0, lambd, nalpha, nspin, rhocut, expcut, coef_order, alpha_formula]
PlanArgsValid(pa) ==
  /\ pa.alpha0 = "pos" /\ pa.lambd = "gt1" /\ pa.nalpha = "posint"
  /\ pa.alpha_formula \in {"etb", "zexp"} /\ pa.coef_order \in {"gq", "qg"}
  /\ pa.nspin \in {1, 2} /\ pa.rhocut # "neg" /\ pa.expcut # "neg"
\* 'zexp' with expcut = 0 puts a zero exponent into the ladder; whether that is refused is left open
PlanArgsUnspecified(pa) == pa.alpha_formula = "zexp" /\ pa.expcut = "zero"
PlanArgSpace == [alpha0 : {"neg", "zero", "pos"}, lambd : {"lt1", "eq1", "gt1"},
                 nalpha : {"negint", "zero", "posint", "float"}, nspin : {0, 1, 2, 3},
                 rhocut : {"neg", "zero", "pos"}, expcut : {"neg", "zero", "pos"},
                 coef_order : {"gq", "qg", "xx"}, alpha_formula : {"etb", "zexp", "xx"}]
\* large-exponent guard (plans.py eval_feat_exp): an exponent above the interpolation range at a
\* point above the density cutoff must raise instead of being extrapolated
LargeExponentGuard(aAboveMax, rhoAboveCut, raiseFlag) == (aAboveMax /\ rhoAboveCut /\ raiseFlag)

\* ------------------------------------------------------------------ the (trivial) machine: one step per configuration
Init == cfg = <<>> /\ attr = <<>>
Evaluate(c) == cfg = <<>> /\ cfg' = c /\ attr' = Attr(c)
Next == \E i \in 1..Len(Families) : \E c \in Families[i] : Evaluate(c)
Spec == Init /\ [][Next]_vars

\* ------------------------------------------------------------------ invariants
Checked == cfg # <<>> /\ attr.valid
LengthsAgree == Checked => /\ Len(attr.usps) = attr.nfeat /\ attr.loc[6] = attr.nfeat
                           /\ \A k \in 1..5 : attr.loc[k] <= attr.loc[k + 1]
SLDeclaredMatchesDerived == Checked => SLUsps(cfg.sl) = SLDerived(cfg.sl)
\* after the recommended normalisation every nonlocal (NLDF / SDMX) feature has power 0 -- or the
\* recipe refuses (NotImplementedError); never a silent non-zero power
NormalisedPowerZero == (Checked /\ ~attr.norm_raises) =>
    /\ \A k \in 1..Len(attr.nldf_norms) : attr.usps[attr.loc[2] + k] + attr.nldf_norm_usps[k] = 0
    /\ \A k \in 1..Len(attr.sdmx_norms) : attr.usps[attr.loc[4] + k] + NormUsp(attr.sdmx_norms[k]) = 0
\* the length-scale exponent scales as lambda^2 (used by DerivedRhoMultUsp and by every kernel's `a`)
Emit == cfg # <<>> => PrintT(<<"CFG", cfg, attr>>)
EmitPlanArgs == cfg = cfg /\ \A pa \in PlanArgSpace : PlanArgsUnspecified(pa) \/ PrintT(<<"PLANARG", pa, PlanArgsValid(pa)>>)
=============================================================================
