---- MODULE MC_Cutoffs ----
EXTENDS Cutoffs
\* <<units of 1e-12, label>>; the two largest classes only need to be above every cutoff
MCRho == {<<0, "zero">>, <<0, "denormal">>, <<0, "1e-17">>, <<10, "1e-11">>, <<40, "4e-11">>, <<90, "9e-11">>,
          <<110, "1.1e-10">>, <<400, "4e-10">>, <<600, "6e-10">>, <<900, "9e-10">>, <<1100, "1.1e-9">>,
          <<1000000, "1e-6">>, <<100000000, "0.1">>}
MCGrad == {"zero", "tiny", "normal", "huge"}
MCTau == {"single", "zero", "normal", "huge"}
MCModes == {"SEP", "NPOL", "POL"}
MCSL == {"npa", "nst", "np", "ns"}
====
