SPECIFICATION Spec
CONSTANTS
  RhoUnits <- MCRho
  GradClasses <- MCGrad
  TauClasses <- MCTau
  Modes <- MCModes
  SLModes <- MCSL
  ModelCut = 1000
INVARIANT MaskShape
INVARIANT TinyAlwaysMasked
INVARIANT Emit
