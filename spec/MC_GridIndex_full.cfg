SPECIFICATION Spec
CONSTANTS
  Elements <- MCElements
  ShellChoices <- MCShells
  MaxAtoms = 3
  Aligns <- MCAligns
  MaxPermPoints = 4
INVARIANT TablesWellFormed
INVARIANT GaLocIsRadLocOfRaLoc
INVARIANT IdxMapInjective
INVARIANT OwnerAgrees
INVARIANT PaddingZeroWeight
INVARIANT SizesAgree
