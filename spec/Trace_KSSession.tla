---- MODULE Trace_KSSession ----
(* Trace validation for KSSession (code -> spec).  A record is one real FLOW on a decorated PySCF object -- several
   ks.kernel() runs (each: build, then per SCF cycle initialize_grids + nr_rks|nr_uks), grid attribute assignments,
   model swaps, geometry changes, density fitting, spin conversion, gradient object creation -- recorded by
   harness/session.py (method wrappers installed at run time, one event per public call, logged at its return, also
   on the exception path).  Every event carries the projection of the real objects AFTER the call; it must be explained
   by the specification action of the same name, and the logged projection is judged against the specification's
   post-state by NAMED invariants (a rejection names the clause).  An event the specification cannot take leaves the
   trace STUCK; the position is reported through TLC register 1. *)
EXTENDS KSSession, Json, IOUtils, TLCExt
Recs == JsonDeserialize(IOEnv.TRACE_FILE)
VARIABLES i, l, obs
tvars == <<vars, i, l, obs>>
TFamilies == {"sl", "sdmx", "nldf", "nldfsdmx"}
TMols == {"m1", "m2"}
TLevels == {0, 1}
TSchemes == {"becke", "stratmann"}
Rec == Recs[i]
Ev == Rec.events[l]
IsEvent(name) == i <= Len(Recs) /\ l <= Len(Rec.events) /\ Ev.ev = name /\ l' = l + 1 /\ i' = i
OK == [attrs |-> TRUE, classes |-> TRUE, gridobj |-> TRUE, niobj |-> TRUE, gen |-> TRUE, sdmx |-> TRUE, genstale |-> TRUE, sdmxstale |-> TRUE,
       outcome |-> TRUE, evaloutcome |-> TRUE, who |-> TRUE, grad |-> TRUE]
TInit == Init /\ i = 1 /\ l = 1 /\ obs = OK

\* judge the logged post-state projection P against the primed specification state
Judge(P) ==
  obs' = [OK EXCEPT
     !.attrs   = /\ P.level = grids'.level /\ P.scheme = grids'.scheme
                 /\ P.built = (grids'.content # 0) /\ P.hasidx = (grids'.indexer # 0),
     !.classes = /\ P.gcls = grids'.cls
                 /\ (ks'.decorated => P.nicls = ni'.cls /\ P.timer = ni'.timer),
     !.gridobj = (P.gsame = (grids'.oid = grids.oid)),
     !.niobj   = ((ks.decorated /\ ks'.decorated) => (P.nisame = (ni'.oid = ni.oid))),
     !.gen     = (ks'.decorated =>
                    /\ P.genpresent = (ni'.gen # None)
                    /\ ((ks.decorated /\ ni.gen # None /\ ni'.gen # None /\ ni'.oid = ni.oid) => (P.gensame = (ni'.gen.serial = ni.gen.serial)))),
     !.sdmx    = (ks'.decorated =>
                    /\ P.sdmxpresent = (ni'.sdmx # None)
                    /\ ((ks.decorated /\ ni.sdmx # None /\ ni'.sdmx # None /\ ni'.oid = ni.oid) => (P.sdmxsame = (ni'.sdmx.serial = ni.sdmx.serial)))),
     \* a generator object the implementation KEPT although the specification replaces it is stale by construction
     !.genstale = ((ks.decorated /\ ks'.decorated /\ ni.gen # None /\ ni'.gen # None /\ ni'.oid = ni.oid /\ P.genpresent /\ P.gensame)
                     => ni'.gen.serial = ni.gen.serial),
     !.sdmxstale = ((ks.decorated /\ ks'.decorated /\ ni.sdmx # None /\ ni'.sdmx # None /\ ni'.oid = ni.oid /\ P.sdmxpresent /\ P.sdmxsame)
                     => ni'.sdmx.serial = ni.sdmx.serial),
     !.outcome = (P.err = err'),
     !.evaloutcome = ((Ev.ev = "NrCall" /\ err' = "ok") => P.err = "ok"),
     !.who     = /\ P.spin = ks'.spin /\ P.df = ks'.df /\ P.mol = ks'.mol /\ P.gmol = grids'.mol]

TConfigure == IsEvent("Configure") /\ Configure(Ev.spin, Ev.level, Ev.scheme) /\ Judge(Ev.post)
TDecorate == IsEvent("Decorate") /\ Decorate(Ev.fam) /\ Judge(Ev.post)
TRedecorate == IsEvent("Redecorate") /\ Redecorate /\ Judge(Ev.post)
TSetMlxc == IsEvent("SetMlxc") /\ SetMlxc(Ev.fam) /\ Judge(Ev.post)
TSetGridAttr == IsEvent("SetGridAttr") /\ SetGridAttr(Ev.level, Ev.scheme) /\ Judge(Ev.post)
\* assigning the value an attribute already has still resets the grid (pyscf Grids.__setattr__); the specification's
\* SetGridAttr requires a change of value, so this case is the same transition with the values kept
TTouchGridAttr ==
  /\ IsEvent("SetGridAttr") /\ Ev.level = grids.level /\ Ev.scheme = grids.scheme
  /\ TickF /\ ks.decorated
  /\ grids' = [grids EXCEPT !.content = 0, !.indexer = 0]
  /\ err' = "ok" /\ UNCHANGED <<ks, ni, nid, last>> /\ Judge(Ev.post)
TBuild == IsEvent("Build") /\ Build(Ev.withmol) /\ Judge(Ev.post)
TInitGrids == IsEvent("InitGrids") /\ InitGrids /\ Judge(Ev.post)
TNrCall == IsEvent("NrCall") /\ Ev.ns = NSpin(ks.spin) /\ NrCall(Ev.ns) /\ Judge(Ev.post)
TReset == IsEvent("Reset") /\ Reset(Ev.mol) /\ Judge(Ev.post)
TMoveInPlace == IsEvent("MoveInPlace") /\ MoveInPlace /\ Judge(Ev.post)
TDensityFit == IsEvent("DensityFit") /\ DensityFit /\ Judge(Ev.post)
TToOtherSpin == IsEvent("ToOtherSpin") /\ ToOtherSpin /\ Judge(Ev.post)
TUnsupported == IsEvent("Unsupported") /\ Unsupported(Ev.meth) /\ Judge(Ev.post)
\* creating the gradient object changes nothing; its class is an observation
TGrad == /\ IsEvent("Grad") /\ UNCHANGED vars
         /\ obs' = [OK EXCEPT !.grad = (<<Ev.cls[1], Ev.cls[2]>> = GradClass)]
TNextRec == /\ i <= Len(Recs) /\ l = Len(Rec.events) + 1 /\ i' = i + 1 /\ l' = 1 /\ obs' = OK
            /\ ks' = [decorated |-> FALSE, spin |-> "R", df |-> FALSE, fam |-> "nofam", mol |-> CHOOSE m \in Mols : TRUE, copies |-> 0]
            /\ grids' = [oid |-> 1, cls |-> "Grids", level |-> CHOOSE x \in Levels : TRUE, scheme |-> CHOOSE s \in Schemes : TRUE,
                         mol |-> CHOOSE m \in Mols : TRUE, content |-> 0, indexer |-> 0]
            /\ ni' = None /\ nid' = 1 /\ last' = None /\ err' = "ok" /\ steps' = 0 /\ geom' = [m \in Mols |-> 0]
TNext == TConfigure \/ TDecorate \/ TRedecorate \/ TSetMlxc \/ TSetGridAttr \/ TTouchGridAttr \/ TBuild \/ TInitGrids
         \/ TNrCall \/ TReset \/ TMoveInPlace \/ TDensityFit \/ TToOtherSpin \/ TUnsupported \/ TGrad \/ TNextRec
TSpec == TInit /\ [][TNext]_tvars

\* ---- named verdicts
GridAttrsAsSpecified == obs.attrs          \* level / scheme / built / indexer after the call
ClassesAsSpecified == obs.classes          \* grid class, integrator class, integrator built
GridObjectReplacedIffSpec == obs.gridobj   \* the grid OBJECT was replaced exactly when the specification replaces it
IntegratorReplacedIffSpec == obs.niobj
NLDFGeneratorAsSpecified == obs.gen        \* present / re-created exactly when the specification says so
SDMXGeneratorAsSpecified == obs.sdmx
OutcomeAsSpecified == obs.outcome          \* exception class of the call
\* the two verdicts that bear on the ANSWERS (C09); the others say that the code still follows this specification
GeneratorNotStale == obs.genstale /\ obs.sdmxstale     \* no generator survives a change the specification re-creates it for
EvaluationSucceeds == obs.evaloutcome                  \* an evaluation the specification performs does not raise
OwnerAsSpecified == obs.who                \* spin treatment, density fitting, molecule of ks and of its grids
GradClassAsSpecified == obs.grad
Track == TLCSet(1, <<i, l>>)
Accepted == IF TLCGet(1) = <<Len(Recs) + 1, 1>> THEN TRUE
            ELSE PrintT(<<"STUCK", TLCGet(1)>>) /\ FALSE
====
