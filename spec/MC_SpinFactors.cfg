SPECIFICATION Spec
INVARIANT FactorsMatch
