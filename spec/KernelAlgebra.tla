----------------------------- MODULE KernelAlgebra -----------------------------
(* Composition of covariance kernels (ciderpress/models/kernels.py) and the layout of the
   hyper-parameter vector theta.  A kernel is a tree over LEAVES (concrete kernel classes with
   constructor arguments; their number of free hyper-parameters is read from the live objects) and
   NODES: sum, product, integer power, scaling by a free constant, linear transformation of the
   inputs.  theta of a composite is the concatenation of the children's theta in argument order
   (a free constant contributes one entry, fixed hyper-parameters none); the gradient returned by
   __call__(eval_gradient=True) has one slice per theta entry, in the same order.
   Each tree TLC visits is one implementation test (harness/c15.py). *)
EXTENDS Integers, Sequences, FiniteSets, TLC
CONSTANTS LeafTheta,   \* [leaf name -> number of free hyper-parameters]          (live)
          SmallLeaves, \* subset of leaves used below the top level of depth-2 trees
          MaxDepth
VARIABLES tree, layout
vars == <<tree, layout>>
Leaves == DOMAIN LeafTheta
Leaf(l) == [op |-> "leaf", id |-> l]
D1(L) == {Leaf(l) : l \in L}
    \cup {[op |-> o, a |-> Leaf(x), b |-> Leaf(y)] : o \in {"sum", "prod"}, x \in L, y \in L}
    \cup {[op |-> "pow", a |-> Leaf(x), n |-> n] : x \in L, n \in {2, 3}}
    \cup {[op |-> "scale", a |-> Leaf(x)] : x \in L}
    \cup {[op |-> "transform", a |-> Leaf(x)] : x \in L}
D1Small == D1(SmallLeaves)
D2 == {[op |-> o, a |-> x, b |-> Leaf(y)] : o \in {"sum", "prod"}, x \in D1Small \ D1(SmallLeaves \ SmallLeaves), y \in SmallLeaves}
      \cup {[op |-> "pow", a |-> x, n |-> 2] : x \in D1Small}
      \cup {[op |-> "scale", a |-> x] : x \in D1Small}
RECURSIVE ThetaLayout(_)
\* sequence of <<leaf id | "const", count>> in theta order
ThetaLayout(t) ==
  CASE t.op = "leaf" -> IF LeafTheta[t.id] = 0 THEN <<>> ELSE <<<<t.id, LeafTheta[t.id]>>>>
    [] t.op \in {"sum", "prod"} -> ThetaLayout(t.a) \o ThetaLayout(t.b)
    [] t.op = "pow" -> ThetaLayout(t.a)
    [] t.op = "scale" -> <<<<"const", 1>>>> \o ThetaLayout(t.a)       \* DiffConstantKernel(c) * k
    [] t.op = "transform" -> ThetaLayout(t.a)
RECURSIVE SumCounts(_)
SumCounts(s) == IF s = <<>> THEN 0 ELSE Head(s)[2] + SumCounts(Tail(s))
ThetaLen(t) == SumCounts(ThetaLayout(t))
RECURSIVE Depth(_)
Depth(t) == IF t.op = "leaf" THEN 0
            ELSE IF t.op \in {"sum", "prod"} THEN 1 + (IF Depth(t.a) > Depth(t.b) THEN Depth(t.a) ELSE Depth(t.b))
            ELSE 1 + Depth(t.a)
\* every node here maps positive semidefinite kernels to positive semidefinite kernels
\* (Schur product theorem for products and integer powers)
RECURSIVE PSDPreserving(_)
PSDPreserving(t) == CASE t.op = "leaf" -> TRUE
                      [] t.op \in {"sum", "prod"} -> PSDPreserving(t.a) /\ PSDPreserving(t.b)
                      [] t.op = "pow" -> t.n \in Nat /\ t.n >= 1 /\ PSDPreserving(t.a)
                      [] OTHER -> PSDPreserving(t.a)
Init == tree = <<>> /\ layout = <<>>
Pick(t) == tree = <<>> /\ tree' = t /\ layout' = ThetaLayout(t)
Next == (\E t \in D1(Leaves) : Pick(t)) \/ (MaxDepth >= 2 /\ \E t \in D2 : Pick(t))
Spec == Init /\ [][Next]_vars
\* ---- invariants
LayoutTiles == tree # <<>> => /\ SumCounts(layout) = ThetaLen(tree)
                              /\ \A k \in 1..Len(layout) : layout[k][2] >= 1
DepthBounded == tree # <<>> => Depth(tree) <= MaxDepth
AllPSD == tree # <<>> => PSDPreserving(tree)
Emit == tree # <<>> => PrintT(<<"TREE", tree, layout, ThetaLen(tree)>>)
=============================================================================
