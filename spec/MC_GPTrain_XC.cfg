SPECIFICATION Spec
CONSTANTS
  Systems <- MCSystems
  Comp <- MCCompXC
  Rxns <- MCRxns
  MaxOps = 3
VIEW View
PROPERTY AlignedUnlessFailed
PROPERTY FitUsesCurrent
PROPERTY ResetClears
INVARIANT RowsBelong
INVARIANT DerivImpliesPlain
