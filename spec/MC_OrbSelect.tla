---- MODULE MC_OrbSelect ----
EXTENDS OrbSelect
\* a handful of solutions for the cases with long requests (the request structure is what these exercise):
\* an aufbau pair of channels with different fillings, a channel with a hole below its frontier, interleaved energies
SmallSolutions ==
  {s \in AllSolutions :
     \/ s.layout = "restricted" /\ s.occ[0] \in {<<TRUE, TRUE, FALSE>>, <<TRUE, FALSE, TRUE>>}
     \/ /\ s.layout # "restricted"
        /\ s.occ[0] \in {<<TRUE, TRUE, FALSE>>, <<TRUE, FALSE, TRUE>>} /\ s.occ[1] = <<TRUE, FALSE, FALSE>>
        /\ s.rank[0] \in {<<1, 3, 5>>, <<2, 3, 6>>} /\ s.rank[1] \in {<<2, 4, 6>>, <<1, 4, 5>>}}
AllLayouts == {"restricted", "perspin", "merged"}
====
