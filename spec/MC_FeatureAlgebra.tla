---- MODULE MC_FeatureAlgebra ----
EXTENDS FeatureAlgebra, Live_FeatureAlgebra
SeqsUpTo(S, n) == UNION {[1..k -> S] : k \in 0..n}
Levels == {"GGA", "MGGA"}
\* dot index pairs: valid ones (j <= k over -1..1) and two illegal ones
DotPairs == {<<-1, -1>>, <<-1, 0>>, <<-1, 1>>, <<0, 0>>, <<0, 1>>, <<1, 1>>, <<-2, 0>>, <<0, 2>>}
NoNLDF == <<>>
NoSDMX == [kind |-> "none", pows |-> <<>>, nd |-> 0, n1 |-> 0, full |-> <<>>]
NoFL == [present |-> FALSE, s2 |-> <<>>, nk0 |-> 0, nk1 |-> 0, dots |-> <<>>, lddots |-> <<>>, nd1 |-> 0, ndd |-> 0]
Base(nldf) == [sl |-> "npa", nldf |-> nldf, sdmx |-> NoSDMX, fl |-> NoFL]
N(ver, level, rm, tl, a0ok, l0, l1, dots, js, jp) ==
   [ver |-> ver, level |-> level, rho_mult |-> rm, theta_len |-> tl, a0ok |-> a0ok,
    l0 |-> l0, l1 |-> l1, dots |-> dots, jspecs |-> js, jplens |-> jp, lastzero |-> FALSE]
\* the same settings with the LAST theta parameter (the tau coefficient of a meta-GGA exponent, the gradient coefficient of a
\* GGA one) equal to zero: a legal exponent whose recommended normalisers must still cancel the declared powers
NZ(n) == [n EXCEPT !.lastzero = TRUE]
\* ---- version i: every spec list / dot pattern within bounds, both levels and rho_mults
VICfgs(nl0, nl1, ndots) ==
  {Base(N("i", lv, rm, IF lv = "MGGA" THEN 3 ELSE 2, TRUE, l0, l1, d, <<>>, <<>>)) :
      lv \in Levels, rm \in {"one", "expnt"}, l0 \in SeqsUpTo(L0Specs, nl0), l1 \in SeqsUpTo(L1Specs, nl1),
      d \in SeqsUpTo(DotPairs, ndots)}
\* ---- versions j and k: specs x parameter-list lengths
JPL(js) == [1..Len(js) -> {2, 3, 4}]
VJKCfgs(nj) ==
  {Base(N(v, lv, rm, IF lv = "MGGA" THEN 3 ELSE 2, TRUE, <<>>, <<>>, <<>>, js, jp)) :
      v \in {"j", "k"}, lv \in Levels, rm \in {"one", "expnt"}, js \in SeqsUpTo(JSpecs, nj), jp \in UNION {JPL(x) : x \in SeqsUpTo(JSpecs, nj)}}
\* ---- version ij
VIJCfgs ==
  {Base(N("ij", lv, rm, IF lv = "MGGA" THEN 3 ELSE 2, TRUE, l0, l1, d, js, [k \in 1..Len(js) |-> (IF lv = "MGGA" THEN 3 ELSE 2) + (IF js[k] = "se_erf_rinv" THEN 1 ELSE 0)])) :
      lv \in Levels, rm \in {"one", "expnt"}, l0 \in SeqsUpTo(L0Specs, 1), l1 \in SeqsUpTo(L1Specs, 1),
      d \in SeqsUpTo(DotPairs, 1), js \in SeqsUpTo(JSpecs, 2)}
\* ---- invalid scalars / strings
BadCfgs ==
  {Base(N(v, lv, rm, tl, a0, l0, <<"se_grad">>, <<<<0, 0>>>>, js, [k \in 1..Len(js) |-> 3])) :
      v \in {"i", "j", "ij", "k"}, lv \in {"GGA", "MGGA", "LDA"}, rm \in {"one", "expnt", "bogus"}, tl \in {2, 3, 4},
      a0 \in BOOLEAN, l0 \in {<<"se">>, <<"bogus">>, <<"se_ar2">>}, js \in {<<"se">>, <<"bogus">>, <<"se_ap">>}}
\* ---- semilocal modes, SDMX variants, fractional Laplacian, with a default NLDF
DefN == N("j", "MGGA", "one", 3, TRUE, <<>>, <<>>, <<>>, <<"se", "se_ar2">>, <<3, 3>>)
SLCfgs == {[sl |-> m, nldf |-> n, sdmx |-> NoSDMX, fl |-> NoFL] : m \in {"nst", "npa", "ns", "np", "bogus", "NPA"}, n \in {NoNLDF, DefN}}
\* ---- semilocal mode x NORMALISER CLASS: the recommended normaliser of a feature is a constant, a density power, an
\* inhomogeneity power or a general one depending on version / spec / rho_mult, and the density and the inhomogeneity
\* variable are read from mode-specific columns ('nst' carries tau, 'npa' carries alpha): every valid mode is crossed
\* with NLDF settings that produce every normaliser class, with and without fractional-Laplacian features
TL(lv) == IF lv = "MGGA" THEN 3 ELSE 2
LevelOf(m) == IF m \in {"nst", "npa"} THEN "MGGA" ELSE "GGA"
NormN(lv) == {N("j", lv, "expnt", TL(lv), TRUE, <<>>, <<>>, <<>>, <<"se", "se_ar2">>, <<TL(lv), TL(lv)>>),
              N("j", lv, "one", TL(lv), TRUE, <<>>, <<>>, <<>>, <<"se_a2r4", "se_erf_rinv">>, <<TL(lv), TL(lv) + 1>>),
              N("k", lv, "expnt", TL(lv), TRUE, <<>>, <<>>, <<>>, <<"se", "se">>, <<TL(lv), TL(lv)>>),
              N("i", lv, "one", TL(lv), TRUE, <<"se_r2", "se_ap">>, <<"se_grad">>, <<<<0, 0>>, <<-1, 0>>>>, <<>>, <<>>),
              N("i", lv, "expnt", TL(lv), TRUE, <<"se", "se_apr2">>, <<"se_grad", "se_rvec">>, <<<<0, 1>>, <<-1, 1>>>>, <<>>, <<>>)}
FL1 == [present |-> TRUE, s2 |-> <<-1, 1>>, nk0 |-> 2, nk1 |-> 1, dots |-> <<<<-1, 0>>>>, lddots |-> <<>>, nd1 |-> 1, ndd |-> 1]
\* both dot groups, of different lengths and with different powers at equal positions (the groups have their own offsets)
FL2 == [present |-> TRUE, s2 |-> <<-1, 1>>, nk0 |-> 2, nk1 |-> 2, dots |-> <<<<0, 0>>>>, lddots |-> <<<<1, 1>>, <<-1, 0>>>>, nd1 |-> 2, ndd |-> 1]
FL3 == [present |-> TRUE, s2 |-> <<0, 1, 2>>, nk0 |-> 1, nk1 |-> 2, dots |-> <<<<1, 0>>, <<-1, 1>>>>, lddots |-> <<<<0, 0>>>>, nd1 |-> 1, ndd |-> 0]
SLNormCfgs == UNION {{[sl |-> m, nldf |-> n, sdmx |-> NoSDMX, fl |-> f] : n \in NormN(LevelOf(m)) \cup {NZ(x) : x \in NormN(LevelOf(m))}, f \in {NoFL, FL1, FL2}} : m \in {"nst", "npa", "ns", "np"}}
              \cup {[sl |-> m, nldf |-> NoNLDF, sdmx |-> NoSDMX, fl |-> f] : m \in {"nst", "npa", "ns", "np"}, f \in {FL1, FL2, FL3}}
Pows == SeqsUpTo({0, 1, 2}, 3)
SDMXCfgs ==
  {[sl |-> "npa", nldf |-> n, sdmx |-> [kind |-> k, pows |-> p, nd |-> nd, n1 |-> n1, full |-> <<>>], fl |-> NoFL] :
      n \in {NoNLDF, DefN}, k \in {"SDMX", "G", "1", "G1"}, p \in Pows \ {<<>>}, nd \in 0..3, n1 \in 0..3}
\* ---- SDMXFullSettings: one or two ratios (sorted), pows lists that DIFFER between ratios, count patterns incl. an
\* over-long one (invalid), an untabulated power (3) and an untabulated ratio (3.0)
FullPowsSet == {<<0, 1>>, <<2, 1>>, <<0, 1, 2>>, <<3, 0>>}
FullCnts == {<<1, 0, 2, 0>>, <<2, 0, 0, 0>>, <<2, 1, 1, 1>>, <<0, 0, 2, 1>>, <<3, 0, 0, 0>>}
FullEntry(r, p, c) == [ratio10 |-> r, pows |-> p, cnt |-> c]
SDMXFullCfgs ==
  {[sl |-> "npa", nldf |-> NoNLDF, sdmx |-> [kind |-> "Full", pows |-> <<>>, nd |-> 0, n1 |-> 0, full |-> <<FullEntry(r, p, c)>>], fl |-> NoFL] :
      r \in {10, 15, 20, 30}, p \in FullPowsSet, c \in FullCnts}
  \cup
  {[sl |-> "npa", nldf |-> NoNLDF, sdmx |-> [kind |-> "Full", pows |-> <<>>, nd |-> 0, n1 |-> 0,
                                            full |-> <<FullEntry(r[1], p1, c1), FullEntry(r[2], p2, c2)>>], fl |-> NoFL] :
      r \in {<<10, 15>>, <<10, 20>>, <<15, 20>>}, p1 \in FullPowsSet, p2 \in FullPowsSet, c1 \in FullCnts, c2 \in FullCnts}
FLCfgs ==
  {[sl |-> "npa", nldf |-> NoNLDF, sdmx |-> NoSDMX,
    fl |-> [present |-> TRUE, s2 |-> s2, nk0 |-> a, nk1 |-> b, dots |-> d, lddots |-> ld, nd1 |-> c, ndd |-> e]] :
      s2 \in {<<-1>>, <<-1, 1>>, <<0, 1, 2>>}, a \in 0..3, b \in 0..2, d \in SeqsUpTo(DotPairs, 1), ld \in {<<>>, <<<<0, 0>>>>, <<<<-1, 1>>>>}, c \in 0..2, e \in 0..2}
QuickCfgs == <<VICfgs(1, 2, 2), VJKCfgs(2), VIJCfgs, BadCfgs, SLCfgs, SLNormCfgs, SDMXCfgs, SDMXFullCfgs, FLCfgs>>
FullCfgs == <<VICfgs(2, 2, 2), VJKCfgs(2), VIJCfgs, BadCfgs, SLCfgs, SLNormCfgs, SDMXCfgs, SDMXFullCfgs, FLCfgs>>
ASSUME DeclaredMatchesDerived
====
