SPECIFICATION Spec
CONSTANTS
  d1 = d1
  d2 = d2
  m1 = m1
  m2 = m2
  g1 = g1
  g2 = g2
  DM <- MCDM
  Mol <- MCMol
  Grid <- MCGrid
  MaxSet = 3
  MaxBlk = 3
  MaxCalls = 3
  HasNLDF = TRUE
  HasSDMX = TRUE
  BugF1 = FALSE
  BugF2 = FALSE
PROPERTY CacheDiscipline
INVARIANT GeneratorFresh
INVARIANT SDMXFresh
INVARIANT Provenance
INVARIANT NoLeak
INVARIANT CallerArraysClean
