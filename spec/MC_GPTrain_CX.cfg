SPECIFICATION Spec
CONSTANTS
  Systems <- MCSystems
  Comp <- MCCompCX
  Rxns <- MCRxns
  MaxOps = 3
VIEW View
PROPERTY AlignedUnlessFailed
PROPERTY FitUsesCurrent
PROPERTY ResetClears
INVARIANT RowsBelong
INVARIANT DerivImpliesPlain
