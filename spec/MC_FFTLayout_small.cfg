SPECIFICATION Spec
CONSTANTS
  Configs <- SmallConfigs
  MaxCalls <- Two
INVARIANT InBounds
INVARIANT NoAliasing
INVARIANT Agreement
INVARIANT InPlaceViews
INVARIANT Correct
INVARIANT ShapesCover
