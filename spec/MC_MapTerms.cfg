SPECIFICATION Spec
CONSTANTS
  MaxNA = 5
  MaxNS = 2
  MaxOrder = 3
INVARIANT SameLength
INVARIANT ScaleMatchesOrder
INVARIANT ConstantOnce
INVARIANT NoDuplicateTerms
INVARIANT Emit
