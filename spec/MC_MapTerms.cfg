SPECIFICATION Spec
CONSTANTS
  MaxNA = 5
  MaxNS = 2
  MaxOrder = 3
  Layouts = {"front", "back", "gap"}
INVARIANT SameLength
INVARIANT ScaleMatchesOrder
INVARIANT ConstantOnce
INVARIANT NoDuplicateTerms
INVARIANT GlobalTermsWellFormed
INVARIANT AxisKinds
INVARIANT Emit
