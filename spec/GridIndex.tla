------------------------------ MODULE GridIndex ------------------------------
(* CIDER integration grids: the atom-ordered grid tables (gen_atomic_grids_cider +
   AtomicGridsIndexer.from_tabs) and the map from the sorted / padded / pruned grid PySCF
   integrates on back to the atom-ordered grid (set_weights, set_idx, set_padding,
   prune_by_density_).  Points of the atom-ordered grid are the integers 0..N-1; the sorted
   grid is a sequence of such points (or Pad for padding points).

   Input of the machine: the atoms' elements, and per element the angular size of every radial
   shell in RADIAL order as the pruning scheme returns them (not monotone in general).  The code
   stores shells GROUPED by increasing angular size, one block of tabulated harmonics per
   distinct size; every table below is transcribed from that construction. *)
EXTENDS Integers, Sequences, FiniteSets, TLC

CONSTANTS Elements,     \* element names
          ShellChoices, \* set of sequences of angular sizes an element may have
          MaxAtoms, Aligns, MaxPermPoints

VARIABLES phase, atoms, shells, tabs, idx, iatom, padding, wts, galign
vars == <<phase, atoms, shells, tabs, idx, iatom, padding, wts, galign>>
Pad == -1
None == <<>>

\* ------------------------------------------------------------------ sequence helpers
RECURSIVE SumSeq(_)
SumSeq(s) == IF s = <<>> THEN 0 ELSE Head(s) + SumSeq(Tail(s))
RECURSIVE CumSum(_, _)
CumSum(s, acc) == IF s = <<>> THEN <<>> ELSE <<acc + Head(s)>> \o CumSum(Tail(s), acc + Head(s))
RECURSIVE Flatten(_)
Flatten(ss) == IF ss = <<>> THEN <<>> ELSE Head(ss) \o Flatten(Tail(ss))
Range(s) == {s[k] : k \in 1..Len(s)}
RECURSIVE SortedSeqOf(_)
SortedSeqOf(S) == IF S = {} THEN <<>>
                  ELSE LET m == CHOOSE x \in S : \A y \in S : x <= y IN <<m>> \o SortedSeqOf(S \ {m})
SelectIdx(s, v) == LET F[k \in 0..Len(s)] == IF k = 0 THEN <<>>
                                              ELSE IF s[k] = v THEN Append(F[k - 1], k) ELSE F[k - 1]
                   IN F[Len(s)]

\* ------------------------------------------------------------------ per-element tables (gen_atomic_grids_cider)
Sizes(angs) == SortedSeqOf(Range(angs))                       \* `for n in sorted(set(angs))`
ShellOrder(angs) == Flatten([g \in 1..Len(Sizes(angs)) |-> SelectIdx(angs, Sizes(angs)[g])])
StoredAngs(angs) == [k \in 1..Len(angs) |-> angs[ShellOrder(angs)[k]]]
ElemRadLoc(angs) == <<0>> \o CumSum(StoredAngs(angs), 0)
\* first harmonic row of the block of angular size n: the blocks of the smaller sizes precede it
BlockStart(angs, n) == SumSeq(SelectSeq(Sizes(angs), LAMBDA m : m < n))
ElemYlmLoc(angs) == [k \in 1..Len(angs) |-> BlockStart(angs, StoredAngs(angs)[k])]
ElemYlmRows(angs) == SumSeq(Sizes(angs))

\* ------------------------------------------------------------------ molecule tables (from_tabs)
Tables(at, sh) ==
  LET nat == Len(at)
      nradOf(a) == Len(sh[at[a]])
      nptOf(a) == SumSeq(sh[at[a]])
      radStart[a \in 1..(nat + 1)] == IF a = 1 THEN 0 ELSE radStart[a - 1] + nradOf(a - 1)
      ptStart[a \in 1..(nat + 1)] == IF a = 1 THEN 0 ELSE ptStart[a - 1] + nptOf(a - 1)
      rowStart[a \in 1..(nat + 1)] == IF a = 1 THEN 0 ELSE rowStart[a - 1] + ElemYlmRows(sh[at[a - 1]])
  IN [rad_loc |-> <<0>> \o Flatten([a \in 1..nat |-> [k \in 1..nradOf(a) |-> ElemRadLoc(sh[at[a]])[k + 1] + ptStart[a]]]),
      ylm_loc |-> Flatten([a \in 1..nat |-> [k \in 1..nradOf(a) |-> ElemYlmLoc(sh[at[a]])[k] + rowStart[a]]]),
      ra_loc  |-> [a \in 1..(nat + 1) |-> radStart[a]],
      ar_loc  |-> Flatten([a \in 1..nat |-> [k \in 1..nradOf(a) |-> a - 1]]),
      ylm_rows |-> rowStart[nat + 1],
      npts |-> ptStart[nat + 1]]
\* 0-based lookups into the 1-based sequences
At0(s, k) == s[k + 1]
GaLoc(t) == [a \in 1..Len(t.ra_loc) |-> At0(t.rad_loc, t.ra_loc[a])]   \* ga_loc = rad_loc[ra_loc]
NRad(t) == Len(t.rad_loc) - 1
NAtm(t) == Len(t.ra_loc) - 1
Owner(t, p) == CHOOSE a \in 0..(NAtm(t) - 1) : At0(GaLoc(t), a) <= p /\ p < At0(GaLoc(t), a + 1)
ShellOf(t, p) == CHOOSE r \in 0..(NRad(t) - 1) : At0(t.rad_loc, r) <= p /\ p < At0(t.rad_loc, r + 1)
ShellSize(t, r) == At0(t.rad_loc, r + 1) - At0(t.rad_loc, r)

\* ------------------------------------------------------------------ well-formedness of the tables
RadLocMonotone(t) == /\ t.rad_loc[1] = 0 /\ t.rad_loc[Len(t.rad_loc)] = t.npts
                     /\ \A k \in 1..(Len(t.rad_loc) - 1) : t.rad_loc[k] < t.rad_loc[k + 1]
RaLocMonotone(t) == /\ t.ra_loc[1] = 0 /\ t.ra_loc[Len(t.ra_loc)] = NRad(t)
                    /\ \A k \in 1..(Len(t.ra_loc) - 1) : t.ra_loc[k] < t.ra_loc[k + 1]
ArRaInverse(t) == /\ Len(t.ar_loc) = NRad(t)
                  /\ \A r \in 0..(NRad(t) - 1) :
                        LET a == At0(t.ar_loc, r) IN At0(t.ra_loc, a) <= r /\ r < At0(t.ra_loc, a + 1)
\* the harmonics block a shell points to lies inside the table and is the block of the shell's
\* own angular size on its own atom: blocks of one atom are laid out by increasing size
YlmLocOwnBlock(t, at, sh) ==
  /\ Len(t.ylm_loc) = NRad(t)
  /\ \A r \in 0..(NRad(t) - 1) :
        LET a == At0(t.ar_loc, r)
            n == ShellSize(t, r)
            angs == sh[at[a + 1]]
            rowStart == SumSeq([b \in 1..a |-> ElemYlmRows(sh[at[b]])])
        IN /\ n \in Range(angs)
           /\ At0(t.ylm_loc, r) = rowStart + BlockStart(angs, n)
           /\ At0(t.ylm_loc, r) + n <= t.ylm_rows
\* the stored shells of an atom are a permutation of the radial shells the pruning returned
ShellsPermuted(at, sh) == \A e \in Range(at) :
     /\ Range(ShellOrder(sh[e])) = 1..Len(sh[e]) /\ Len(ShellOrder(sh[e])) = Len(sh[e])
TablesOK(t, at, sh) == RadLocMonotone(t) /\ RaLocMonotone(t) /\ ArRaInverse(t)
                       /\ YlmLocOwnBlock(t, at, sh) /\ ShellsPermuted(at, sh)

\* ------------------------------------------------------------------ the sorted-grid map
IdxInjective(ix, n) == /\ \A k \in 1..Len(ix) : ix[k] >= 0 /\ ix[k] < n
                       /\ Cardinality(Range(ix)) = Len(ix)
OwnersAgree(t, ix, ia) == Len(ia) = Len(ix) /\ \A k \in 1..Len(ix) : ia[k] = Owner(t, ix[k])
\* the weights array of the sorted grid: real points carry the weight of the atom-ordered point
\* they map to, padding points carry zero (Pad)
WeightsAgree(ix, pad, w) == /\ Len(w) = Len(ix) + pad
                            /\ \A k \in 1..Len(ix) : w[k] = ix[k]
                            /\ \A k \in (Len(ix) + 1)..Len(w) : w[k] = Pad
PaddingSize(n, al) == IF al > 1 THEN (al - (n % al)) % al ELSE 0

\* ------------------------------------------------------------------ actions
Init == /\ phase = "none" /\ atoms = None /\ shells = None /\ tabs = None
        /\ idx = None /\ iatom = None /\ padding = 0 /\ wts = None /\ galign = 1

\* gen_atomic_grids(build_indexer=True) + get_partition + set_weights
FromTabs(at, sh, al) ==
  /\ phase = "none" /\ galign' = al   \* Grids.alignment is an attribute of the grids object
  /\ atoms' = at /\ shells' = sh /\ tabs' = Tables(at, sh)
  /\ wts' = [k \in 1..Tables(at, sh).npts |-> k - 1]
  /\ idx' = None /\ iatom' = None /\ padding' = 0 /\ phase' = "weights"

Perms(n) == IF n <= MaxPermPoints
            THEN {p \in [1..n -> 0..(n - 1)] : \A j, k \in 1..n : p[j] = p[k] => j = k}
            ELSE {[k \in 1..n |-> k - 1], [k \in 1..n |-> n - k], [k \in 1..n |-> (k + 1) % n],
                  [k \in 1..n |-> IF k % 2 = 1 THEN (k - 1) \div 2 ELSE n - (k \div 2)]}
\* build(): arg_group_grids -> set_idx ; sort_grids=False -> identity
SetIdx(p) ==
  /\ phase = "weights"
  /\ idx' = p /\ iatom' = [k \in 1..Len(p) |-> Owner(tabs, p[k])]
  /\ wts' = [k \in 1..Len(p) |-> p[k]]
  /\ phase' = "sorted" /\ UNCHANGED <<atoms, shells, tabs, padding, galign>>

DoPad ==
  /\ phase = "sorted"
  /\ LET pd == PaddingSize(Len(wts), galign) IN
       /\ wts' = wts \o [k \in 1..pd |-> Pad]
       /\ padding' = pd
  /\ phase' = "built" /\ UNCHANGED <<atoms, shells, tabs, idx, iatom, galign>>

\* prune_by_density_: keep is a boolean mask over the CURRENT sorted grid (padding points have
\* rho*w = 0 and are always dropped); idx_map' = old_idx[mask[:old size]]; padding recomputed
Masks(n) == IF n <= MaxPermPoints THEN [1..n -> BOOLEAN]
            ELSE {[k \in 1..n |-> TRUE], [k \in 1..n |-> k % 2 = 0], [k \in 1..n |-> k > 2], [k \in 1..n |-> k % 3 # 0]}
Prune(keep) ==
  /\ phase \in {"built", "pruned"}
  /\ LET kept == SelectIdx([k \in 1..Len(idx) |-> keep[k]], TRUE)
         nidx == [k \in 1..Len(kept) |-> idx[kept[k]]]
         pd == PaddingSize(Len(nidx), galign)
     IN /\ idx' = nidx
        /\ iatom' = [k \in 1..Len(nidx) |-> Owner(tabs, nidx[k])]
        /\ wts' = [k \in 1..Len(nidx) |-> nidx[k]] \o [k \in 1..pd |-> Pad]
        /\ padding' = IF galign > 1 THEN pd ELSE padding
  /\ phase' = "pruned" /\ UNCHANGED <<atoms, shells, tabs, galign>>

DoFromTabs == \E n \in 1..MaxAtoms : \E at \in [1..n -> Elements] :
                \E sh \in [Elements -> ShellChoices] : \E al \in Aligns : FromTabs(at, sh, al)
DoSetIdx == phase = "weights" /\ \E p \in Perms(tabs.npts) : SetIdx(p)
DoPrune == phase \in {"built", "pruned"} /\ \E m \in Masks(Len(idx)) : Prune(m)
Next == DoFromTabs \/ DoSetIdx \/ DoPad \/ DoPrune
Spec == Init /\ [][Next]_vars

\* ------------------------------------------------------------------ invariants
TablesWellFormed == phase # "none" => TablesOK(tabs, atoms, shells)
GaLocIsRadLocOfRaLoc == phase # "none" =>
    /\ At0(GaLoc(tabs), NAtm(tabs)) = tabs.npts
    /\ \A a \in 0..(NAtm(tabs) - 1) : At0(GaLoc(tabs), a) < At0(GaLoc(tabs), a + 1)
IdxMapInjective == phase \in {"sorted", "built", "pruned"} => IdxInjective(idx, tabs.npts)
OwnerAgrees == phase \in {"sorted", "built", "pruned"} => OwnersAgree(tabs, idx, iatom)
PaddingZeroWeight == phase \in {"built", "pruned"} => WeightsAgree(idx, padding, wts)
SizesAgree == phase \in {"built", "pruned"} => Len(idx) + padding = Len(wts)
=============================================================================
