SPECIFICATION Spec
CONSTANTS
  Args <- MCArgs
  Contents <- MCContents
  InitContent <- MCInit
  MaxCalls = 4
  MaxHeld = 3
  MaxLen = 7
  MemoBug = TRUE
  SharedOutBug = FALSE
  InPlaceBug = FALSE
  LazyCtorBug = FALSE
VIEW View
INVARIANT ResultFromCurrentContent
INVARIANT ResultsStable
INVARIANT BuiltFromCtorValue
PROPERTY ArgsUntouched
