---- MODULE MC_FFTLayout ----
EXTENDS FFTLayout
Bool == {TRUE, FALSE}
Tuples(maxrank, maxdim) == UNION {[1..n -> 1..maxdim] : n \in 1..maxrank}
Cfgs(dimset, nts) == {[dims |-> d, r2c |-> a, fwd |-> b, inplace |-> i, bf |-> f, nt |-> n] :
                         d \in dimset, a \in Bool, b \in Bool, i \in Bool, f \in Bool, n \in nts}
\* quick: ranks 1..3 with each dim in 1..4, nt in {1,2,3}
SmallConfigs == Cfgs(Tuples(3, 4), 1..3)
\* thorough: dims 1..5 (odd and even last dimension at every rank), plus 4-D {2,3}^4, nt up to 3
FullConfigs == Cfgs(Tuples(3, 5), 1..3) \cup Cfgs([1..4 -> {2, 3}], {1, 2})
Two == 2
TinyConfigs == Cfgs(Tuples(2, 2), {1, 2})
====
