---- MODULE MCR_KSSession ----
(* Replay instance: follows the behaviours the harness selected (Target, generated module Live_KSSessionTarget) and
   prints, for each, the projection of the specification's state after every step -- the values the real objects are
   compared with (harness/session.py). *)
EXTENDS MCH_KSSession, Live_KSSessionTarget
\* per-step expected projection, printed with the history (so the harness needs no second transition function)
Proj == [decorated |-> ks.decorated, spin |-> ks.spin, df |-> ks.df, fam |-> ks.fam, mol |-> ks.mol,
         gcls |-> grids.cls, goid |-> grids.oid, level |-> grids.level, scheme |-> grids.scheme, gmol |-> grids.mol,
         built |-> grids.content # 0, hasidx |-> grids.indexer # 0,
         ni |-> IF ni = None THEN None ELSE [oid |-> ni.oid, cls |-> ni.cls, timer |-> ni.timer,
                                              gen |-> IF ni.gen = None THEN 0 ELSE ni.gen.serial,
                                              sdmx |-> IF ni.sdmx = None THEN 0 ELSE ni.sdmx.serial],
         err |-> err, grad |-> GradClass]
VARIABLE projs
PInit == HInit /\ projs = <<>>
PNext == HNext /\ projs' = Append(projs, Proj')
PSpec == PInit /\ [][PNext]_<<vars, hist, projs>>
\* ---- Replay: follow given histories (Target is defined in the generated module Live_KSSessionTarget)
VARIABLE k
RInit == PInit /\ k \in 1..Len(Target)
RNext == /\ Len(hist) < Len(Target[k]) /\ PNext /\ hist' = SubSeq(Target[k], 1, Len(hist) + 1) /\ UNCHANGED k
RSpec == RInit /\ [][RNext]_<<vars, hist, projs, k>>
EmitProj == Len(hist) = Len(Target[k]) => PrintT(<<"SESSION_PROJ", k, projs>>)
====
