------------------------------ MODULE CiderPress ------------------------------
(* Root module: one SCF SESSION with a CIDER functional in PySCF
   (ciderpress/pyscf/dft.py: make_cider_calc / _CiderKS, numint.py: the integrator classes).

     MakeCalc(cfg)   make_cider_calc: picks the integrator class and the grid class from the
                     model's settings, sets the semilocal stand-in functional (ks.xc) and the
                     mixed semilocal part (xmix / xkernel / ckernel)
     Build           _CiderKS.build -> integrator.build
     Call(nspin, nset)   nr_rks / nr_uks: the feature vector handed to the model is assembled from
                     the families in the fixed order  semilocal | NLDF | NLOF | SDMX
     Reset           _CiderKS.reset

   The configuration lattice of this module is what the end-to-end checks (C01 derivative of the
   energy, C07 spin consistency, C08 extreme densities) enumerate; the integrator's cache protocol
   is specified in NumIntCache.tla, the feature counts in FeatureAlgebra.tla (the counts used here
   are the same formulas). *)
EXTENDS Integers, Sequences, FiniteSets, TLC
CONSTANTS SLModes, NLDFVers, SDMXKinds, Plans, Interps, Evals, Modes, Mixes, MaxCalls
VARIABLES cfg, calc, ncalls, lastX
vars == <<cfg, calc, ncalls, lastX>>
None == <<>>
SLLevel(m) == IF m \in {"nst", "npa"} THEN "MGGA" ELSE "GGA"
SLN(m) == IF SLLevel(m) = "MGGA" THEN 3 ELSE 2
\* the synthetic models of the harness (harness/models.py): 2 version-j features, 4+2 version-i, ...
NLDFN(v) == CASE v = "none" -> 0 [] v = "j" -> 2 [] v = "i" -> 6 [] v = "ij" -> 6 [] v = "k" -> 2
SDMXN(k) == CASE k = "none" -> 0 [] k = "SDMX" -> 2 [] k = "G" -> 3 [] k = "1" -> 3 [] k = "G1" -> 4 [] k = "Full" -> 7
Cfgs == {[sl |-> s, nldf |-> n, sdmx |-> d, plan |-> p, interp |-> i, eval |-> e, mode |-> m, mix |-> x] :
            s \in SLModes, n \in NLDFVers, d \in SDMXKinds, p \in Plans, i \in Interps, e \in Evals, m \in Modes, x \in Mixes}
\* what the code supports
Supported(c) ==
  /\ (c.nldf = "none" => c.plan = "gaussian" /\ c.interp = "onsite_direct")    \* no NLDF: plan/interpolator are moot
  /\ (c.mode = "POL" <=> c.eval = "spinrbf")                                   \* only the spin kernel takes the (2,N,N1) layout
  /\ (c.mix = "libxc2" => c.mode # "POL")
  \* eval_xc_cider builds the density tuple for libxc-backed models (MappedXC2) with is_mgga=True:
  \* they need the meta-GGA density vector (a GGA-level one is refused with IndexError)
  /\ (c.mix = "libxc2" => SLLevel(c.sl) = "MGGA")
  \* a meta-GGA semilocal remainder needs the meta-GGA density vector ("only GGA-level XC functionals can be used with
  \* GGA-level CIDER functionals", make_cider_calc)
  /\ (c.mix = "mgga_mix" => SLLevel(c.sl) = "MGGA")
IntegratorClass(c) == IF c.nldf # "none" THEN "NLDFNumInt" ELSE "CiderNumInt"
GridsClass(c) == IF c.nldf # "none" THEN "CiderGrids" ELSE "Grids"
StandIn(c) == IF SLLevel(c.sl) = "MGGA" THEN "R2SCAN" ELSE "PBE"
NFeat(c) == SLN(c.sl) + NLDFN(c.nldf) + SDMXN(c.sdmx)
\* order in which eval_xc_cider fills X0T
FeatureOrder(c) == [k \in 1..NFeat(c) |->
     IF k <= SLN(c.sl) THEN "sl" ELSE IF k <= SLN(c.sl) + NLDFN(c.nldf) THEN "nldf" ELSE "sdmx"]

Init == cfg = None /\ calc = None /\ ncalls = 0 /\ lastX = None
MakeCalc(c) == /\ cfg = None /\ Supported(c) /\ cfg' = c
               /\ calc' = [integrator |-> IntegratorClass(c), grids |-> GridsClass(c), xc |-> StandIn(c), built |-> FALSE]
               /\ UNCHANGED <<ncalls, lastX>>
Build == cfg # None /\ ~calc.built /\ calc' = [calc EXCEPT !.built = TRUE] /\ UNCHANGED <<cfg, ncalls, lastX>>
Call(nspin, nset) == /\ cfg # None /\ calc.built /\ ncalls < MaxCalls
                     /\ lastX' = [nspin |-> nspin, nset |-> nset, order |-> FeatureOrder(cfg)]
                     /\ ncalls' = ncalls + 1 /\ UNCHANGED <<cfg, calc>>
Reset == cfg # None /\ calc.built /\ calc' = [calc EXCEPT !.built = FALSE] /\ UNCHANGED <<cfg, ncalls, lastX>>
Next == (\E c \in Cfgs : MakeCalc(c)) \/ Build \/ (\E ns \in 1..2, n \in 1..2 : Call(ns, n)) \/ Reset
Spec == Init /\ [][Next]_vars
\* ---- invariants
GridsMatchIntegrator == cfg # None => (calc.integrator = "NLDFNumInt" <=> calc.grids = "CiderGrids")
CallOnlyWhenBuilt == [][\A ns \in 1..2, n \in 1..2 : Call(ns, n) => calc.built]_vars
FeatureVectorComplete == lastX # None => /\ Len(lastX.order) = NFeat(cfg)
                                         /\ \A j, k \in 1..Len(lastX.order) :
                                               (j < k /\ lastX.order[j] = "sdmx") => lastX.order[k] = "sdmx"
Emit == (cfg # None /\ ~calc.built /\ ncalls = 0) => PrintT(<<"SESSION", cfg, calc, NFeat(cfg)>>)
=============================================================================
