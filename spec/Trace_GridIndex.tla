---- MODULE Trace_GridIndex ----
(* Trace validation for GridIndex.  A record is one real CiderGrids object observed after
   build() and after each prune_by_density_(): the integer tables of its AtomicGridsIndexer,
   the idx_map / iatom_list / padding, and `wts`, the result of the float-side comparison made
   by the harness (entry k is idx_map[k] if the k-th coordinate and weight of the sorted grid are
   bit-identical to those of the atom-ordered grid at idx_map[k], -1 for a padding point of zero
   weight, -2 otherwise).  The design-level invariants are evaluated on the OBSERVED tables; a
   DRIFT line reports tables that differ from the ones GridIndex.tla derives from the per-shell
   angular sizes (layout change, not a violation by itself). *)
EXTENDS GridIndex, Json, IOUtils, TLCExt
Recs == JsonDeserialize(IOEnv.TRACE_FILE)
VARIABLES i, j, obs      \* grid object, stage within it, verdicts of this stage
tvars == <<vars, i, j, obs>>
NoSet == {}
Stage == Recs[i].stages[j]
OK == [num |-> TRUE, prune |-> TRUE]
RECURSIVE Match(_, _, _, _)
Match(a, b, ka, kb) == IF ka > Len(a) THEN TRUE
                       ELSE IF kb > Len(b) THEN FALSE
                       ELSE IF a[ka] = b[kb] THEN Match(a, b, ka + 1, kb + 1) ELSE Match(a, b, ka, kb + 1)
IsSubSeq(a, b) == Match(a, b, 1, 1)    \* a is an order-preserving sub-sequence of b
ShFun(rc) == [e \in DOMAIN rc.shells |-> rc.shells[e]]
Load(rc, st) ==
  /\ atoms' = rc.atoms /\ shells' = rc.shells /\ galign' = rc.align
  /\ tabs' = [rad_loc |-> st.rad_loc, ylm_loc |-> st.ylm_loc, ra_loc |-> st.ra_loc, ar_loc |-> st.ar_loc,
              ylm_rows |-> st.ylm_rows, npts |-> st.npts]
  /\ idx' = st.idx /\ iatom' = st.iatom /\ padding' = st.padding /\ wts' = st.wts
  /\ phase' = st.phase
TInit == Init /\ i = 1 /\ j = 0 /\ obs = OK
TLoad ==
  /\ i <= Len(Recs) /\ j < Len(Recs[i].stages)
  /\ j' = j + 1 /\ i' = i
  /\ Load(Recs[i], Recs[i].stages[j + 1])
  /\ LET st == Recs[i].stages[j + 1] IN
       /\ obs' = [num |-> st.num_ok,
                  \* pruning keeps the map: same tables, the new map is an order-preserving sub-sequence
                  prune |-> (j >= 1 => /\ tabs' = tabs
                                       /\ IsSubSeq(st.idx, idx))]
       /\ IF j = 0 /\ [rad_loc |-> st.rad_loc, ylm_loc |-> st.ylm_loc, ra_loc |-> st.ra_loc, ar_loc |-> st.ar_loc,
                       ylm_rows |-> st.ylm_rows, npts |-> st.npts] # Tables(Recs[i].atoms, Recs[i].shells)
          THEN PrintT(<<"DRIFT", Recs[i].id>>) ELSE TRUE
TNextRec == /\ i <= Len(Recs) /\ j = Len(Recs[i].stages) /\ i' = i + 1 /\ j' = 0
            /\ phase' = "none" /\ obs' = OK
            /\ UNCHANGED <<atoms, shells, tabs, idx, iatom, padding, wts, galign>>
TNext == TLoad \/ TNextRec
TSpec == TInit /\ [][TNext]_tvars

\* invariants on the observed tables (weaker than equality with the transcription)
ObsRadLoc == phase # "none" => RadLocMonotone(tabs)
ObsRaLoc == phase # "none" => RaLocMonotone(tabs)
ObsArRa == phase # "none" => ArRaInverse(tabs)
ObsYlmLocInside == phase # "none" =>
    /\ Len(tabs.ylm_loc) = NRad(tabs)
    /\ \A r \in 0..(NRad(tabs) - 1) : At0(tabs.ylm_loc, r) >= 0 /\ At0(tabs.ylm_loc, r) + ShellSize(tabs, r) <= tabs.ylm_rows
ObsGaLoc == phase # "none" => (Recs[i].stages[j].ga_loc = GaLoc(tabs) /\ At0(GaLoc(tabs), NAtm(tabs)) = tabs.npts)
NumericOK == obs.num              \* same points/weights as pyscf.dft.Grids; harmonics orthonormal per shell
PruneKeepsMap == obs.prune
Accepted == TLCGet("stats").diameter = 1 + Len(Recs) + SumSeq([k \in 1..Len(Recs) |-> Len(Recs[k].stages)])
====
