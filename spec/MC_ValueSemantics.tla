---- MODULE MC_ValueSemantics ----
EXTENDS ValueSemantics
MCArgs == {"a1", "a2"}
MCContents == {"c1", "c2", "c3"}
MCInit == ("a1" :> "c1") @@ ("a2" :> "c2")
====
