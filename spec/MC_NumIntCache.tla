---- MODULE MC_NumIntCache ----
EXTENDS NumIntCache
CONSTANTS d1, d2, m1, m2, g1, g2
MCDM == {d1, d2}
MCMol == {m1, m2}
MCGrid == {g1, g2}
\* ---- block partition arithmetic of CiderNumInt.block_loop / extra_block_loop, with BLKSIZE
\* abstracted to B and the cap 1200 to Cap:  blksize = max(4, min(memblk, ngrids // B + 1, Cap)) * B
\* blocks = prange(0, ngrids, blksize)
Min2(a, b) == IF a < b THEN a ELSE b
Max2(a, b) == IF a > b THEN a ELSE b
BlkSize(memblk, ngrids, B, Cap) == Max2(4, Min2(Min2(memblk, ngrids \div B + 1), Cap)) * B
PRange(n, step) == [k \in 1..((n + step - 1) \div step) |-> <<(k - 1) * step, Min2(k * step, n)>>]
Tiles(seq, n) == /\ (n = 0 => Len(seq) = 0)
                 /\ (n > 0 => seq[1][1] = 0 /\ seq[Len(seq)][2] = n)
                 /\ \A k \in 1..Len(seq) : seq[k][1] < seq[k][2]
                 /\ \A k \in 1..(Len(seq) - 1) : seq[k][2] = seq[k + 1][1]
ASSUME PartitionTiles ==
  \A B \in {2, 3}, Cap \in {4, 6}, memblk \in 0..9, ngrids \in 0..60 :
     LET bs == BlkSize(memblk, ngrids, B, Cap)
     IN bs % B = 0 /\ bs >= 4 * B /\ Tiles(PRange(ngrids, bs), ngrids)
====
