------------------------------ MODULE FeatureChain ------------------------------
(* C02 -- from a documented feature name to the number that comes out of the fast algorithm.

   docs/features/nldf.rst defines every NLDF feature by NAME (se, se_ar2, ..., se_grad).  The code
   reaches the C kernels through a chain of integer tables:

      version j/k :  spec name --VJ_ID_MAP--> featid --switch in cider_coefs.c--> FILL macro
      version i   :  spec name --VI_ID_MAP--> ifeat id --IFEAT_ID_TO_CONTRIB--> contribution id(s)
                     --if/else chain in generate_atc_integrals_vi--> Gaussian integral routine,
                     and contribution id --> angular-momentum shift (feat_orders) for the l=1 pairs

   A consistent renumbering error anywhere in that chain changes feature AND potential together, so
   no derivative test sees it.  The tables are CONSTANTS, instantiated at run time from the live
   Python dictionaries and from the C sources of the working tree (harness/c02.py parses the enum
   values, the switch and the if/else chain); the DOCUMENTED meaning of each name is transcribed
   below.  ChainJ/ChainI/Orders state that every name reaches the routine the documentation
   describes.

   The behavioural part is the evaluation pipeline of one case
        settings -> resolve ids -> coefficients -> convolve -> contract -> features
   over the configuration space of the property's quantifier (version x exponent level x rho_mult
   x plan x exponent ladder x interpolator x spin treatment).  `out` is the sequence of feature
   labels in the order the contraction step emits them; OutputOrder states the documented order
   (j/k features, then l=0 i-features, then the l=1 dot products).  Every initial state is one
   implementation test: harness/c02.py evaluates that case with the real generator and with an
   independent O(N^2) quadrature of the documented integral, and hands the observed discrepancy
   ladder to Trace_FeatureChain. *)
EXTENDS Integers, Sequences, FiniteSets, TLC
CONSTANTS VJ,         \* [spec name -> C featid]                         live: plans.VJ_ID_MAP
          VI,         \* [spec name -> i-feature id]                     live: plans.VI_ID_MAP
          Contrib,    \* [i-feature id -> sequence of contribution ids]  live: IFEAT_ID_TO_CONTRIB
          CEnum,      \* [featid -> C enum macro suffix]                 live: #define CIDER_FEAT_*
          CSwitchGQ,  \* [enum macro suffix -> FILL macro used in the gq switch]   live: cider_coefs.c
          CSwitchQG,  \* same for the qg switch
          CIntegral,  \* [contribution id -> integral routine]           live: convolutions.c
          COrder,     \* [contribution id -> l shift]                    live: convolutions.c feat_orders
          AllowedJ, AllowedI0, AllowedI1,                                \* live: settings.ALLOWED_*
          Cases       \* set of case records to enumerate

(* ---- the documentation, transcribed (docs/features/nldf.rst, docs/theory/nldf_numerical.rst) ---- *)
DocJ == [se |-> "R0_GAUSSIAN", se_ar2 |-> "R2_GAUSSIAN", se_a2r4 |-> "R4_GAUSSIAN", se_erf_rinv |-> "ERF_GAUSSIAN"]
DocI == [se       |-> <<"gauss_i0">>,      se_r2   |-> <<"gauss_dida">>,
         se_apr2  |-> <<"gauss_adida">>,   se_ap   |-> <<"gauss_ai0">>,
         se_ap2r2 |-> <<"gauss_a2dida">>,  se_lapl |-> <<"gauss_lapli0">>,
         se_rvec  |-> <<"gauss_ainv_iminus", "gauss_iplus">>,
         se_grad  |-> <<"gauss_iminus", "gauss_alpha_iplus">>]
\* an l=1 feature is assembled from an (l-1) and an (l+1) radial contribution; scalars have shift 0
DocShift == [se |-> <<0>>, se_r2 |-> <<0>>, se_apr2 |-> <<0>>, se_ap |-> <<0>>, se_ap2r2 |-> <<0>>, se_lapl |-> <<0>>,
             se_rvec |-> <<-1, 1>>, se_grad |-> <<-1, 1>>]

ResolveJ(s) == CSwitchGQ[CEnum[VJ[s]]]
ResolveJqg(s) == CSwitchQG[CEnum[VJ[s]]]
ResolveI(s) == [k \in 1..Len(Contrib[VI[s]]) |-> CIntegral[Contrib[VI[s]][k]]]
ShiftI(s) == [k \in 1..Len(Contrib[VI[s]]) |-> COrder[Contrib[VI[s]][k]]]

ChainJ == \A s \in AllowedJ : s \in DOMAIN VJ /\ ResolveJ(s) = DocJ[s] /\ ResolveJqg(s) = DocJ[s]
ChainI == \A s \in AllowedI0 \cup AllowedI1 : s \in DOMAIN VI /\ ResolveI(s) = DocI[s]
Orders == \A s \in AllowedI0 \cup AllowedI1 : ShiftI(s) = DocShift[s]
Injective == /\ \A a, b \in DOMAIN VJ : VJ[a] = VJ[b] => a = b
             /\ \A a, b \in DOMAIN VI : VI[a] = VI[b] => a = b
             /\ \A a, b \in DOMAIN Contrib : a # b => \A k \in 1..Len(Contrib[a]), m \in 1..Len(Contrib[b]) : Contrib[a][k] # Contrib[b][m]
Documented == /\ AllowedJ = DOMAIN DocJ /\ AllowedI0 \cup AllowedI1 = DOMAIN DocI /\ AllowedI0 \cap AllowedI1 = {}
              /\ \A s \in AllowedI0 : Len(DocI[s]) = 1
              /\ \A t \in AllowedI1 : Len(DocI[t]) = 2

(* ---- one evaluation ---- *)
VARIABLES case, stage, jids, iids, out
vars == <<case, stage, jids, iids, out>>
Stages == <<"settings", "resolved", "coefficients", "convolved", "contracted">>
HasJ(c) == c.ver \in {"j", "ij", "k"}
HasI(c) == c.ver \in {"i", "ij"}
DotName(d) == <<"dot", d[1], d[2]>>
DocOrder(c) == (IF HasJ(c) THEN [k \in 1..Len(c.jspecs) |-> <<"j", c.jspecs[k]>>] ELSE <<>>)
               \o (IF HasI(c) THEN [k \in 1..Len(c.l0) |-> <<"i0", c.l0[k]>>] \o [k \in 1..Len(c.dots) |-> DotName(c.dots[k])] ELSE <<>>)
Init == /\ case \in Cases /\ stage = 1 /\ jids = <<>> /\ iids = <<>> /\ out = <<>>
Resolve == /\ stage = 1 /\ stage' = 2
           /\ jids' = IF HasJ(case) THEN [k \in 1..Len(case.jspecs) |-> VJ[case.jspecs[k]]] ELSE <<>>
           /\ iids' = IF HasI(case) THEN [k \in 1..Len(case.l0) |-> Contrib[VI[case.l0[k]]]] \o [k \in 1..Len(case.l1) |-> Contrib[VI[case.l1[k]]]]
                      ELSE <<>>
           /\ UNCHANGED <<case, out>>
Coefs == stage = 2 /\ stage' = 3 /\ UNCHANGED <<case, jids, iids, out>>
Convolve == stage = 3 /\ stage' = 4 /\ UNCHANGED <<case, jids, iids, out>>
Contract == /\ stage = 4 /\ stage' = 5
            /\ out' = (IF HasJ(case) THEN [k \in 1..Len(jids) |-> <<"j", case.jspecs[k]>>] ELSE <<>>)
                      \o (IF HasI(case) THEN [k \in 1..Len(case.l0) |-> <<"i0", case.l0[k]>>]
                                             \o [k \in 1..Len(case.dots) |-> DotName(case.dots[k])] ELSE <<>>)
            /\ UNCHANGED <<case, jids, iids>>
Next == Resolve \/ Coefs \/ Convolve \/ Contract
Spec == Init /\ [][Next]_vars

WellFormedCase == /\ HasJ(case) => \A k \in 1..Len(case.jspecs) : case.jspecs[k] \in AllowedJ
                  /\ HasI(case) => /\ \A k \in 1..Len(case.l0) : case.l0[k] \in AllowedI0
                                   /\ \A k \in 1..Len(case.l1) : case.l1[k] \in AllowedI1
                                   /\ \A k \in 1..Len(case.dots) : /\ case.dots[k][1] \in -1..(Len(case.l1) - 1)
                                                                   /\ case.dots[k][2] \in 0..(Len(case.l1) - 1)
ResolvedRight == stage >= 2 =>
    /\ HasJ(case) => \A k \in 1..Len(jids) : CSwitchGQ[CEnum[jids[k]]] = DocJ[case.jspecs[k]]
    /\ HasI(case) => /\ \A k \in 1..Len(case.l0) : [m \in 1..Len(iids[k]) |-> CIntegral[iids[k][m]]] = DocI[case.l0[k]]
                     /\ \A k \in 1..Len(case.l1) : [m \in 1..Len(iids[Len(case.l0) + k]) |-> CIntegral[iids[Len(case.l0) + k][m]]] = DocI[case.l1[k]]
OutputOrder == stage = 5 => out = DocOrder(case)
Emit == stage = 1 => PrintT(<<"CASE", case>>)
=============================================================================
