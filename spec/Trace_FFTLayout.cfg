SPECIFICATION TSpec
CONSTANTS
  Configs <- NoConfigs
  MaxCalls <- TwoCalls
INVARIANT InBounds
INVARIANT NoAliasing
INVARIANT Agreement
INVARIANT InPlaceViews
INVARIANT Correct
INVARIANT ShapesCover
INVARIANT NumericOK
INVARIANT ValueSemanticsOK
INVARIANT ShapesAdvertised
POSTCONDITION Accepted
CHECK_DEADLOCK FALSE
