SPECIFICATION Spec
CONSTANTS
  Elements <- MCElements
  ShellChoices <- MCShellsSmall
  MaxAtoms = 2
  Aligns <- MCAligns
  MaxPermPoints = 4
INVARIANT TablesWellFormed
INVARIANT GaLocIsRadLocOfRaLoc
INVARIANT IdxMapInjective
INVARIANT OwnerAgrees
INVARIANT PaddingZeroWeight
INVARIANT SizesAgree
