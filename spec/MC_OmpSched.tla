---- MODULE MC_OmpSched ----
EXTENDS Integers, TLC
\* the manual partition arithmetic for every problem size / team size the quick model covers
Ceil(a, b) == (a + b - 1) \div b
Min(a, b) == IF a < b THEN a ELSE b
Lo(n, t, tt) == Ceil(n, tt) * t
Hi(n, t, tt) == Min(Lo(n, t, tt) + Ceil(n, tt), n)
ASSUME PartitionArithmetic ==
  \A n \in 0..64, tt \in 1..16 :
     /\ \A i \in 0..(n - 1) : \E t \in 0..(tt - 1) : Lo(n, t, tt) <= i /\ i < Hi(n, t, tt)
     /\ \A t1, t2 \in 0..(tt - 1) : t1 < t2 => (Hi(n, t1, tt) <= Lo(n, t2, tt) \/ Hi(n, t1, tt) <= Lo(n, t1, tt))
     /\ \A t \in 0..(tt - 1) : Hi(n, t, tt) <= n
VARIABLE x
Init == x = 0
Next == UNCHANGED x
Spec == Init /\ [][Next]_x
====
