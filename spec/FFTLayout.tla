----------------------------- MODULE FFTLayout -----------------------------
(* The FFT plan wrapper (ciderpress/lib/fft_plan.py + lib/fft_wrapper/cider_fft.c) as a state
   machine over SYMBOLIC memory.  One action per C entry point that FFTWrapper.call uses:

     Alloc        allocate_fftnd_plan + malloc_fft_plan_{in,out}_array + initialize_fft_plan
     WriteInput   write_fft_input        (user array -> plan input buffer)
     Execute      execute_fft_plan       (FFTW reads/writes the plan buffers by ITS contract)
     ReadOutput   read_fft_output        (plan output buffer -> user array)

   Memory cells hold tags, not numbers: user input element k of call number g is <<g, k>>; the
   DFT coefficient (t, f) that FFTW produces is <<"X", g, t, f, good>>, where good says that
   the logical input FFTW saw for transform t was exactly the user's transform t.  The wrapper
   is right iff after ReadOutput the user's output array holds <<"X", g, t, f, TRUE>> at the
   advertised position of (t, f) -- for every plan and every call in a sequence of calls on the
   same plan (stale padding from earlier calls must not matter).

   All four index maps live in the variable `maps`, so that the trace specification
   (Trace_FFTLayout) can bind them to the maps OBSERVED on the implementation by integer-tag
   probing, and evaluate the very same invariants on them.  Offsets are in units of the
   buffer's own element type (double for the real side of an r2c plan, complex otherwise). *)
EXTENDS Integers, Sequences, FiniteSets, TLC

CONSTANTS Configs,      \* set of [dims, r2c, fwd, inplace, bf, nt]
          MaxCalls      \* number of successive calls on one plan

VARIABLES phase, cfg, plan, maps, inbuf, outbuf, userout, gen
vars == <<phase, cfg, plan, maps, inbuf, outbuf, userout, gen>>

Junk == <<>>

\* ------------------------------------------------------------------ integer helpers
RECURSIVE ProdRange(_, _, _)
ProdRange(s, a, b) == IF a > b THEN 1 ELSE s[a] * ProdRange(s, a + 1, b)
Prod(s) == ProdRange(s, 1, Len(s))
RECURSIVE FlatTo(_, _, _)
FlatTo(idx, emb, k) == IF k = 0 THEN 0 ELSE FlatTo(idx, emb, k - 1) * emb[k] + idx[k]
Flat(idx, emb) == FlatTo(idx, emb, Len(emb))           \* row-major position of idx in emb
Unflat(f, shape) == [k \in 1..Len(shape) |-> (f \div ProdRange(shape, k + 1, Len(shape))) % shape[k]]

Last(s) == s[Len(s)]
Half(dims) == [dims EXCEPT ![Len(dims)] = Last(dims) \div 2 + 1]
Padded(dims) == [dims EXCEPT ![Len(dims)] = 2 * (Last(dims) \div 2 + 1)]

\* ------------------------------------------------------------------ logical domains
KShape(c) == IF c.r2c THEN Half(c.dims) ELSE c.dims
InLogical(c) == IF c.fwd THEN c.dims ELSE KShape(c)      \* per-transform index domain FFTW reads
OutLogical(c) == IF c.fwd THEN KShape(c) ELSE c.dims
Pin(c) == Prod(InLogical(c))
Pout(c) == Prod(OutLogical(c))
InReal(c) == c.r2c /\ c.fwd          \* input buffer holds doubles
OutReal(c) == c.r2c /\ ~c.fwd        \* output buffer holds doubles

\* Position of logical element (t, f) in the user's C-ordered array of the ADVERTISED shape
\* (fft_plan.py: batch index first or last).
UserFlat(c, t, f, P) == IF c.bf THEN t * P + f ELSE f * c.nt + t

\* ------------------------------------------------------------------ the C code, transcribed
\* allocate_fftnd_plan (cider_fft.c): sizes, stride, dists
CodePlan(c) ==
  LET recip == Prod(Half(c.dims))
      real  == IF c.inplace THEN 2 * recip ELSE Prod(c.dims)
      isz   == IF c.r2c THEN (IF c.fwd THEN real ELSE recip) ELSE Prod(c.dims)
      osz   == IF c.r2c THEN (IF c.fwd THEN recip ELSE real) ELSE Prod(c.dims)
  IN [in_size |-> isz, out_size |-> osz,
      stride |-> IF c.bf THEN 1 ELSE c.nt,
      idist |-> IF c.bf THEN isz ELSE 1,
      odist |-> IF c.bf THEN osz ELSE 1,
      \* malloc_fft_plan_{in,out}_array, in elements of the buffer's own type
      in_alloc |-> c.nt * isz, out_alloc |-> c.nt * osz]

\* write_fft_input / read_fft_output: the padded-row copy for the in-place real side, a flat
\* copy otherwise.  -1 = "this user element is never copied".
PaddedCopy(c, k, size) ==
  LET ntl == IF c.bf THEN 1 ELSE c.nt
      dm1 == Last(c.dims)
      last_dim  == dm1 * ntl
      last_dim1 == 2 * (dm1 \div 2 + 1) * ntl
      blk == size \div last_dim1
      i == k \div last_dim
      j == k % last_dim
  IN IF i < blk THEN i * last_dim1 + j ELSE -1
CodeWriteOff(c, p, k) ==
  LET size == c.nt * p.in_size
  IN IF InReal(c) /\ c.inplace THEN PaddedCopy(c, k, size) ELSE IF k < size THEN k ELSE -1
CodeReadOff(c, p, k) ==
  LET size == c.nt * p.out_size
  IN IF OutReal(c) /\ c.inplace THEN PaddedCopy(c, k, size) ELSE IF k < size THEN k ELSE -1

\* ------------------------------------------------------------------ the FFTW contract
\* FFTW manual 4.4.1/4.4.2 (advanced interface): element idx of transform t lives at
\* t*dist + stride*Flat(idx, embed); embed = NULL means the logical dims, except that the real
\* side of an IN-PLACE r2c/c2r transform is padded to 2(n/2+1) in the last dimension.
InEmbed(c) == IF InReal(c) THEN (IF c.inplace THEN Padded(c.dims) ELSE c.dims) ELSE InLogical(c)
OutEmbed(c) == IF OutReal(c) THEN (IF c.inplace THEN Padded(c.dims) ELSE c.dims) ELSE OutLogical(c)
FFTWIn(c, p, t, f) == t * p.idist + p.stride * Flat(Unflat(f, InLogical(c)), InEmbed(c))
FFTWOut(c, p, t, f) == t * p.odist + p.stride * Flat(Unflat(f, OutLogical(c)), OutEmbed(c))

\* canonical enumeration of logical elements: position t*P + f + 1
CodeMaps(c, p) ==
  [w    |-> [k \in 1..(c.nt * Pin(c))  |-> CodeWriteOff(c, p, k - 1)],
   r    |-> [k \in 1..(c.nt * Pout(c)) |-> CodeReadOff(c, p, k - 1)],
   fin  |-> [q \in 1..(c.nt * Pin(c))  |-> FFTWIn(c, p, (q - 1) \div Pin(c), (q - 1) % Pin(c))],
   fout |-> [q \in 1..(c.nt * Pout(c)) |-> FFTWOut(c, p, (q - 1) \div Pout(c), (q - 1) % Pout(c))]]

\* ------------------------------------------------------------------ properties of a layout
InRange(seq, n) == \A i \in 1..Len(seq) : seq[i] >= 0 /\ seq[i] < n
Injective(seq) == \A i, j \in 1..Len(seq) : seq[i] = seq[j] => i = j
LayoutInBounds(p, m) == /\ InRange(m.w, p.in_alloc) /\ InRange(m.fin, p.in_alloc)
                        /\ InRange(m.r, p.out_alloc) /\ InRange(m.fout, p.out_alloc)
LayoutInjective(m) == Injective(m.w) /\ Injective(m.fin) /\ Injective(m.fout) /\ Injective(m.r)
\* where write_fft_input PUTS (t, f) is where FFTW READS it; where FFTW WRITES (t, f) is where
\* read_fft_output FETCHES it from
LayoutAgrees(c, m) ==
  /\ \A t \in 0..(c.nt - 1), f \in 0..(Pin(c) - 1) :
        m.w[UserFlat(c, t, f, Pin(c)) + 1] = m.fin[t * Pin(c) + f + 1]
  /\ \A t \in 0..(c.nt - 1), f \in 0..(Pout(c) - 1) :
        m.r[UserFlat(c, t, f, Pout(c)) + 1] = m.fout[t * Pout(c) + f + 1]
\* in-place: the two typed views are the same bytes
SameBytes(c, p) == c.inplace =>
   (IF InReal(c) THEN p.in_alloc = 2 * p.out_alloc
    ELSE IF OutReal(c) THEN 2 * p.in_alloc = p.out_alloc ELSE p.in_alloc = p.out_alloc)

\* ------------------------------------------------------------------ actions
Init == /\ phase = "none" /\ cfg = Junk /\ plan = Junk /\ maps = Junk
        /\ inbuf = Junk /\ outbuf = Junk /\ userout = Junk /\ gen = 0

AllocWith(c, p, m) ==
  /\ phase = "none"
  /\ cfg' = c /\ plan' = p /\ maps' = m
  /\ inbuf' = [o \in 1..p.in_alloc |-> Junk]
  /\ outbuf' = [o \in 1..p.out_alloc |-> Junk]
  /\ userout' = Junk /\ gen' = 0 /\ phase' = "ready"

Alloc(c) == AllocWith(c, CodePlan(c), CodeMaps(c, CodePlan(c)))

Safe == LayoutInBounds(plan, maps)       \* guards the memory actions (TLC reports InBounds first)

WriteInput ==
  /\ phase \in {"ready", "read"} /\ gen < MaxCalls /\ Safe
  /\ gen' = gen + 1
  /\ inbuf' = [o \in 1..plan.in_alloc |->
                 IF \E k \in 1..Len(maps.w) : maps.w[k] + 1 = o
                 THEN <<gen + 1, (CHOOSE k \in 1..Len(maps.w) : maps.w[k] + 1 = o) - 1>>
                 ELSE inbuf[o]]                     \* padding keeps whatever was there
  /\ outbuf' = IF cfg.inplace THEN [o \in 1..plan.out_alloc |-> Junk] ELSE outbuf
  /\ phase' = "written" /\ UNCHANGED <<cfg, plan, maps, userout>>

Good(t) == \A f \in 0..(Pin(cfg) - 1) :
              inbuf[maps.fin[t * Pin(cfg) + f + 1] + 1] = <<gen, UserFlat(cfg, t, f, Pin(cfg))>>

Execute ==
  /\ phase = "written" /\ Safe
  /\ outbuf' = [o \in 1..plan.out_alloc |->
                  IF \E q \in 1..Len(maps.fout) : maps.fout[q] + 1 = o
                  THEN LET q == CHOOSE qq \in 1..Len(maps.fout) : maps.fout[qq] + 1 = o
                           t == (q - 1) \div Pout(cfg)
                       IN <<"X", gen, t, (q - 1) % Pout(cfg), Good(t)>>
                  ELSE IF cfg.inplace THEN Junk ELSE outbuf[o]]
  \* in place the input is overwritten; a c2r transform destroys its input in any case
  /\ inbuf' = IF cfg.inplace \/ OutReal(cfg) THEN [o \in 1..plan.in_alloc |-> Junk] ELSE inbuf
  /\ phase' = "executed" /\ UNCHANGED <<cfg, plan, maps, userout, gen>>

ReadOutput ==
  /\ phase = "executed" /\ Safe
  /\ userout' = [k \in 1..Len(maps.r) |-> outbuf[maps.r[k] + 1]]
  /\ phase' = "read" /\ UNCHANGED <<cfg, plan, maps, inbuf, outbuf, gen>>

Free == /\ phase = "read" /\ gen = MaxCalls /\ phase' = "none"
        /\ cfg' = Junk /\ plan' = Junk /\ maps' = Junk /\ inbuf' = Junk /\ outbuf' = Junk
        /\ userout' = Junk /\ gen' = 0

Next == (\E c \in Configs : Alloc(c)) \/ WriteInput \/ Execute \/ ReadOutput \/ Free
Spec == Init /\ [][Next]_vars

\* ------------------------------------------------------------------ invariants
InBounds == phase # "none" => LayoutInBounds(plan, maps)
NoAliasing == phase # "none" => LayoutInjective(maps)
Agreement == phase # "none" => LayoutAgrees(cfg, maps)
InPlaceViews == phase # "none" => SameBytes(cfg, plan)
\* THE property: the user gets the DFT of the user's own input of THIS call, at the advertised place
Correct == phase = "read" =>
   \A t \in 0..(cfg.nt - 1), f \in 0..(Pout(cfg) - 1) :
       userout[UserFlat(cfg, t, f, Pout(cfg)) + 1] = <<"X", gen, t, f, TRUE>>
\* advertised shapes cover exactly what the C side moves
ShapesCover == phase # "none" => /\ Len(maps.w) = cfg.nt * Pin(cfg)
                                 /\ Len(maps.r) = cfg.nt * Pout(cfg)
=============================================================================
