---- MODULE MC_KSSession ----
(* Model-checking constants of KSSession. *)
EXTENDS KSSession
MCFamilies == {"sl", "sdmx", "nldf", "nldfsdmx"}
MCMols == {"m1", "m2"}
MCLevels == {0, 1}
MCSchemes == {"becke", "stratmann"}
====
