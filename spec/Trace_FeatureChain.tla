---- MODULE Trace_FeatureChain ----
(* Validation of OBSERVED discrepancy ladders (C02).  One record per evaluated case: for each rung of
   the refinement ladder that was run, the density-weighted L2 discrepancy (in parts per million)
   of every feature against direct quadrature of the documented integral; the largest mutual
   disagreement of the alternative code paths (interpolators / fast, low-memory and slow SDMX); the
   number of features returned and the number the documentation defines for the case.
     WithinBound   every feature, every rung: discrepancy <= the bound of that rung
     Tightens      refining exponent ladder + auxiliary basis + angular cut-off together does not
                   loosen the discrepancy: err(finest) <= max(err(coarsest), floor)
     PathsAgree    alternative code paths agree with each other
     FeatureCount  as many features as documented, in every rung *)
EXTENDS Integers, Sequences, FiniteSets, TLC, Json, IOUtils
Recs == JsonDeserialize(IOEnv.TRACE_FILE)
VARIABLES i, obs
NoObs == [fam |-> "none"]
TInit == i = 0 /\ obs = NoObs
TLoad == i < Len(Recs) /\ i' = i + 1 /\ obs' = Recs[i + 1]
TSpec == TInit /\ [][TLoad]_<<i, obs>>
Loaded == obs.fam # "none"
Max(a, b) == IF a >= b THEN a ELSE b
WithinBound == Loaded => \A r \in 1..Len(obs.err) : \A f \in 1..Len(obs.err[r]) : obs.err[r][f] <= obs.bound[r]
Tightens == Loaded /\ Len(obs.err) >= 2 =>
              \A f \in 1..Len(obs.err[1]) : obs.err[Len(obs.err)][f] <= Max(obs.err[1][f], obs.floor)
Ordered == Loaded => \A r \in 1..(Len(obs.rungs) - 1) : obs.rungs[r] < obs.rungs[r + 1]
PathsAgree == Loaded => obs.cross <= obs.cross_bound
FeatureCount == Loaded => \A r \in 1..Len(obs.err) : Len(obs.err[r]) = obs.ndoc
Accepted == TLCGet("stats").diameter = Len(Recs) + 1
====
