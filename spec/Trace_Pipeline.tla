---- MODULE Trace_Pipeline ----
(* Trace validation for Pipeline: one record per real generator, holding the stage calls recorded
   (harness/c05.py wraps the stage methods) during one get_features (forward) and one
   get_potential (backward).  The adjoint structure is judged on the OBSERVED sequences; a DRIFT
   line reports generators whose forward sequence differs from the transcription in Pipeline.tla. *)
EXTENDS Pipeline, Json, IOUtils, TLCExt
Recs == JsonDeserialize(IOEnv.TRACE_FILE)
VARIABLE i
NoVers == {}
Rec == Recs[i + 1]      \* the record being loaded; afterwards i is its index
AsStage(e) == Stage(e.name, e.dir, e.cnt, e.o1, e.o2)
SeqOf(es) == [k \in 1..Len(es) |-> AsStage(es[k])]
BagOf(es) == LET s == SeqOf(es) IN [x \in {s[k] : k \in 1..Len(s)} |-> Cardinality({k \in 1..Len(s) : s[k] = x})]
TInit == Init /\ i = 0
TLoad == /\ i < Len(Recs) /\ i' = i + 1
         /\ cfg' = Rec.cfg
         /\ fwd' = [outer |-> SeqOf(Rec.outer_fwd), inner |-> BagOf(Rec.inner_fwd)]
         /\ bwd' = [outer |-> SeqOf(Rec.outer_bwd), inner |-> BagOf(Rec.inner_bwd)]
         /\ IF SeqOf(Rec.outer_fwd) = OuterFwd(Rec.cfg) /\ DOMAIN BagOf(Rec.inner_fwd) = InnerFwd(Rec.cfg) THEN TRUE
            ELSE PrintT(<<"DRIFT", Rec.id>>)
TSpec == TInit /\ [][TLoad]_<<vars, i>>
ObsOuterAdjoint == cfg # <<>> => bwd.outer = Reverse([k \in 1..Len(fwd.outer) |-> T(fwd.outer[k])])
ObsInnerAdjoint == cfg # <<>> => /\ DOMAIN bwd.inner = {T(s) : s \in DOMAIN fwd.inner}
                                 /\ \A s \in DOMAIN fwd.inner : bwd.inner[T(s)] = fwd.inner[s]
NumericOK == cfg # <<>> => Recs[i].dot_ok
Accepted == TLCGet("stats").diameter = Len(Recs) + 1
====
