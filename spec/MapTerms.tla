------------------------------- MODULE MapTerms -------------------------------
(* Order of the spline terms produced when an additive kernel is mapped
   (models/kernel_plans/map_tools.py: get_mapped_gp_evaluator_additive) versus the order of the
   per-term scales (kernels.arbf_args).  With ns leading "single" (subset-RBF) dimensions and na
   additive dimensions, the mapping loop emits, for o = 0..order, one term per combination of o
   additive dimensions in itertools.combinations order, each prefixed by all single dimensions;
   arbf_args emits scale[0], then scale[1] na times, scale[2] C(na,2) times, scale[3] C(na,3) times.
   The term with no dimension at all (ns = 0, o = 0) is not a spline: it is the constant
   scale[0] * sum(alpha), added exactly once. *)
EXTENDS Integers, Sequences, FiniteSets, TLC
CONSTANTS MaxNA, MaxNS, MaxOrder
VARIABLES cfg, terms, scales
vars == <<cfg, terms, scales>>
\* combinations of k elements of lo..hi as increasing sequences, in lexicographic order
RECURSIVE Comb(_, _, _)
Comb(lo, hi, k) == IF k = 0 THEN <<<<>>>>
                   ELSE IF lo > hi THEN <<>>
                   ELSE [i \in 1..Len(Comb(lo + 1, hi, k - 1)) |-> <<lo>> \o Comb(lo + 1, hi, k - 1)[i]] \o Comb(lo + 1, hi, k)
RECURSIVE Flat(_)
Flat(ss) == IF ss = <<>> THEN <<>> ELSE Head(ss) \o Flat(Tail(ss))
\* positions: singles 0..ns-1, additive ns..ns+na-1
TermsOf(ns, na, order) ==
   Flat([o1 \in 1..(order + 1) |-> [i \in 1..Len(Comb(ns, ns + na - 1, o1 - 1)) |->
           [k \in 1..ns |-> k - 1] \o Comb(ns, ns + na - 1, o1 - 1)[i]]])
Binom(n, k) == Len(Comb(1, n, k))
ScaleIdxOf(na, order) == Flat([o1 \in 1..(order + 1) |-> [i \in 1..Binom(na, o1 - 1) |-> o1 - 1]])
Init == cfg = <<>> /\ terms = <<>> /\ scales = <<>>
Pick(ns, na, order) == /\ cfg = <<>> /\ cfg' = <<ns, na, order>>
                       /\ terms' = TermsOf(ns, na, order) /\ scales' = ScaleIdxOf(na, order)
Next == \E ns \in 0..MaxNS, na \in 1..MaxNA, order \in 1..MaxOrder : order <= na /\ Pick(ns, na, order)
Spec == Init /\ [][Next]_vars
\* ---- invariants
SameLength == cfg # <<>> => Len(terms) = Len(scales)
\* the scale of term t is the scale of its ORDER = number of additive dimensions in it
ScaleMatchesOrder == cfg # <<>> => \A t \in 1..Len(terms) : scales[t] = Len(terms[t]) - cfg[1]
ConstantOnce == cfg # <<>> => Cardinality({t \in 1..Len(terms) : Len(terms[t]) = cfg[1] /\ scales[t] = 0}) = 1
NoDuplicateTerms == cfg # <<>> => \A s, t \in 1..Len(terms) : terms[s] = terms[t] => s = t
Emit == cfg # <<>> => PrintT(<<"TERMS", cfg, terms, scales>>)
=============================================================================
