------------------------------- MODULE MapTerms -------------------------------
(* Order of the spline terms produced when an additive kernel is mapped
   (models/kernel_plans/map_tools.py: get_mapped_gp_evaluator_additive) versus the order of the
   per-term scales (kernels.arbf_args).  With ns leading "single" (subset-RBF) dimensions and na
   additive dimensions, the mapping loop emits, for o = 0..order, one term per combination of o
   additive dimensions in itertools.combinations order, each prefixed by all single dimensions;
   arbf_args emits scale[0], then scale[1] na times, scale[2] C(na,2) times, scale[3] C(na,3) times.
   The term with no dimension at all (ns = 0, o = 0) is not a spline: it is the constant
   scale[0] * sum(alpha), added exactly once.

   The mapped kernel reads a SUBSET of the feature vector: column c of the restricted control-point matrix is feature
   inds[c], inds = singles followed by additive dimensions, wherever those sit in the feature vector (Layouts).  The
   evaluator receives the terms in FEATURE indices, and the spline axis of a column must span the bounded domain of
   the feature the column was taken from (AxisKinds) -- features have different bounds (BoundKind). *)
EXTENDS Integers, Sequences, FiniteSets, TLC
CONSTANTS MaxNA, MaxNS, MaxOrder, Layouts
VARIABLES cfg, terms, scales, gterms, kinds
vars == <<cfg, terms, scales, gterms, kinds>>
\* combinations of k elements of lo..hi as increasing sequences, in lexicographic order
RECURSIVE Comb(_, _, _)
Comb(lo, hi, k) == IF k = 0 THEN <<<<>>>>
                   ELSE IF lo > hi THEN <<>>
                   ELSE [i \in 1..Len(Comb(lo + 1, hi, k - 1)) |-> <<lo>> \o Comb(lo + 1, hi, k - 1)[i]] \o Comb(lo + 1, hi, k)
RECURSIVE Flat(_)
Flat(ss) == IF ss = <<>> THEN <<>> ELSE Head(ss) \o Flat(Tail(ss))
\* positions: singles 0..ns-1, additive ns..ns+na-1
TermsOf(ns, na, order) ==
   Flat([o1 \in 1..(order + 1) |-> [i \in 1..Len(Comb(ns, ns + na - 1, o1 - 1)) |->
           [k \in 1..ns |-> k - 1] \o Comb(ns, ns + na - 1, o1 - 1)[i]]])
Binom(n, k) == Len(Comb(1, n, k))
ScaleIdxOf(na, order) == Flat([o1 \in 1..(order + 1) |-> [i \in 1..Binom(na, o1 - 1) |-> o1 - 1]])
\* where the singles / additive dimensions sit in the feature vector (0-based feature indices, column order)
Inds(ns, na, layout) ==
  CASE layout = "front" -> [c \in 1..(ns + na) |-> c - 1]                                  \* singles first: identity
    [] layout = "back"  -> [c \in 1..(ns + na) |-> IF c <= ns THEN na + c - 1 ELSE c - ns - 1]  \* additive block first
    [] layout = "gap"   -> [c \in 1..(ns + na) |-> IF c <= ns THEN c ELSE c + 1]              \* unused features 0 and ns+1
NFeatures(ns, na, layout) == IF layout = "gap" THEN ns + na + 2 ELSE ns + na
\* bound class of feature f in the harness's feature list: 0: (0,1)  1: (-1,1)  2: (-1/2,3/2)
BoundKind(f) == f % 3
Init == cfg = <<>> /\ terms = <<>> /\ scales = <<>> /\ gterms = <<>> /\ kinds = <<>>
Pick(ns, na, order, layout) ==
  /\ cfg = <<>> /\ cfg' = <<ns, na, order, layout>>
  /\ terms' = TermsOf(ns, na, order) /\ scales' = ScaleIdxOf(na, order)
  /\ LET T == TermsOf(ns, na, order) I == Inds(ns, na, layout)
     IN /\ gterms' = [t \in 1..Len(T) |-> [k \in 1..Len(T[t]) |-> I[T[t][k] + 1]]]
        /\ kinds' = [t \in 1..Len(T) |-> [k \in 1..Len(T[t]) |-> BoundKind(I[T[t][k] + 1])]]
Next == \E ns \in 0..MaxNS, na \in 1..MaxNA, order \in 1..MaxOrder, layout \in Layouts :
           order <= na /\ (layout = "back" => ns > 0) /\ Pick(ns, na, order, layout)
Spec == Init /\ [][Next]_vars
\* ---- invariants
SameLength == cfg # <<>> => Len(terms) = Len(scales)
\* the scale of term t is the scale of its ORDER = number of additive dimensions in it
ScaleMatchesOrder == cfg # <<>> => \A t \in 1..Len(terms) : scales[t] = Len(terms[t]) - cfg[1]
ConstantOnce == cfg # <<>> => Cardinality({t \in 1..Len(terms) : Len(terms[t]) = cfg[1] /\ scales[t] = 0}) = 1
NoDuplicateTerms == cfg # <<>> => \A s, t \in 1..Len(terms) : terms[s] = terms[t] => s = t
\* every feature index in range, no feature twice within a term, unused features never referenced
GlobalTermsWellFormed ==
  cfg # <<>> => \A t \in 1..Len(gterms) :
      /\ \A k \in 1..Len(gterms[t]) : gterms[t][k] \in 0..(NFeatures(cfg[1], cfg[2], cfg[4]) - 1)
      /\ \A j, k \in 1..Len(gterms[t]) : gterms[t][j] = gterms[t][k] => j = k
      /\ (cfg[4] = "gap" => \A k \in 1..Len(gterms[t]) : gterms[t][k] \notin {0, cfg[1] + 1})
\* the axis of a column carries the bound class of the feature the column was taken FROM
AxisKinds == cfg # <<>> => \A t \in 1..Len(gterms) : \A k \in 1..Len(gterms[t]) : kinds[t][k] = BoundKind(gterms[t][k])
Emit == cfg # <<>> => PrintT(<<"TERMS", cfg, terms, scales, gterms, kinds>>)
=============================================================================
