SPECIFICATION RSpec
CONSTANTS
  Families <- MCFamilies
  Mols <- MCMols
  Levels <- MCLevels
  Schemes <- MCSchemes
  MaxSteps = 64
  StaleGridBug = FALSE
INVARIANT EmitProj
INVARIANT GeneratorCurrent
INVARIANT SDMXCurrent
INVARIANT GridsMatchIntegrator
