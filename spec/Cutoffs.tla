------------------------------- MODULE Cutoffs -------------------------------
(* The lattice of guards against vanishing / extreme densities, and what each input class must
   produce.  A grid point is described per spin channel by magnitude CLASSES of (rho, |grad rho|,
   tau).  Densities are integers in units of 1e-12 so that sums and comparisons with the cutoffs
   are exact; two extra classes stand for values far below the unit (denormal, 1e-17), which
   count as 0 units but are not exactly zero.  Cutoffs the code uses:
       1e-16   regularisers added to denominators (s^2, tau_W, exc / (rho + 1e-16))
       1e-10   ALPHA_TOL, exponent rhocut (divided by nspin inside the plans), normaliser cutoff
       1e-9    DEFAULT_RHOCUT: low-density cutoff of the machine-learned energy (1000 units)
       1e-6    training mask
   Required outputs:
     Finite  -- always, for every returned quantity;
     ZeroML  -- when the density the model's mask looks at is below the model cutoff, the ML energy
                and its derivative w.r.t. every feature of that point (channel) are exactly zero.
   The mask is taken as the code defines it on the NORMALISED density feature X0T[s,0] = nspin*rho_s:
   separable models mask channel s when nspin*rho_s < cut; non-separable ones mask the point when
   sum_s nspin*rho_s < cut (i.e. rho_total < cut for nspin = 1 and 2*rho_total < cut for nspin = 2).
   TLC enumerates the lattice; each state is concretised by harness/c08.py. *)
EXTENDS Integers, FiniteSets, TLC
CONSTANTS RhoUnits,      \* set of <<units, label>> density classes
          GradClasses, TauClasses, Modes, SLModes, ModelCut
VARIABLES pt
Points == [rho_a : RhoUnits, rho_b : RhoUnits, grad : GradClasses, tau : TauClasses,
           mode : Modes, nspin : {1, 2}, sl : SLModes]
\* physically admissible: rho >= 0 smooth, so |grad rho| -> 0 with rho (tau_W = |grad rho|^2 / 8 rho stays
\* finite): an absolutely huge gradient is only paired with densities of at least 1e-6
Admissible(p) == /\ (p.nspin = 1 => p.rho_b = p.rho_a)
                 /\ (p.grad = "huge" => p.rho_a[1] >= 1000000 /\ p.rho_b[1] >= 1000000)
U(p, s) == IF s = 0 THEN p.rho_a[1] ELSE p.rho_b[1]
MaskedSpin(p, s) == IF p.mode = "SEP" THEN p.nspin * U(p, s) < ModelCut
                    ELSE IF p.nspin = 1 THEN U(p, 0) < ModelCut
                    ELSE 2 * (U(p, 0) + U(p, 1)) < ModelCut
\* a class sitting exactly on a threshold is left unspecified (strict vs non-strict comparison)
OnThreshold(p) == \E s \in {0, 1} : p.nspin * U(p, s) = ModelCut \/ U(p, 0) = ModelCut \/ 2 * (U(p, 0) + U(p, 1)) = ModelCut
Init == pt \in {p \in Points : Admissible(p) /\ ~OnThreshold(p)}
Next == UNCHANGED pt       \* every lattice point is an initial state; nothing moves
Spec == Init /\ [][Next]_pt
\* the mask of a non-separable model is the same for both channels; a separable one is per channel
MaskShape == (pt.mode # "SEP" /\ pt.nspin = 2) => (MaskedSpin(pt, 0) <=> MaskedSpin(pt, 1))
\* exact zeros and denormals are always masked
TinyAlwaysMasked == \A s \in {0, 1} : (pt.mode = "SEP" /\ U(pt, s) = 0) => MaskedSpin(pt, s)
Emit == PrintT(<<"POINT", pt, MaskedSpin(pt, 0), MaskedSpin(pt, 1)>>)
=============================================================================
