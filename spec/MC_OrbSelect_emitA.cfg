SPECIFICATION Spec
CONSTANTS
  NOrb = 3
  MaxReq = 1
  Layouts <- AllLayouts
  AscendingO = FALSE
  SpinBlind = FALSE
INVARIANT Emit
INVARIANT TypeOK
INVARIANT OMeaning
INVARIANT UMeaning
INVARIANT BMeaning
INVARIANT ChannelOfItsOrbital
INVARIANT DistinctOrbitalsPerKey
INVARIANT RefusedIffOutOfRange
INVARIANT RestrictedOneChannel
CHECK_DEADLOCK FALSE
