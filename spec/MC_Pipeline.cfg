SPECIFICATION Spec
CONSTANTS
  Versions = {"i", "j", "ij", "k"}
  MaxN0 = 3
  MaxN1 = 2
INVARIANT OuterIsReversedTranspose
INVARIANT InnerIsTranspose
INVARIANT OnsiteOffsetsTile
