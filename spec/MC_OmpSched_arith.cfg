SPECIFICATION Spec
