---- MODULE Trace_OmpSched ----
(* Trace validation of the manual thread partitions: one record per invocation of a team-size
   dependent parallel region, as logged by the CIDER_VERIF_EVENT hooks (region, team size T,
   iteration count n, and for every thread its block [lo, hi); hi < lo means an empty block).
   Property (on the observed blocks): every iteration 0..n-1 lies in exactly one thread's block and
   no block reaches past n.  A DRIFT line reports invocations whose blocks differ from the
   ceil(n/T) formula of OmpSched.tla although they still tile. *)
EXTENDS Integers, Sequences, FiniteSets, TLC, Json, IOUtils, TLCExt
Recs == JsonDeserialize(IOEnv.TRACE_FILE)
VARIABLE i
Ceil(a, b) == (a + b - 1) \div b
Min(a, b) == IF a < b THEN a ELSE b
Rec == Recs[i]
Blocks(rc) == rc.blocks        \* sequence indexed by thread + 1 of <<lo, hi>>
Covers(rc, x) == Cardinality({t \in 1..Len(Blocks(rc)) : Blocks(rc)[t][1] <= x /\ x < Blocks(rc)[t][2]})
TInit == i = 0
TNext == /\ i < Len(Recs) /\ i' = i + 1
         /\ LET rc == Recs[i + 1] IN
              IF \A t \in 1..rc.T : Blocks(rc)[t][1] = Ceil(rc.n, rc.T) * (t - 1)
                                    /\ Blocks(rc)[t][2] = Min(Ceil(rc.n, rc.T) * (t - 1) + Ceil(rc.n, rc.T), rc.n)
              THEN TRUE ELSE PrintT(<<"DRIFT", rc.id>>)
TSpec == TInit /\ [][TNext]_i
EveryThreadReported == i >= 1 => Len(Blocks(Rec)) = Rec.T
BlocksTile == i >= 1 => \A x \in 0..(Rec.n - 1) : Covers(Rec, x) = 1
BlocksInRange == i >= 1 => \A t \in 1..Len(Blocks(Rec)) : Blocks(Rec)[t][2] <= Rec.n /\ (Blocks(Rec)[t][1] >= 0)
Accepted == TLCGet("stats").diameter = Len(Recs) + 1
====
