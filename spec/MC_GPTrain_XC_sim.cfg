SPECIFICATION Spec
CONSTANTS
  Systems <- MCSystems
  Comp <- MCCompXC
  Rxns <- MCRxns
  MaxOps = 5

PROPERTY AlignedUnlessFailed
PROPERTY FitUsesCurrent
PROPERTY ResetClears
INVARIANT RowsBelong
INVARIANT DerivImpliesPlain
INVARIANT Emit
