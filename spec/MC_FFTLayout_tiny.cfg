SPECIFICATION Spec
CONSTANTS
  Configs <- TinyConfigs
  MaxCalls <- Two
INVARIANT InBounds
INVARIANT NoAliasing
INVARIANT Agreement
INVARIANT InPlaceViews
INVARIANT Correct
INVARIANT ShapesCover
