SPECIFICATION Spec
CONSTANTS
  SLModes = {"nst", "npa", "ns", "np"}
  NLDFVers = {"none", "j", "i", "ij", "k"}
  SDMXKinds = {"none", "SDMX", "G", "1", "G1", "Full"}
  Plans = {"gaussian", "spline"}
  Interps = {"onsite_direct", "onsite_spline"}
  Evals = {"rbf", "kernel", "spline", "linear", "two", "spinrbf"}
  Modes = {"SEP", "NPOL", "POL"}
  Mixes = {"pure", "xmix", "xmix_c", "libxc2", "xc_extra", "conly", "mgga_mix"}
  MaxCalls = 1
INVARIANT GridsMatchIntegrator
INVARIANT FeatureVectorComplete
PROPERTY CallOnlyWhenBuilt
INVARIANT Emit
