------------------------------ MODULE EvalModes ------------------------------
(* One evaluation of a mapped functional term (xc_evaluator.MappedDFTKernel.__call__ and
   xc_evaluator2.MappedDFTKernel2.__call__) as a dataflow over SYMBOLIC buffers.  A buffer cell
   holds the set of contributions written into it so far; Nsamp grid points (two are enough to
   tell "this point" from "another point"), nspin input channels.

     v1:  descriptors -> every evaluator adds into the shared (f, df) -> [SEP reshape] ->
          descriptor gradient -> baselines (f*m + a) -> rhocut mask -> [SEP: sum over spin]
     v2:  descriptors -> evaluators -> [POL, nspin=1: keep one channel, x2] -> [SEP reshape] ->
          rhocut mask -> libxc baselines -> descriptor gradient -> [SEP: sum over spin]

   Internal sample layout (the reshape algebra):  SEP: nspin*Nsamp rows, row s*Nsamp+g;
   NPOL: Nsamp rows (spin-averaged features); POL: (2, Nsamp, N1) and f has Nsamp entries. *)
EXTENDS Integers, Sequences, FiniteSets, TLC
CONSTANTS Modes, EvalKinds, MaxEvals, Versions
VARIABLES cfg, stage, f, df, out
vars == <<cfg, stage, f, df, out>>
Nsamp == 2
\* which evaluator kinds can serve which mode (SpinRBF needs the (2, N, N1) layout; the others a 2-D one)
KindOK(mode, k) == IF mode = "POL" THEN k = "spinrbf" ELSE k # "spinrbf"
EvalLists == UNION {[1..n -> EvalKinds] : n \in 1..MaxEvals}
Cfgs == {[ver |-> v, mode |-> m, nspin |-> ns, evals |-> ev, mul |-> mu, add |-> ad, cut |-> rc] :
            v \in Versions, m \in Modes, ns \in 1..2, ev \in EvalLists,
            mu \in {"lda_x", "gga_x", "one"}, ad \in {"none", "zero", "gga_c"}, rc \in {"off", "below_all", "splits", "above_all"}}
ValidCfg(c) == \A k \in 1..Len(c.evals) : KindOK(c.mode, c.evals[k])
\* rows of the internal (f, df) buffers
Rows(c) == IF c.mode = "SEP" THEN c.nspin * Nsamp ELSE Nsamp
RowOf(c, s, g) == IF c.mode = "SEP" THEN s * Nsamp + g ELSE g          \* 0-based
\* a grid point is masked if its (per-spin for SEP, total otherwise) density is below rhocut
Masked(c, s, g) == CASE c.cut = "off" -> FALSE [] c.cut = "below_all" -> FALSE
                     [] c.cut = "above_all" -> TRUE [] c.cut = "splits" -> g = 0

Init == cfg = <<>> /\ stage = "idle" /\ f = <<>> /\ df = <<>> /\ out = <<>>
Start(c) == /\ stage = "idle" /\ ValidCfg(c) /\ cfg' = c /\ stage' = "feval"
            /\ f' = [r \in 0..(Rows(c) - 1) |-> {}] /\ df' = [r \in 0..(Rows(c) - 1) |-> {}] /\ out' = <<>>
\* every evaluator ADDS its value / gradient for row r into the shared buffers
Feval == /\ stage = "feval"
         /\ LET k == Cardinality(f[0]) + 1 IN
              /\ k <= Len(cfg.evals)
              /\ f' = [r \in DOMAIN f |-> f[r] \cup {<<"ev", k, r>>}]
              /\ df' = [r \in DOMAIN df |-> df[r] \cup {<<"dev", k, r>>}]
         /\ stage' = IF Cardinality(f[0]) + 1 = Len(cfg.evals) THEN "post" ELSE "feval"
         /\ UNCHANGED <<cfg, out>>
\* baselines, mask, descriptor gradient, spin sum: produce the user-visible (e[g], de[s][g])
Finish ==
  /\ stage = "post"
  /\ out' = [g \in 0..(Nsamp - 1) |->
       [e  |-> UNION {IF Masked(cfg, s, g) THEN {} ELSE f[RowOf(cfg, s, g)] \cup {<<"mul", s, g>>}
                      : s \in (IF cfg.mode = "SEP" THEN 0..(cfg.nspin - 1) ELSE {0})},
        de |-> [s \in 0..(cfg.nspin - 1) |->
                  IF Masked(cfg, s, g) THEN {}
                  ELSE df[RowOf(cfg, IF cfg.mode = "SEP" THEN s ELSE 0, g)] \cup {<<"dmul", s, g>>}]]]
  /\ stage' = "done" /\ UNCHANGED <<cfg, f, df>>
Reset == stage = "done" /\ stage' = "idle" /\ cfg' = <<>> /\ f' = <<>> /\ df' = <<>> /\ out' = <<>>
Next == (\E c \in Cfgs : Start(c)) \/ Feval \/ Finish \/ Reset
Spec == Init /\ [][Next]_vars

\* ---- invariants
EveryEvaluatorOnce == stage = "post" =>
   \A r \in DOMAIN f : /\ f[r] = {<<"ev", k, r>> : k \in 1..Len(cfg.evals)}
                       /\ df[r] = {<<"dev", k, r>> : k \in 1..Len(cfg.evals)}
\* the value and the derivative of a point are masked together, and an unmasked point only ever
\* receives contributions computed for ITSELF
MaskBoth == stage = "done" => \A g \in 0..(Nsamp - 1) : \A s \in 0..(cfg.nspin - 1) :
   (Masked(cfg, s, g) => out[g].de[s] = {}) /\
   ((\A t \in 0..(cfg.nspin - 1) : Masked(cfg, t, g)) => out[g].e = {})
PointLocal == stage = "done" => \A g \in 0..(Nsamp - 1) :
   \A x \in out[g].e : (x[1] = "ev" => x[3] \in {RowOf(cfg, s, g) : s \in 0..(cfg.nspin - 1)})
ShapeAgree == stage \in {"feval", "post"} => DOMAIN f = 0..(Rows(cfg) - 1) /\ DOMAIN df = DOMAIN f
Emit == stage = "post" => PrintT(<<"EVALCFG", cfg>>)
=============================================================================
