------------------------------ MODULE MapAlgebra ------------------------------
(* Feature transforms (transform_data.py): a FeatureList is a sequence of maps, each reading
   `arity` raw-feature rows through its index arguments.  fill_derivs_ must ADD, for every map m
   and every argument position p, the chain-rule term  dfdy[m] * d y_m / d x_{idx(m,p)}  into row
   idx(m,p) of dfdx -- also when several positions (of one map or of different maps) name the same
   row.  The model enumerates lists of maps with every index assignment (coincident indices
   included) and parameter class, and states the accumulation contract as a bag equation; each
   state is one implementation test (harness/c12.py: finite differences + member-sum equality). *)
EXTENDS Integers, Sequences, FiniteSets, TLC, Bags
CONSTANTS Arity,      \* [class name -> number of index arguments]   (live, by introspection)
          HasGamma,   \* [class name -> BOOLEAN]
          NRaw, MaxLen,
          PairClasses \* classes used when enumerating lists of length 2 (all classes for length 1)
VARIABLES lst, rows
vars == <<lst, rows>>
Classes == DOMAIN Arity
GammaClasses(c) == IF HasGamma[c] THEN {"one", "other"} ELSE {"na"}
MapsOf(cs, n) == UNION {{[cls |-> c, idx |-> ix, gam |-> g] : ix \in [1..Arity[c] -> 0..(n - 1)], g \in GammaClasses(c)} : c \in cs}
\* bag of (row) -> number of chain-rule terms that must be added into that row
Contribs(l) == LET terms == {<<m, p>> : m \in 1..Len(l), p \in 1..4} \cap
                            UNION {{<<m, p>> : p \in 1..Arity[l[m].cls]} : m \in 1..Len(l)}
               IN [r \in 0..(NRaw - 1) |-> Cardinality({t \in terms : l[t[1]].idx[t[2]] = r})]
Init == lst = <<>> /\ rows = <<>>
One(m) == lst = <<>> /\ lst' = <<m>> /\ rows' = Contribs(<<m>>)
Two(m1, m2) == lst = <<>> /\ MaxLen >= 2 /\ lst' = <<m1, m2>> /\ rows' = Contribs(<<m1, m2>>)
Next == (\E m \in MapsOf(Classes, NRaw) : One(m))
        \/ (\E m1 \in MapsOf(PairClasses, 2), m2 \in MapsOf(PairClasses, 2) : Two(m1, m2))
Spec == Init /\ [][Next]_vars
\* accumulation contract: the list's contributions are the sum of its members' contributions
Additive == Len(lst) = 2 => \A r \in 0..(NRaw - 1) : rows[r] = Contribs(<<lst[1]>>)[r] + Contribs(<<lst[2]>>)[r]
TotalTerms == lst # <<>> => LET F[k \in 0..NRaw] == IF k = 0 THEN 0 ELSE F[k - 1] + rows[k - 1]
                            IN F[NRaw] = (IF Len(lst) = 1 THEN Arity[lst[1].cls] ELSE Arity[lst[1].cls] + Arity[lst[2].cls])
Emit == lst # <<>> => PrintT(<<"MAPS", lst, rows>>)
=============================================================================
