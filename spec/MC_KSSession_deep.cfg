SPECIFICATION Spec
CONSTANTS
  Families <- MCFamilies
  Mols <- MCMols
  Levels <- MCLevels
  Schemes <- MCSchemes
  MaxSteps = 9
  StaleGridBug = FALSE
INVARIANT TypeOK
INVARIANT GridsMatchIntegrator
INVARIANT GeneratorCurrent
INVARIANT SDMXCurrent
PROPERTY AttrsPreserved
PROPERTY SwapStartsClean
PROPERTY NoGeneratorAfterReset
PROPERTY NoGeneratorAfterBuild
PROPERTY NoNeedlessRebuild
