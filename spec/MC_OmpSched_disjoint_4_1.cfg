SPECIFICATION Spec
CONSTANTS
  T = 4
  N = 1
  Kind = "disjoint"
  NCells = 2
INVARIANT FinalIsSequential
INVARIANT ManualTiles
INVARIANT ScratchPrivate
INVARIANT MutualExclusion
