---- MODULE MCH_KSSession ----
(* KSSession plus a history variable and the per-step expected projection: emits behaviours that the harness
   replays on real decorated KS objects (harness/session.py); used with -simulate. *)
EXTENDS MC_KSSession
VARIABLE hist
HInit == Init /\ hist = <<>>
Rec(x) == hist' = Append(hist, Append(x, err'))   \* every entry ends with the outcome class of the call
HNext == \/ \E sp \in {"R", "U"}, l \in Levels, s \in Schemes : Configure(sp, l, s) /\ Rec(<<"configure", sp, l, s>>)
         \/ \E f \in Families : Decorate(f) /\ Rec(<<"decorate", f>>)
         \/ \E f \in Families : SetMlxc(f) /\ Rec(<<"set_mlxc", f>>)
         \/ Redecorate /\ Rec(<<"redecorate">>)
         \/ \E l \in Levels, s \in Schemes : SetGridAttr(l, s) /\ Rec(<<"grid_attr", l, s>>)
         \/ \E wm \in BOOLEAN : Build(wm) /\ Rec(<<"build", wm>>)
         \/ InitGrids /\ Rec(<<"init_grids">>)
         \/ NrCall(NSpin(ks.spin)) /\ Rec(<<"nr_call", NSpin(ks.spin)>>)
         \/ \E m \in Mols : Reset(m) /\ Rec(<<"reset", m>>)
         \/ MoveInPlace /\ Rec(<<"move_in_place">>)
         \/ DensityFit /\ Rec(<<"density_fit">>)
         \/ ToOtherSpin /\ Rec(<<"to_other_spin">>)
         \/ \E meth \in BlockedMethods : Unsupported(meth) /\ Rec(<<"unsupported", meth>>)
HSpec == HInit /\ [][HNext]_<<vars, hist>>
\* simulation bias (a CONSTRAINT of the *_sim configs only): uniform random choice among successor STATES favours the
\* actions with many parameter values; cap those so that behaviours contain several evaluations
Count(name) == Cardinality({i \in DOMAIN hist : hist[i][1] = name})
Useful == /\ Count("configure") <= 1 /\ Count("set_mlxc") <= 1 /\ Count("unsupported") <= 1 /\ Count("redecorate") <= 1
          /\ Count("density_fit") <= 1 /\ Count("to_other_spin") <= 1 /\ Count("build") <= 2 /\ Count("reset") <= 2
          /\ (Len(hist) >= 2 => ks.decorated)
\* -simulate: print the action histories only (cheap to parse); the harness then selects behaviours and obtains the
\* per-step expected projections of exactly those from the Replay specification below (exhaustive, one line of
\* states per selected behaviour)
EmitHist == steps = MaxSteps => PrintT(<<"SESSION_HIST", hist>>)
====
