SPECIFICATION TSpec
CONSTANTS
  Families <- TFamilies
  Mols <- TMols
  Levels <- TLevels
  Schemes <- TSchemes
  MaxSteps = 1000000
  StaleGridBug = FALSE
INVARIANT GeneratorNotStale
INVARIANT EvaluationSucceeds
INVARIANT GridAttrsAsSpecified
INVARIANT ClassesAsSpecified
INVARIANT GridObjectReplacedIffSpec
INVARIANT IntegratorReplacedIffSpec
INVARIANT NLDFGeneratorAsSpecified
INVARIANT SDMXGeneratorAsSpecified
INVARIANT OutcomeAsSpecified
INVARIANT OwnerAsSpecified
INVARIANT GradClassAsSpecified
INVARIANT GridsMatchIntegrator
INVARIANT GeneratorCurrent
INVARIANT SDMXCurrent
CONSTRAINT Track
POSTCONDITION Accepted
CHECK_DEADLOCK FALSE
