SPECIFICATION TSpec
CONSTANTS
  Versions <- NoVers
  MaxN0 = 0
  MaxN1 = 0
INVARIANT ObsOuterAdjoint
INVARIANT ObsInnerAdjoint
INVARIANT NumericOK
POSTCONDITION Accepted
CHECK_DEADLOCK FALSE
