SPECIFICATION Spec
CONSTANTS
  d1 = d1
  d2 = d2
  m1 = m1
  m2 = m2
  g1 = g1
  g2 = g2
  DM <- MCDM
  Mol <- MCMol
  Grid <- MCGrid
  MaxSet = 2
  MaxBlk = 2
  MaxCalls = 2
  HasNLDF = TRUE
  HasSDMX = FALSE
  BugF1 = FALSE
  BugF2 = FALSE
PROPERTY CacheDiscipline
INVARIANT GeneratorFresh
INVARIANT SDMXFresh
INVARIANT Provenance
INVARIANT NoLeak
INVARIANT CallerArraysClean
