---- MODULE MC_GridIndex ----
EXTENDS GridIndex
MCElements == {"A", "B"}
\* radial-order angular sizes; non-monotone ones make the grouping reorder shells
MCShells == {<<1>>, <<2, 1>>, <<1, 2, 1>>, <<2, 2>>, <<3, 1, 3>>, <<1, 3, 2>>}
MCShellsSmall == {<<1>>, <<2, 1>>, <<1, 2, 1>>}
MCAligns == {1, 2, 4}
====
