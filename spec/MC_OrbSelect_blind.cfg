SPECIFICATION Spec
CONSTANTS
  NOrb = 3
  MaxReq = 2
  Layouts <- AllLayouts
  AscendingO = FALSE
  SpinBlind = TRUE
INVARIANT TypeOK
INVARIANT OMeaning
INVARIANT UMeaning
INVARIANT BMeaning
INVARIANT ChannelOfItsOrbital
INVARIANT DistinctOrbitalsPerKey
INVARIANT RefusedIffOutOfRange
INVARIANT RestrictedOneChannel
CHECK_DEADLOCK FALSE
