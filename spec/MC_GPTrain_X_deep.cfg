SPECIFICATION Spec
CONSTANTS
  Systems <- MCSystems
  Comp <- MCCompX
  Rxns <- MCRxns
  MaxOps = 4
VIEW View
PROPERTY AlignedUnlessFailed
PROPERTY FitUsesCurrent
PROPERTY ResetClears
INVARIANT RowsBelong
INVARIANT DerivImpliesPlain
