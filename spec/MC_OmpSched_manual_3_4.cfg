SPECIFICATION Spec
CONSTANTS
  T = 3
  N = 4
  Kind = "manual"
  NCells = 2
INVARIANT FinalIsSequential
INVARIANT ManualTiles
INVARIANT ScratchPrivate
INVARIANT MutualExclusion
