------------------------------ MODULE KSSession ------------------------------
(* Life cycle of a CIDER-decorated PySCF Kohn-Sham object (ciderpress/pyscf/dft.py, numint.py,
   gen_cider_grid.py together with the PySCF base classes they extend), one action per public call /
   per step PySCF's get_veff takes:

     Decorate(f, sp)   make_cider_calc(dft.RKS|UKS(mol), model of family f)   -> _CiderKS.__init__ -> set_mlxc
     Redecorate        make_cider_calc(<already decorated object>)             -> TypeError (inconsistent MRO)
     SetMlxc(f)        ks.set_mlxc(model)          new integrator object; the grid OBJECT is replaced only when the
                                                   grid CLASS has to change, the seven user grid attributes are carried over
     MoveInPlace       mol.set_geom_(..); ks.grids.build()   the SAME molecule and grid objects with new content (no reset)
     SetGridAttr(a,v)  ks.grids.<a> = v            pyscf Grids.__setattr__ -> grids.reset(): same object, content dropped
     Build(withmol)    ks.build([mol])             integrator.build(mol): generators dropped, timer created
     InitGrids         ks.initialize_grids(..)     first half of get_veff: builds the grid IN PLACE when it has no content
                                                   (CiderGrids.build creates a NEW indexer object every time)
     NrCall(ns)        ks._numint.nr_rks/nr_uks    second half of get_veff: (re)initialisation predicate of the NLDF / SDMX
                                                   generators, then the evaluation (cache protocol of one call: NumIntCache.tla)
     Reset(m)          ks.reset(mol)               integrator.reset + grids.reset + scf reset
     DensityFit        ks.density_fit()            a second KS object that SHARES integrator and grid objects
     ToOtherSpin       ks.to_uks() / to_rks()      ditto, other spin treatment
     GradClass         ks.nuc_grad_method()        class selected by (spin treatment, density fitting)
     Unsupported(m)    ks.Hessian() / ks.NMR()     NotImplementedError (Hessian of a density-fitted copy: see below)

   Objects are identities (naturals from the counter nid); "content versions" are identities too (a rebuilt grid
   has a new coords array and, for CiderGrids, a new indexer object).  What a call evaluates WITH is recorded in
   `last`, so "the answer is what fresh objects give" is the invariant that every object the evaluation used was
   derived from the CURRENT molecule, grid content, spin count and model.

   StaleGridBug = TRUE reproduces the pinned tree: the NLDF generator was re-initialised on grid OBJECT identity
   only, so a grid rebuilt in place (any of the seven attributes assigned after a first evaluation) was evaluated
   with the generator -- indexer, weights, interpolation coordinates -- of its previous content (negative control;
   repaired by the fix recorded as F30 in known_findings.json). *)
EXTENDS Integers, Sequences, FiniteSets, TLC
CONSTANTS Families,      \* model families: "sl", "sdmx", "nldf", "nldfsdmx"
          Mols,          \* molecule objects
          Levels,        \* values of the abstracted grid attribute `level`
          Schemes,       \* values of the abstracted grid attribute `becke_scheme`
          MaxSteps,
          StaleGridBug
VARIABLES ks,      \* the decorated object (and its shallow copies): see Init
          grids,   \* the grid object ks.grids currently points to
          ni,      \* the integrator object ks._numint currently points to
          nid,     \* identity counter
          last,    \* observation of the last NrCall
          err,     \* outcome class of the last public call: "ok" | exception name
          geom,    \* [Mols -> Nat]: content version of each molecule OBJECT (mol.set_geom_ changes it in place)
          steps
vars == <<ks, grids, ni, nid, last, err, geom, steps>>
None == <<>>
NoMol == "nomol"   \* the integrator's mol attribute before the first call / after build()
HasNLDF(f) == f \in {"nldf", "nldfsdmx"}
HasSDMX(f) == f \in {"sdmx", "nldfsdmx"}
IntegratorClass(f) == IF HasNLDF(f) THEN "NLDFNumInt" ELSE "CiderNumInt"
GridsClass(f) == IF HasNLDF(f) THEN "CiderGrids" ELSE "Grids"
NSpin(sp) == IF sp = "R" THEN 1 ELSE 2

Init == /\ ks = [decorated |-> FALSE, spin |-> "R", df |-> FALSE, fam |-> "nofam", mol |-> CHOOSE m \in Mols : TRUE, copies |-> 0]
        \* an undecorated RKS/UKS owns a plain pyscf Grids object with the user's attributes
        /\ grids = [oid |-> 1, cls |-> "Grids", level |-> CHOOSE l \in Levels : TRUE, scheme |-> CHOOSE s \in Schemes : TRUE,
                    mol |-> CHOOSE m \in Mols : TRUE, content |-> 0, indexer |-> 0]
        /\ ni = None /\ nid = 1 /\ last = None /\ err = "ok" /\ steps = 0 /\ geom = [m \in Mols |-> 0]

Tick == steps < MaxSteps /\ steps' = steps + 1
TickF == Tick /\ UNCHANGED geom

\* ---- the user configures the plain object before decorating (also spin treatment)
Configure(sp, l, s) ==
  /\ TickF /\ ~ks.decorated
  /\ ks' = [ks EXCEPT !.spin = sp]
  /\ grids' = [grids EXCEPT !.level = l, !.scheme = s]
  /\ err' = "ok" /\ UNCHANGED <<ni, nid, last>>

\* _CiderKS.set_mlxc: shared by decoration and model swap
SetMlxcEffect(f) ==
  LET swap == IF HasNLDF(f) THEN grids.cls # "CiderGrids" ELSE grids.cls = "CiderGrids"
      g2 == IF swap THEN [oid |-> nid + 1, cls |-> GridsClass(f), level |-> grids.level, scheme |-> grids.scheme,
                          mol |-> ks.mol, content |-> 0, indexer |-> 0]
            ELSE grids
  IN /\ grids' = g2
     /\ ni' = [oid |-> nid + 2, cls |-> IntegratorClass(f), fam |-> f, mol |-> NoMol, gridsoid |-> 0,
               gen |-> None, sdmx |-> None, timer |-> FALSE]
     /\ nid' = nid + 2

Decorate(f) ==
  /\ TickF /\ ~ks.decorated
  /\ ks' = [ks EXCEPT !.decorated = TRUE, !.fam = f]
  /\ SetMlxcEffect(f) /\ err' = "ok" /\ UNCHANGED last
Redecorate ==
  /\ TickF /\ ks.decorated /\ err' = "TypeError" /\ UNCHANGED <<ks, grids, ni, nid, last>>
SetMlxc(f) ==
  /\ TickF /\ ks.decorated
  /\ ks' = [ks EXCEPT !.fam = f]
  /\ SetMlxcEffect(f) /\ err' = "ok" /\ UNCHANGED last

SetGridAttr(l, s) ==
  /\ TickF /\ ks.decorated /\ (l # grids.level \/ s # grids.scheme)
  \* pyscf Grids.reset clears coords/weights; CiderGrids.reset also drops the indexer
  /\ grids' = [grids EXCEPT !.level = l, !.scheme = s, !.content = 0, !.indexer = 0]
  /\ err' = "ok" /\ UNCHANGED <<ks, ni, nid, last>>

\* ks.build() passes mol=None on to the integrator, scf.kernel() calls build(self.mol): the integrator's mol attribute
\* differs, the generators are dropped either way
Build(withmol) ==
  /\ TickF /\ ks.decorated
  /\ ni' = [ni EXCEPT !.mol = IF withmol THEN ks.mol ELSE NoMol, !.gen = None, !.sdmx = None, !.timer = TRUE]
  /\ err' = "ok" /\ UNCHANGED <<ks, grids, nid, last>>

InitGrids ==
  /\ TickF /\ ks.decorated /\ grids.content = 0
  /\ grids' = [grids EXCEPT !.content = nid + 1,
                            !.indexer = IF grids.cls = "CiderGrids" THEN nid + 1 ELSE 0]
  /\ nid' = nid + 1 /\ err' = "ok" /\ UNCHANGED <<ks, ni, last>>

\* NLDFNumInt.initialize_feature_generators + CiderNumIntMixin.initialize_feature_generators
NeedGen(ns) == /\ HasNLDF(ni.fam)
               /\ \/ ni.gen = None \/ ni.gridsoid # grids.oid \/ ni.mol # ks.mol \/ ni.gen.nspin # ns
                  \/ (~StaleGridBug /\ ni.gen.indexer # grids.indexer)
NeedSDMX(ns) == HasSDMX(ni.fam) /\ (ni.sdmx = None \/ ni.mol # ks.mol \/ ni.sdmx.nspin # ns)
\* The four routines differ in WHERE they first touch the timer that only build() creates: nr_rks_nldf initialises the
\* generators first, the other three start the timer first.  Modelled as the code does it.
InitBeforeTimer(ns) == HasNLDF(ni.fam) /\ ns = 1
NrCall(ns) ==
  /\ TickF /\ ks.decorated /\ grids.content # 0
  /\ LET g == IF NeedGen(ns) THEN [mol |-> ks.mol, gridsoid |-> grids.oid, nspin |-> ns, molgeom |-> geom[ks.mol],
                                    indexer |-> grids.indexer, content |-> grids.content, serial |-> nid + 1]
              ELSE ni.gen
         x == IF NeedSDMX(ns) THEN [mol |-> ks.mol, nspin |-> ns, serial |-> nid + 1] ELSE ni.sdmx
         initialised == [ni EXCEPT !.gen = g, !.sdmx = x, !.mol = ks.mol,
                                   !.gridsoid = IF HasNLDF(ni.fam) THEN grids.oid ELSE ni.gridsoid]
         bump == IF NeedGen(ns) \/ NeedSDMX(ns) THEN nid + 1 ELSE nid
     IN IF ~ni.timer
        THEN /\ err' = "AttributeError" /\ UNCHANGED <<ks, grids, last>>
             /\ IF InitBeforeTimer(ns) THEN ni' = initialised /\ nid' = bump ELSE UNCHANGED <<ni, nid>>
        ELSE /\ ni' = initialised /\ nid' = bump
             /\ last' = [ns |-> ns, fam |-> ni.fam, mol |-> ks.mol, content |-> grids.content, molgeom |-> geom[ks.mol],
                         gen |-> g, sdmx |-> x, newgen |-> NeedGen(ns), newsdmx |-> NeedSDMX(ns)]
             /\ err' = "ok" /\ UNCHANGED <<ks, grids>>

Reset(m) ==
  /\ TickF /\ ks.decorated
  /\ ks' = [ks EXCEPT !.mol = m]
  /\ ni' = [ni EXCEPT !.mol = m, !.gen = None, !.sdmx = None]
  /\ grids' = [grids EXCEPT !.mol = m, !.content = 0, !.indexer = 0]
  /\ err' = "ok" /\ UNCHANGED <<nid, last>>

\* the user moves the atoms of the SAME molecule object and rebuilds the SAME grid object (no reset of the calculator)
MoveInPlace ==
  /\ Tick /\ ks.decorated /\ grids.content # 0
  /\ geom' = [geom EXCEPT ![ks.mol] = nid + 1]
  /\ grids' = [grids EXCEPT !.content = nid + 2, !.indexer = IF grids.cls = "CiderGrids" THEN nid + 2 ELSE 0]
  /\ nid' = nid + 2 /\ err' = "ok" /\ UNCHANGED <<ks, ni, last>>

\* shallow copies: the new KS object shares integrator and grid OBJECTS with the old one
DensityFit == /\ TickF /\ ks.decorated /\ ~ks.df /\ ks' = [ks EXCEPT !.df = TRUE, !.copies = @ + 1]
              /\ err' = "ok" /\ UNCHANGED <<grids, ni, nid, last>>
ToOtherSpin == /\ TickF /\ ks.decorated /\ ks' = [ks EXCEPT !.spin = IF @ = "R" THEN "U" ELSE "R", !.copies = @ + 1]
               /\ err' = "ok" /\ UNCHANGED <<grids, ni, nid, last>>
\* _CiderKS overrides Hessian, NMR, MP2, ... with a method raising NotImplementedError.  The density-fitted copy puts
\* pyscf's _DFHF BEFORE _CiderKS in the MRO, and _DFHF defines Hessian / MP2 / CASSCF itself: on a density-fitted CIDER object
\* those return pyscf's objects (for the semilocal stand-in functional).  Modelled as the code behaves (observation O7).
BlockedMethods == {"Hessian", "NMR"}
Unsupported(meth) == /\ TickF /\ ks.decorated
                     /\ err' = IF meth = "Hessian" /\ ks.df THEN "ok" ELSE "NotImplementedError"
                     /\ UNCHANGED <<ks, grids, ni, nid, last>>

GradClass == <<IF ks.spin = "R" THEN "rks_grad" ELSE "uks_grad", IF ks.df THEN "DFGradients" ELSE "Gradients">>
StandIn == "R2SCAN"   \* all session models of the harness are meta-GGA level (GGA: "PBE", root module)

Next == \/ \E sp \in {"R", "U"}, l \in Levels, s \in Schemes : Configure(sp, l, s)
        \/ \E f \in Families : Decorate(f) \/ SetMlxc(f)
        \/ Redecorate
        \/ \E l \in Levels, s \in Schemes : SetGridAttr(l, s)
        \/ (\E wm \in BOOLEAN : Build(wm)) \/ InitGrids \/ NrCall(NSpin(ks.spin))
        \/ \E m \in Mols : Reset(m)
        \/ MoveInPlace
        \/ DensityFit \/ ToOtherSpin \/ \E meth \in BlockedMethods : Unsupported(meth)
Spec == Init /\ [][Next]_vars

\* ------------------------------------------------------------------ properties
TypeOK == /\ ks.decorated => (ni # None /\ ks.fam \in Families)
          /\ grids.cls \in {"Grids", "CiderGrids"}
          /\ (grids.indexer # 0) => (grids.cls = "CiderGrids" /\ grids.content # 0)
\* the integrator, the grid class and the model agree at all times
GridsMatchIntegrator ==
  ks.decorated => /\ ni.fam = ks.fam /\ ni.cls = IntegratorClass(ks.fam)
                  /\ grids.cls = GridsClass(ks.fam)
\* the user's grid settings survive decoration and every model swap
AttrsPreserved ==
  [][(\E f \in Families : Decorate(f) \/ SetMlxc(f)) => (grids'.level = grids.level /\ grids'.scheme = grids.scheme)]_vars
\* a model swap always starts from an integrator without generators
SwapStartsClean == [][(\E f \in Families : SetMlxc(f)) => (ni'.gen = None /\ ni'.sdmx = None /\ ni'.oid # ni.oid)]_vars
\* EVERY evaluation used generators derived from the current molecule, spin count and GRID CONTENT
GeneratorCurrent ==
  (last # None /\ HasNLDF(last.fam)) =>
      /\ last.gen # None /\ last.gen.mol = last.mol /\ last.gen.nspin = last.ns
      /\ last.gen.content = last.content
      /\ last.gen.molgeom = last.molgeom        \* (the NLDF generator holds atom-centred tables; the SDMX generator reads the live molecule)
SDMXCurrent ==
  (last # None /\ HasSDMX(last.fam)) => (last.sdmx # None /\ last.sdmx.mol = last.mol /\ last.sdmx.nspin = last.ns)
NoGeneratorAfterReset == [][(\E m \in Mols : Reset(m)) => (ni'.gen = None /\ ni'.sdmx = None /\ grids'.content = 0)]_vars
NoGeneratorAfterBuild == [][(\E wm \in BOOLEAN : Build(wm)) => (ni'.gen = None /\ ni'.sdmx = None)]_vars
\* a generator is only re-created when something it depends on changed (no needless rebuild in an SCF loop)
NoNeedlessRebuild ==
  [][\A ns \in 1..2 : (NrCall(ns) /\ err' = "ok" /\ ni.gen # None /\ HasNLDF(ni.fam) /\ ni.gen.nspin = ns
                        /\ ni.mol = ks.mol /\ ni.gridsoid = grids.oid /\ ni.gen.indexer = grids.indexer) => ni'.gen = ni.gen]_vars
=============================================================================
