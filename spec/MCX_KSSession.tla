---- MODULE MCX_KSSession ----
(* Exhaustive witness emitter.  Random simulation rarely produces the behaviours the evaluation oracle lives on
   (two successful evaluations on the same objects with a particular set of operations in between), so they are
   enumerated instead: the state is extended with `gap` (the operations since the last successful evaluation) and
   `nev` (number of successful evaluations), the history is hidden from the fingerprint by the VIEW, and every
   distinct (state, gap, nev) reached by a successful evaluation prints the history that first reached it --
   a genuine behaviour of the specification.  The harness selects a cover over (family, spin count, gap, first/later). *)
EXTENDS MCH_KSSession
VARIABLES gap, nev
XInit == HInit /\ gap = {} /\ nev = 0
Ops == \/ \E sp \in {"R", "U"}, l \in Levels, s \in Schemes : Configure(sp, l, s) /\ Rec(<<"configure", sp, l, s>>)
       \/ \E f \in Families : Decorate(f) /\ Rec(<<"decorate", f>>)
       \/ \E f \in Families : SetMlxc(f) /\ Rec(<<"set_mlxc", f>>)
       \/ \E l \in Levels, s \in Schemes : SetGridAttr(l, s) /\ Rec(<<"grid_attr", l, s>>)
       \/ \E wm \in BOOLEAN : Build(wm) /\ Rec(<<"build", wm>>)
       \/ InitGrids /\ Rec(<<"init_grids">>)
       \/ \E m \in Mols : Reset(m) /\ Rec(<<"reset", m>>)
       \/ MoveInPlace /\ Rec(<<"move_in_place">>)
       \/ DensityFit /\ Rec(<<"density_fit">>)
       \/ ToOtherSpin /\ Rec(<<"to_other_spin">>)
XNext == \/ Ops /\ gap' = gap \cup {hist'[Len(hist')][1]} /\ UNCHANGED nev
         \/ /\ NrCall(NSpin(ks.spin)) /\ Rec(<<"nr_call", NSpin(ks.spin)>>)
            /\ IF err' = "ok" THEN gap' = {} /\ nev' = nev + 1 ELSE gap' = gap \cup {"nr_call_refused"} /\ UNCHANGED nev
XSpec == XInit /\ [][XNext]_<<vars, hist, gap, nev>>
XView == <<vars, gap, nev>>
JustEvaluated == hist # <<>> /\ hist[Len(hist)][1] = "nr_call" /\ err = "ok"
EmitWitness == (JustEvaluated /\ nev <= 2) => PrintT(<<"SESSION_WITNESS", nev, hist>>)
XBound == nev <= 2
====
