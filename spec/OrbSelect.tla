----------------------------- MODULE OrbSelect -----------------------------
(* Which orbital does a training-data request mean?   (ciderpress/pyscf/descriptors.py: get_labels_and_coeffs,
   _get_labels_and_coeffs, unpack_feature_derivs, unpack_eigvals; ciderpress/pyscf/analyzers.py: calculate_vxc_on_mo)

   The training pipeline asks for derivatives of the features (and of XC energies) with respect to the OCCUPATION of
   single orbitals.  A request names orbitals relative to the frontier: ("O", k) is the k-th orbital counting DOWN from the
   highest occupied one, ("U", k) the k-th counting UP from the lowest unoccupied one, ("B", k) the k-th from the bottom
   (docstring of get_descriptors).  For a spin-polarised solution the request is either one dictionary per spin channel
   (orbitals counted inside the channel) or ONE dictionary (orbitals counted over the merged set of spin-orbitals ordered
   by energy); in the merged case every answer carries the spin channel it belongs to.

   The implementation builds, per spin channel, three parallel lists (labels, orbital coefficients, orbital energies);
   the feature generators then return one derivative array per COEFFICIENT, in list order, and unpack_feature_derivs pairs
   derivative n with label n.  So two things must hold: each label denotes the right spin-orbital, and the n-th
   coefficient handed to the generators of channel s is the orbital of the n-th label of channel s.

   The module transcribes the selection loop (filter by occupation, order, index, append to the list of the orbital's spin
   channel) as a step-by-step process over a nondeterministically chosen solution and request, and states what the
   request MEANS independently of the loop (invariants below).  TLC checks every solution with NOrb orbitals per channel
   (every occupation pattern, not only aufbau; every interleaving of the two channels' energies) and every request of at
   most MaxReq labels.  The cases TLC prints (ORBCASE) are replayed on the real get_labels_and_coeffs with tagged
   coefficient vectors by harness/orbsel.py; the numerical meaning of a label (the derivative array returned for it is
   the derivative of the features with respect to the occupation of THAT spin-orbital) is checked there by finite
   differences on real SCF solutions.

   Negative controls (switches): AscendingO -- "O" counted upwards from the lowest occupied orbital;
   SpinBlind -- in the merged case every label is appended to channel 0's lists. *)
EXTENDS Integers, Sequences, FiniteSets, TLC
CONSTANTS NOrb,        \* orbitals per spin channel
          MaxReq,      \* labels per request
          Layouts,     \* subset of {"restricted", "perspin", "merged"}
          AscendingO, SpinBlind
VARIABLES sol,     \* [layout, occ: [Chan -> [1..NOrb -> BOOLEAN]], rank: [Chan -> [1..NOrb -> 1..2*NOrb]]]
          req,     \* [Chan or "all" -> sequence of <<key, k>>]: for "perspin" one sequence per channel, otherwise under "all"
          todo,    \* what is left of the request being processed: sequence of <<scope, key, k>>
          lists,   \* [Chan -> sequence of [label: <<key,k>>, so: <<chan, i>>]]: the parallel lists of one channel
          err
vars == <<sol, req, todo, lists, err>>
Chan == {0, 1}
Keys == {"O", "U", "B"}
Chans(layout) == IF layout = "restricted" THEN {0} ELSE Chan
SO(layout) == Chans(layout) \X (1..NOrb)
\* energies: strictly increasing inside a channel; the two channels interleave arbitrarily (no exact ties: a tie is an
\* orbital the request cannot tell apart, see harness)
RankOK(layout, rank) ==
  /\ \A c \in Chans(layout) : \A i \in 1..(NOrb - 1) : rank[c][i] < rank[c][i + 1]
  /\ \A a, b \in SO(layout) : a # b => rank[a[1]][a[2]] # rank[b[1]][b[2]]
  /\ layout = "restricted" => \A i \in 1..NOrb : rank[0][i] = i
AllSolutions ==
  {s \in [layout : Layouts, occ : [Chan -> [1..NOrb -> BOOLEAN]], rank : [Chan -> [1..NOrb -> 1..(2 * NOrb)]]] :
      /\ RankOK(s.layout, s.rank)
      /\ s.layout = "restricted" => (s.occ[1] = s.occ[0] /\ s.rank[1] = s.rank[0])}
Solutions == AllSolutions      \* (a configuration may substitute a subset)
Label == Keys \X (0..(NOrb - 1))
\* a dictionary: keys in insertion order, each key once, indices of one key distinct -> a sequence of distinct labels in
\* which the labels of one key are contiguous
Contig(q) == \A i, j \in 1..Len(q) : (i < j /\ q[i][1] = q[j][1]) => \A m \in i..j : q[m][1] = q[i][1]
Distinct(q) == \A i, j \in 1..Len(q) : i # j => q[i] # q[j]
Dicts == UNION {{q \in [1..n -> Label] : Contig(q) /\ Distinct(q)} : n \in 0..MaxReq}
\* ---------------------------------------------------------------- the selection loop, as the code runs it
\* scope: the set of spin-orbitals one dictionary counts over
ALL == 2     \* scope of a merged / restricted dictionary (scopes 0 and 1 are the channels of a per-spin request)
Scope(sc) == IF sc = ALL THEN SO(sol.layout) ELSE {so \in SO(sol.layout) : so[1] = sc}
Rk(so) == sol.rank[so[1]][so[2]]
Occd(so) == sol.occ[so[1]][so[2]]
\* ascending list of a set of spin-orbitals by energy
RECURSIVE Asc(_)
Asc(S) == IF S = {} THEN <<>> ELSE LET m == CHOOSE x \in S : \A y \in S : Rk(x) <= Rk(y) IN <<m>> \o Asc(S \ {m})
Rev(q) == [i \in 1..Len(q) |-> q[Len(q) + 1 - i]]
Pool(sc, key) ==
  CASE key = "O" -> IF AscendingO THEN Asc({so \in Scope(sc) : Occd(so)}) ELSE Rev(Asc({so \in Scope(sc) : Occd(so)}))
    [] key = "U" -> Asc({so \in Scope(sc) : ~Occd(so)})
    [] OTHER     -> Asc(Scope(sc))
Init ==
  /\ sol \in Solutions
  /\ req \in IF sol.layout = "perspin" THEN [Chan -> Dicts] ELSE [{"all"} -> Dicts]
  /\ (sol.layout = "perspin" => Len(req[0]) + Len(req[1]) <= MaxReq)
  /\ todo = IF sol.layout = "perspin"
              THEN [i \in 1..Len(req[0]) |-> <<0, req[0][i][1], req[0][i][2]>>] \o [i \in 1..Len(req[1]) |-> <<1, req[1][i][1], req[1][i][2]>>]
              ELSE [i \in 1..Len(req["all"]) |-> <<ALL, req["all"][i][1], req["all"][i][2]>>]
  /\ lists = [c \in Chan |-> <<>>]
  /\ err = "ok"
\* one label: look it up in its pool; an index beyond the pool is an IndexError (nothing is returned for the request)
Select ==
  /\ todo # <<>> /\ err = "ok"
  /\ LET t == Head(todo)
         pool == Pool(t[1], t[2])
     IN IF t[3] + 1 > Len(pool)
          THEN err' = "IndexError" /\ UNCHANGED lists
          ELSE LET so == pool[t[3] + 1]
                   c == IF SpinBlind THEN 0 ELSE so[1]
               IN /\ lists' = [lists EXCEPT ![c] = Append(@, [label |-> <<t[2], t[3]>>, scope |-> t[1], so |-> so])]
                  /\ err' = "ok"
  /\ todo' = Tail(todo) /\ UNCHANGED <<sol, req>>
Done == (todo = <<>> \/ err # "ok") /\ UNCHANGED vars
Next == Select \/ Done
Spec == Init /\ [][Next]_vars
\* ---------------------------------------------------------------- what a request means (independent of the loop)
Entries == {e \in UNION {{lists[c][n] : n \in 1..Len(lists[c])} : c \in Chan} : TRUE}
InScope(e) == e.so \in Scope(e.scope)
\* "O": occupied, and exactly k occupied orbitals of the scope lie above it
OMeaning == \A e \in Entries : e.label[1] = "O" =>
              /\ InScope(e) /\ Occd(e.so)
              /\ Cardinality({x \in Scope(e.scope) : Occd(x) /\ Rk(x) > Rk(e.so)}) = e.label[2]
\* "U": unoccupied, and exactly k unoccupied orbitals of the scope lie below it
UMeaning == \A e \in Entries : e.label[1] = "U" =>
              /\ InScope(e) /\ ~Occd(e.so)
              /\ Cardinality({x \in Scope(e.scope) : ~Occd(x) /\ Rk(x) < Rk(e.so)}) = e.label[2]
\* "B": exactly k orbitals of the scope lie below it
BMeaning == \A e \in Entries : e.label[1] = "B" =>
              /\ InScope(e) /\ Cardinality({x \in Scope(e.scope) : Rk(x) < Rk(e.so)}) = e.label[2]
\* the derivative arrays of channel c are computed from channel c's density: an entry sits in the lists of ITS channel
ChannelOfItsOrbital == \A c \in Chan : \A n \in 1..Len(lists[c]) : lists[c][n].so[1] = c
\* within one dictionary distinct labels denote distinct orbitals (nothing is computed twice under two names of one key)
DistinctOrbitalsPerKey == \A c \in Chan : \A m, n \in 1..Len(lists[c]) :
     (m # n /\ lists[c][m].scope = lists[c][n].scope /\ lists[c][m].label[1] = lists[c][n].label[1]) => lists[c][m].so # lists[c][n].so
\* an index the pool does not have is refused, and only then
RefusedIffOutOfRange ==
  (todo = <<>> /\ err = "ok") => Len(lists[0]) + Len(lists[1]) =
        (IF sol.layout = "perspin" THEN Len(req[0]) + Len(req[1]) ELSE Len(req["all"]))
\* restricted: channel 1 is never used
RestrictedOneChannel == sol.layout = "restricted" => lists[1] = <<>>
TypeOK == err \in {"ok", "IndexError"}
\* ---------------------------------------------------------------- emission of the finished cases
Finished == todo = <<>> \/ err # "ok"
Emit == Finished => PrintT(<<"ORBCASE", sol.layout, <<sol.occ[0], sol.occ[1]>>, <<sol.rank[0], sol.rank[1]>>,
                             IF sol.layout = "perspin" THEN <<req[0], req[1]>> ELSE <<req["all"]>>,
                             err, <<[n \in 1..Len(lists[0]) |-> <<lists[0][n].label, lists[0][n].so>>],
                                    [n \in 1..Len(lists[1]) |-> <<lists[1][n].label, lists[1][n].so>>]>>>>)
=============================================================================
