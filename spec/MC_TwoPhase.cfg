SPECIFICATION Spec
CONSTANTS
  Inputs = {"A", "B"}
  MaxLen = 4
  StashBug = FALSE
INVARIANT DerivFromOwnArgument
INVARIANT Emit
