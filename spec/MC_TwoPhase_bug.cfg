SPECIFICATION Spec
CONSTANTS
  Inputs = {"A", "B"}
  MaxLen = 4
  StashBug = TRUE
INVARIANT DerivFromOwnArgument
