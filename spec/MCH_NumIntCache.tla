---- MODULE MCH_NumIntCache ----
(* History generator: the design-level spec plus a history variable recording the top-level
   operations; used with `tlc -simulate` to produce call histories that the harness replays on
   the real integrators (harness/c09.py). *)
EXTENDS MC_NumIntCache
VARIABLE hist
HInit == Init /\ hist = <<>>
HNext == \/ \E m \in Mol : /\ ncalls < MaxCalls /\ (IF hist = <<>> THEN TRUE ELSE hist[Len(hist)][1] # "reset")
                            /\ Reset(m) /\ hist' = Append(hist, <<"reset", m>>)
         \/ \E nspin \in 1..2, m \in Mol, g \in Grid, nb \in 1..MaxBlk :
              \E dms \in Batches(nspin) :
                 NrBegin(nspin, dms, m, g, nb) /\ hist' = Append(hist, <<"call", nspin, dms, m, g, nb>>)
         \/ (FeaturePass \/ XCBlock \/ PotentialPass \/ NrEnd \/ Return) /\ UNCHANGED hist
HSpec == HInit /\ [][HNext]_<<vars, hist>>
Emit == (pc = Idle /\ ncalls = MaxCalls) => PrintT(<<"HIST", hist>>)
====
