SPECIFICATION HSpec
CONSTANTS
  Families <- MCFamilies
  Mols <- MCMols
  Levels <- MCLevels
  Schemes <- MCSchemes
  MaxSteps = 12
  StaleGridBug = FALSE
CONSTRAINT Useful
INVARIANT EmitHist
INVARIANT GeneratorCurrent
