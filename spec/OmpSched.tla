------------------------------- MODULE OmpSched -------------------------------
(* OpenMP worksharing as the C back end uses it (lib/mod_cider/*.c, numint_cider/nr_numint.c).
   Threads 0..T-1 execute iterations 0..N-1 of a parallel region at read / write granularity;
   shared memory cells hold BAGS of symbolic contributions, so "the result equals the sequential
   one" is equality of bags.  Region classes found in the code:
     "disjoint"  omp for, iteration i writes only cell i                     (most loops)
     "manual"    omp for over thread ids; thread t handles the block
                 [blk*t, min(blk*t+blk, N)) with blk = ceil(N/T)              (fast_sdmx.c x6)
     "scratch"   manual block + per-thread scratch row t of a T-row table,
                 combined afterwards                                          (contract_grad_terms_parallel)
     "critical"  iterations accumulate into shared cells under omp critical   (add_lp1_term_grad)
     "reduction" omp for reduction(+)
     "unsync"    NEGATIVE CONTROL: read-modify-write of a shared cell in two steps without protection
   Schedule: any assignment of iterations to threads that the schedule kind allows (static blocks,
   or dynamic = arbitrary), any interleaving. *)
EXTENDS Integers, Sequences, FiniteSets, TLC
CONSTANTS T, N, Kind, NCells
VARIABLES owner,    \* iteration -> thread executing it (chosen by the schedule)
          todo,     \* iterations not yet executed
          tmp,      \* per-thread register holding a value read from memory (or <<>>)
          cur,      \* per-thread iteration in flight (or -1)
          mem,      \* shared cell -> set of contributions
          scratch,  \* thread -> cell -> set of contributions (private rows)
          lock, phase
vars == <<owner, todo, tmp, cur, mem, scratch, lock, phase>>
Threads == 0..(T - 1)
Iters == 0..(N - 1)
Cell(i) == IF Kind = "disjoint" \/ Kind = "manual" THEN i ELSE i % NCells
Cells == IF Kind = "disjoint" \/ Kind = "manual" THEN Iters ELSE 0..(NCells - 1)
\* ---- the manual block partition, exactly as written in the C code
Ceil(a, b) == (a + b - 1) \div b
Min(a, b) == IF a < b THEN a ELSE b
BlockLo(t) == Ceil(N, T) * t
BlockHi(t) == Min(BlockLo(t) + Ceil(N, T), N)           \* may be < BlockLo(t): empty block
ManualOwner(i) == CHOOSE t \in Threads : BlockLo(t) <= i /\ i < BlockHi(t)
StaticOwner(i) == IF N = 0 THEN 0 ELSE Min(i \div Ceil(N, T), T - 1)
Schedules == IF Kind \in {"manual", "scratch"} THEN {[i \in Iters |-> ManualOwner(i)]}
             ELSE [Iters -> Threads]                    \* dynamic / guided / static: any assignment
Init == /\ owner \in Schedules /\ todo = Iters /\ tmp = [t \in Threads |-> <<>>] /\ cur = [t \in Threads |-> -1]
        /\ mem = [c \in Cells |-> {}] /\ scratch = [t \in Threads |-> [c \in Cells |-> {}]] /\ lock = -1 /\ phase = "loop"
\* atomic per-iteration write (disjoint / manual)
WriteOwn(t, i) == /\ phase = "loop" /\ i \in todo /\ owner[i] = t /\ Kind \in {"disjoint", "manual"}
                  /\ mem' = [mem EXCEPT ![Cell(i)] = @ \cup {i}] /\ todo' = todo \ {i}
                  /\ UNCHANGED <<owner, tmp, cur, scratch, lock, phase>>
\* accumulate into the thread's private row (scratch, reduction)
AccPrivate(t, i) == /\ phase = "loop" /\ i \in todo /\ owner[i] = t /\ Kind \in {"scratch", "reduction"}
                    /\ scratch' = [scratch EXCEPT ![t][Cell(i)] = @ \cup {i}] /\ todo' = todo \ {i}
                    /\ UNCHANGED <<owner, tmp, cur, mem, lock, phase>>
\* after the barrier: combine the private rows (one atomic step per cell; reduction semantics)
Barrier == phase = "loop" /\ todo = {} /\ Kind \in {"scratch", "reduction"} /\ phase' = "combine"
           /\ UNCHANGED <<owner, todo, tmp, cur, mem, scratch, lock>>
Combine(c) == /\ phase = "combine" /\ mem[c] = {} /\ (UNION {scratch[t][c] : t \in Threads}) # {}
              /\ mem' = [mem EXCEPT ![c] = UNION {scratch[t][c] : t \in Threads}]
              /\ UNCHANGED <<owner, todo, tmp, cur, scratch, lock, phase>>
\* read-modify-write of a shared cell in two steps; under `critical` the lock is held across both
Read(t, i) == /\ phase = "loop" /\ i \in todo /\ owner[i] = t /\ cur[t] = -1 /\ Kind \in {"critical", "unsync"}
              /\ (Kind = "critical" => lock = -1)
              /\ lock' = IF Kind = "critical" THEN t ELSE lock
              /\ tmp' = [tmp EXCEPT ![t] = mem[Cell(i)]] /\ cur' = [cur EXCEPT ![t] = i]
              /\ UNCHANGED <<owner, todo, mem, scratch, phase>>
Write(t) == /\ cur[t] # -1
            /\ mem' = [mem EXCEPT ![Cell(cur[t])] = tmp[t] \cup {cur[t]}]
            /\ todo' = todo \ {cur[t]} /\ cur' = [cur EXCEPT ![t] = -1] /\ tmp' = [tmp EXCEPT ![t] = <<>>]
            /\ lock' = IF Kind = "critical" THEN -1 ELSE lock
            /\ UNCHANGED <<owner, scratch, phase>>
Next == \/ \E t \in Threads, i \in Iters : WriteOwn(t, i) \/ AccPrivate(t, i) \/ Read(t, i)
        \/ \E t \in Threads : Write(t)
        \/ Barrier \/ \E c \in Cells : Combine(c)
Spec == Init /\ [][Next]_vars
\* ---- properties
Done == /\ todo = {} /\ \A t \in Threads : cur[t] = -1
        /\ (Kind \in {"scratch", "reduction"} =>
               phase = "combine" /\ \A c \in Cells : mem[c] = UNION {scratch[u][c] : u \in Threads})
\* the parallel result is the sequential one, whatever the schedule and interleaving
FinalIsSequential == Done => \A c \in Cells : mem[c] = {i \in Iters : Cell(i) = c}
\* every iteration belongs to exactly one thread's block (manual partitions tile 0..N-1)
ManualTiles == Kind \in {"manual", "scratch"} =>
    /\ \A i \in Iters : Cardinality({t \in Threads : BlockLo(t) <= i /\ i < BlockHi(t)}) = 1
    /\ \A t \in Threads : BlockHi(t) <= N
\* a thread only ever touches its own scratch row, which exists (row index < T)
ScratchPrivate == \A t \in Threads, c \in Cells : scratch[t][c] \subseteq {i \in Iters : owner[i] = t}
MutualExclusion == Kind = "critical" => Cardinality({t \in Threads : cur[t] # -1}) <= 1
=============================================================================
