SPECIFICATION XSpec
CONSTANTS
  Families <- MCFamilies
  Mols <- MCMols
  Levels <- MCLevels
  Schemes <- MCSchemes
  MaxSteps = 8
  StaleGridBug = FALSE
VIEW XView
CONSTRAINT XBound
INVARIANT EmitWitness
INVARIANT GeneratorCurrent
INVARIANT SDMXCurrent
