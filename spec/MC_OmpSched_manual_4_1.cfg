SPECIFICATION Spec
CONSTANTS
  T = 4
  N = 1
  Kind = "manual"
  NCells = 2
INVARIANT FinalIsSequential
INVARIANT ManualTiles
INVARIANT ScratchPrivate
INVARIANT MutualExclusion
