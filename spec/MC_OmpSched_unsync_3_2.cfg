SPECIFICATION Spec
CONSTANTS
  T = 3
  N = 2
  Kind = "unsync"
  NCells = 2
INVARIANT FinalIsSequential
INVARIANT ManualTiles
INVARIANT ScratchPrivate
INVARIANT MutualExclusion
