SPECIFICATION Spec
CONSTANTS
  Configs <- FullConfigs
  MaxCalls <- Two
INVARIANT InBounds
INVARIANT NoAliasing
INVARIANT Agreement
INVARIANT InPlaceViews
INVARIANT Correct
INVARIANT ShapesCover
