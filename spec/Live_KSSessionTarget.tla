---- MODULE Live_KSSessionTarget ----
\* placeholder: the harness generates this module (the behaviours selected for replay) in its staged copy of spec/
Target == << <<>> >>
====
