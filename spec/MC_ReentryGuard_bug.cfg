SPECIFICATION Spec
CONSTANTS
  Methods = {"call", "diag", "k_and_deriv"}
  MaxCalls = 4
  ReleaseOnError = FALSE
INVARIANT SelectedOnce
INVARIANT IdleUnlocked
INVARIANT NestedGuarded
INVARIANT Emit
