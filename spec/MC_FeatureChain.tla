---- MODULE MC_FeatureChain ----
(* Case space of C02 over the live spec-name lists (Live_FeatureChain is generated at run time by
   harness/c02.py from the working tree).  Version j carries every J spec, version i every l=0 and
   l=1 spec with all five documented contractions (vector.vector, vector.grad n).  rep = TRUE appends every J spec a
   SECOND time: a feature is a (kernel spec, parameter set) pair, the harness gives the second occurrence different
   parameters, and each occurrence must reproduce the documented integral for ITS parameters. *)
EXTENDS FeatureChain, Live_FeatureChain
Empty == <<>>
Head2(s) == IF Len(s) >= 2 THEN SubSeq(s, 1, 2) ELSE s
JS(v, rep) == CASE v = "j" -> (IF rep THEN LiveJSeq \o LiveJSeq ELSE LiveJSeq)
                 [] v = "ij" -> (IF rep THEN Head2(LiveJSeq) \o Head2(LiveJSeq) ELSE Head2(LiveJSeq))
                 [] v = "k" -> <<"se", "se">> [] OTHER -> <<>>
L0(v) == CASE v = "i" -> LiveI0Seq [] v = "ij" -> Head2(LiveI0Seq) [] OTHER -> <<>>
L1(v) == CASE v = "i" -> LiveI1Seq [] v = "ij" -> <<LiveI1Seq[1]>> [] OTHER -> <<>>
Dots(v) == CASE v = "i" -> <<<<0, 0>>, <<-1, 0>>, <<0, 1>>, <<-1, 1>>, <<1, 1>>>> [] v = "ij" -> <<<<0, 0>>, <<-1, 0>>>> [] OTHER -> <<>>
CaseSpace == {[ver |-> v, level |-> lv, mult |-> mu, plan |-> p, ladder |-> la, interp |-> it, spin |-> sp,
               rep |-> rp, jspecs |-> JS(v, rp), l0 |-> L0(v), l1 |-> L1(v), dots |-> Dots(v)] :
              v \in {"j", "i", "ij", "k"}, lv \in {"GGA", "MGGA"}, mu \in {"one", "expnt"}, p \in {"gaussian", "spline"},
              la \in {"etb", "zexp"}, it \in {"onsite_direct", "onsite_spline", "train_gen"}, sp \in {"restricted", "perspin"},
              rp \in BOOLEAN}
====
