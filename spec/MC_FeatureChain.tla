---- MODULE MC_FeatureChain ----
(* Case space of C02 over the live spec-name lists (Live_FeatureChain is generated at run time by
   harness/c02.py from the working tree).  Version j carries every J spec, version i every l=0 and
   l=1 spec with all five documented contractions (vector.vector, vector.grad n). *)
EXTENDS FeatureChain, Live_FeatureChain
Empty == <<>>
Head2(s) == IF Len(s) >= 2 THEN SubSeq(s, 1, 2) ELSE s
JS(v) == CASE v = "j" -> LiveJSeq [] v = "ij" -> Head2(LiveJSeq) [] v = "k" -> <<"se", "se">> [] OTHER -> <<>>
L0(v) == CASE v = "i" -> LiveI0Seq [] v = "ij" -> Head2(LiveI0Seq) [] OTHER -> <<>>
L1(v) == CASE v = "i" -> LiveI1Seq [] v = "ij" -> <<LiveI1Seq[1]>> [] OTHER -> <<>>
Dots(v) == CASE v = "i" -> <<<<0, 0>>, <<-1, 0>>, <<0, 1>>, <<-1, 1>>, <<1, 1>>>> [] v = "ij" -> <<<<0, 0>>, <<-1, 0>>>> [] OTHER -> <<>>
CaseSpace == {[ver |-> v, level |-> lv, mult |-> mu, plan |-> p, ladder |-> la, interp |-> it, spin |-> sp,
               jspecs |-> JS(v), l0 |-> L0(v), l1 |-> L1(v), dots |-> Dots(v)] :
              v \in {"j", "i", "ij", "k"}, lv \in {"GGA", "MGGA"}, mu \in {"one", "expnt"}, p \in {"gaussian", "spline"},
              la \in {"etb", "zexp"}, it \in {"onsite_direct", "onsite_spline", "train_gen"}, sp \in {"restricted", "perspin"}}
====
