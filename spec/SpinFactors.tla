------------------------------ MODULE SpinFactors ------------------------------
(* Spin scaling.  The unpolarised path sees the total density n, the polarised path the channel
   densities n_s, and every layer converts a channel quantity Q[n_s] into the quantity the
   unpolarised formula would give for the density 2 n_s (so that E[n_up, n_dn] = (E[2 n_up] +
   E[2 n_dn]) / 2 and E_pol[n/2, n/2] = E_unpol[n]).  A quantity that is homogeneous of degree d
   in the density needs the factor nspin^d.  Exponents are kept in THIRDS (degree * 3) so that
   the 2/3 powers are integers.  `Code` transcribes the factor each layer applies:
     plans.py  _fill_feat_*            n * nspin, sigma * nspin^2, tau * nspin, s2 and alpha / nspin^(2/3)
     settings.py get_cider_exponent    prefactor pi (nspin = 2) instead of pi / 2^(2/3)
     plans.py  eval_rho_full           feat *= nspin ; eval_rho_vi_: dot features *= nspin once more
     plans.py  SDMX plans              quadratic in the density matrix: nspin^2 (with the -1/4) *)
EXTENDS Integers, FiniteSets, TLC
Quantities == {"n", "sigma", "tau", "s2", "alpha", "exponent", "nldf_l0", "nldf_l0_expnt", "nldf_dot", "nldf_dot_expnt",
               "sdmx", "fl_scalar", "fl_dot", "rhocut_per_spin"}
\* homogeneity degree in the density (x3)
Degree3 == [n |-> 3, sigma |-> 6, tau |-> 3, s2 |-> -2, alpha |-> -2, exponent |-> 2,
            nldf_l0 |-> 3, nldf_l0_expnt |-> 5, nldf_dot |-> 6, nldf_dot_expnt |-> 10,
            sdmx |-> 6, fl_scalar |-> 3, fl_dot |-> 6, rhocut_per_spin |-> -3]
\* what the code applies, as (explicit factor) + (what the quantities it is built from already carry)
Code3 == [n |-> 3, sigma |-> 6, tau |-> 3, s2 |-> -2, alpha |-> -2,
          exponent |-> 2,                                   \* B(nspin=2)/B(nspin=1) = 2^(2/3)
          nldf_l0 |-> 3,                                    \* feat *= nspin
          nldf_l0_expnt |-> 3 + 2,                          \* feat *= nspin, integrand carries one exponent
          nldf_dot |-> 3 + 3,                               \* feat *= nspin and feat[i] *= nspin
          nldf_dot_expnt |-> 3 + 3 + 2 + 2,                 \* each vector integral carries one exponent
          sdmx |-> 6, fl_scalar |-> 3, fl_dot |-> 6,
          rhocut_per_spin |-> -3]                           \* plan.rhocut = rhocut / nspin
VARIABLE q
Init == q \in Quantities
Next == q' \in Quantities
Spec == Init /\ [][Next]_q
FactorsMatch == Code3[q] = Degree3[q]
================================================================================
