----------------------------- MODULE GradDispatch -----------------------------
(* Which nuclear-gradient calculations the code supports, transcribed from the guards of
   pyscf/dft.py (nuc_grad_method), rks_grad.py and uks_grad.py:
     nuc_grad_method picks  (RKS | UKS) x (density fitting on | off)  ->  one of four classes
     get_vxc / get_vxc_nldf / *_full_response raise NotImplementedError when the functional has
     SDMX features (or fractional-Laplacian features); everything else is supported, with or
     without the grid-response terms.  The VV10 nonlocal-correlation term (ks.nlc = "vv10") is an additive part of the
     energy with its own grid (nlcgrids) and its own fixed-grid / grid-response force routines; it is crossed with
     the representative families (NlcFamilies).
   The protocol of a gradient calculation: SCF must have converged before the gradient object is
   asked; an unsupported combination must be refused BEFORE any number is returned. *)
EXTENDS Integers, FiniteSets, TLC
CONSTANTS Families, Interps, NlcFamilies
VARIABLES cfg, stage, outcome
vars == <<cfg, stage, outcome>>
Cfgs == [spin : {"R", "U"}, df : BOOLEAN, fam : Families, grid_response : BOOLEAN, interp : Interps, nlc : BOOLEAN]
HasSDMX(f) == f \in {"sdmx", "nldf_j+sdmx"}
HasNLDF(f) == f \in {"nldf_j", "nldf_i", "nldf_ij", "nldf_k", "nldf_j+sdmx"}
Relevant(c) == /\ (HasNLDF(c.fam) \/ c.interp = "onsite_direct")        \* the interpolator only matters with NLDFs
               /\ (c.nlc => (c.fam \in NlcFamilies /\ c.interp = "onsite_direct"))
Supported(c) == ~HasSDMX(c.fam)
GradClass(c) == <<IF c.spin = "R" THEN "rks_grad" ELSE "uks_grad", IF c.df THEN "DFGradients" ELSE "Gradients">>
Init == cfg = <<>> /\ stage = "none" /\ outcome = <<>>
Pick(c) == cfg = <<>> /\ Relevant(c) /\ cfg' = c /\ stage' = "scf" /\ outcome' = <<>>
Converge == stage = "scf" /\ stage' = "converged" /\ UNCHANGED <<cfg, outcome>>
AskGradient == /\ stage = "converged"
               /\ outcome' = IF Supported(cfg) THEN [kind |-> "forces", cls |-> GradClass(cfg)]
                             ELSE [kind |-> "NotImplementedError", cls |-> GradClass(cfg)]
               /\ stage' = "done" /\ UNCHANGED cfg
Next == (\E c \in Cfgs : Pick(c)) \/ Converge \/ AskGradient
Spec == Init /\ [][Next]_vars
\* never numbers for an unsupported combination; the class always matches (spin, density fitting)
NoNumbersWhenUnsupported == stage = "done" => (outcome.kind = "forces" <=> Supported(cfg))
GradientOnlyAfterSCF == [][AskGradient => stage = "converged"]_vars
Emit == stage = "done" => PrintT(<<"GRADROW", cfg, outcome>>)
=============================================================================
