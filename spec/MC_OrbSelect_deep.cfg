SPECIFICATION Spec
CONSTANTS
  NOrb = 3
  MaxReq = 3
  Layouts <- AllLayouts
  AscendingO = FALSE
  SpinBlind = FALSE
INVARIANT TypeOK
INVARIANT OMeaning
INVARIANT UMeaning
INVARIANT BMeaning
INVARIANT ChannelOfItsOrbital
INVARIANT DistinctOrbitalsPerKey
INVARIANT RefusedIffOutOfRange
INVARIANT RestrictedOneChannel
CHECK_DEADLOCK FALSE
