SPECIFICATION TSpec
INVARIANT EveryThreadReported
INVARIANT BlocksTile
INVARIANT BlocksInRange
POSTCONDITION Accepted
CHECK_DEADLOCK FALSE
