SPECIFICATION Spec
CONSTANTS
  T = 2
  N = 0
  Kind = "manual"
  NCells = 2
INVARIANT FinalIsSequential
INVARIANT ManualTiles
INVARIANT ScratchPrivate
INVARIANT MutualExclusion
