SPECIFICATION Spec
CONSTANTS
  T = 2
  N = 3
  Kind = "unsync"
  NCells = 2
INVARIANT FinalIsSequential
INVARIANT ManualTiles
INVARIANT ScratchPrivate
INVARIANT MutualExclusion
