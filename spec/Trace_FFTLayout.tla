---- MODULE Trace_FFTLayout ----
(* Trace validation for FFTLayout: every record is one real FFTWrapper observed on the
   implementation by integer-tag probing (harness/c20.py):
     cfg    the constructor arguments
     plan   the fft_plan_t fields read through a ctypes mirror + the byte sizes malloc'ed
     w, r   where write_fft_input put user element k / where read_fft_output fetched element k
     fin, fout  the offsets the FFTW reference shim actually read / wrote, in canonical order
   The SAME actions and invariants as the design-level spec are run on the observed maps, so a
   plan is accepted iff symbolic execution of Write/Execute/Read over the observed layout hands
   the user the DFT of the user's own data at the advertised place, twice in a row.
   A DRIFT line is printed for records whose observed layout differs from the layout the specification
   transcribes from the code (not a violation by itself: the property speaks of results). *)
EXTENDS FFTLayout, Json, IOUtils, TLCExt
Recs == JsonDeserialize(IOEnv.TRACE_FILE)
VARIABLES i
NoConfigs == {}
TwoCalls == 2
tvars == <<vars, i>>
Rec == Recs[i]
RecMaps(rc) == [w |-> rc.w, r |-> rc.r, fin |-> rc.fin, fout |-> rc.fout]
TInit == Init /\ i = 1
TAlloc == /\ i <= Len(Recs)
          /\ AllocWith(Rec.cfg, Rec.plan, RecMaps(Rec))
          /\ IF Rec.plan = CodePlan(Rec.cfg) /\ RecMaps(Rec) = CodeMaps(Rec.cfg, Rec.plan)
             THEN TRUE ELSE PrintT(<<"DRIFT", Rec.id>>)
          /\ i' = i
TStep == (WriteInput \/ Execute \/ ReadOutput) /\ UNCHANGED i
TFree == Free /\ i' = i + 1
TNext == TAlloc \/ TStep \/ TFree
TSpec == TInit /\ [][TNext]_tvars
\* the numeric verdicts recorded for this plan (vs numpy.fft, forward∘backward = N x, repeat
\* call identical, wrongly shaped input rejected) are part of the accepted behaviour
NumericOK == phase # "none" => /\ Rec.num_ok /\ Rec.roundtrip_ok /\ Rec.repeat_ok /\ Rec.reject_ok
\* the wrapper is a function of the VALUES it is given (spec/ValueSemantics.tla): witness histories of that specification
\* (call / caller overwrites its array in place / results held across later calls) were replayed on this plan and every
\* held result stayed the DFT of the content it was requested for
ValueSemanticsOK == phase # "none" => Rec.vs_ok
\* advertised numpy shapes: product is what the wrapper moves, batch axis where it says
ShapesAdvertised == phase # "none" =>
    LET c == Rec.cfg
        ins == IF c.bf THEN <<c.nt>> \o InLogical(c) ELSE InLogical(c) \o <<c.nt>>
        outs == IF c.bf THEN <<c.nt>> \o OutLogical(c) ELSE OutLogical(c) \o <<c.nt>>
    IN Rec.in_shape = ins /\ Rec.out_shape = outs
Accepted == TLCGet("stats").diameter = 8 * Len(Recs) + 1
====
