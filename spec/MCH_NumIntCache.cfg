SPECIFICATION HSpec
CONSTANTS
  d1 = d1
  d2 = d2
  m1 = m1
  m2 = m2
  g1 = g1
  g2 = g2
  DM <- MCDM
  Mol <- MCMol
  Grid <- MCGrid
  MaxSet = 2
  MaxBlk = 2
  MaxCalls = 3
  HasNLDF = TRUE
  HasSDMX = TRUE
  BugF1 = FALSE
  BugF2 = FALSE
INVARIANT Emit
INVARIANT Provenance
