SPECIFICATION Spec
CONSTANTS
  Args <- MCArgs
  Contents <- MCContents
  InitContent <- MCInit
  MaxCalls = 4
  MaxHeld = 3
  MaxLen = 7
  MemoBug = FALSE
  SharedOutBug = FALSE
  InPlaceBug = TRUE
VIEW View
INVARIANT ResultFromCurrentContent
INVARIANT ResultsStable
PROPERTY ArgsUntouched
