--------------------------- MODULE ValueSemantics ---------------------------
(* Callable objects of the library (kernels, evaluators, FFT plans, feature lists, generators) are used as FUNCTIONS
   OF THE VALUES of their array arguments: the caller may reuse, overwrite or slice its arrays between calls and keeps
   earlier results while it makes later calls.  This module states that contract over array OBJECTS (identities) whose
   CONTENT has a version, and gives the three ways an implementation breaks it as switches (negative controls):

     MemoBug       the callee remembers something derived from an argument keyed on the argument's IDENTITY (id, shape)
                   and reuses it although the content changed            -> ResultFromCurrentContent
     SharedOutBug  the callee returns the SAME result object from every call (a preallocated buffer), so a later call
                   overwrites a result the caller still holds            -> ResultsStable
     InPlaceBug    the callee writes into the argument it was given      -> ArgsUntouched
     LazyCtorBug   the object keeps a REFERENCE to a mutable constructor argument (a dims list, an array of
                   parameters) and reads it only at its first call, after the caller has reused that object
                                                                         -> BuiltFromCtorValue

   Actions: Call(a) on argument object a returns a result object; Overwrite(a, c) is the CALLER changing the content of
   its own array in place (a[:] = ...; a finite-difference step a[j] += h; reuse of a work array); Drop(r) forgets a
   held result.  TLC explores all histories within bounds; the histories (variable hist) are replayed on the real
   callables by harness/valuesem.py, which compares every held result after every step with a reference computed by
   a FRESH object from private copies of the argument contents. *)
EXTENDS Integers, Sequences, FiniteSets, TLC
CONSTANTS Args,        \* argument array objects of the caller
          Contents,    \* content versions (symbolic values)
          InitContent, \* [Args -> Contents] at the start
          MaxCalls, MaxHeld, MaxLen,
          MemoBug, SharedOutBug, InPlaceBug, LazyCtorBug
VARIABLES content,   \* [Args -> Contents]: what each caller array holds now
          memo,      \* what the callee remembers: <<>> or [arg, c]
          held,      \* results the caller holds: sequence of [obj, from]  (obj: result object id; from: the content the
                     \*   result was computed from AS THE OBJECT NOW READS)
          want,      \* for each held result, the content it was REQUESTED for (the argument content at call time)
          ctor,      \* content of the caller's constructor-argument object NOW
          built,     \* the constructor-argument content the object under test actually works with ("unread" until it is read)
          early,     \* the constructor argument was overwritten BEFORE the first call (kept in the state so that the
                     \*   breadth-first search keeps a witness history of that kind: it is where lazy construction shows)
          nres, ncalls, hist
vars == <<content, memo, held, want, ctor, built, early, nres, ncalls, hist>>
CtorAtConstruction == CHOOSE c \in Contents : TRUE
Unread == "unread"
None == <<>>
Init == /\ content = InitContent /\ memo = None /\ held = <<>> /\ want = <<>> /\ nres = 0 /\ ncalls = 0
        /\ hist = <<>> /\ ctor = CtorAtConstruction /\ early = FALSE
        /\ built = IF LazyCtorBug THEN Unread ELSE CtorAtConstruction
\* the content the callee actually computes from
Used(a) == IF MemoBug /\ memo # None /\ memo.arg = a THEN memo.c ELSE content[a]
Call(a) ==
  /\ ncalls < MaxCalls /\ Len(held) < MaxHeld /\ Len(hist) < MaxLen
  /\ LET u == Used(a)
         robj == IF SharedOutBug THEN 1 ELSE nres + 1
         \* a shared output object now reads `u` for EVERY holder of that object
         held1 == [i \in 1..Len(held) |-> IF held[i].obj = robj THEN [held[i] EXCEPT !.from = u] ELSE held[i]]
     IN /\ held' = Append(held1, [obj |-> robj, from |-> u])
        /\ want' = Append(want, content[a])
        /\ memo' = [arg |-> a, c |-> u]
        /\ nres' = nres + 1
        /\ content' = IF InPlaceBug THEN [content EXCEPT ![a] = CHOOSE c \in Contents : c # content[a]] ELSE content
  /\ built' = IF built = Unread THEN ctor ELSE built      \* a lazily built object reads the constructor argument NOW
  /\ ncalls' = ncalls + 1 /\ hist' = Append(hist, <<"call", a>>) /\ UNCHANGED <<ctor, early>>
Overwrite(a, c) ==
  /\ c # content[a] /\ ncalls < MaxCalls /\ Len(hist) < MaxLen
  /\ content' = [content EXCEPT ![a] = c] /\ hist' = Append(hist, <<"overwrite", a, c>>)
  /\ UNCHANGED <<memo, held, want, nres, ncalls, ctor, built, early>>
\* the caller reuses the (mutable) object it passed to the constructor: dims.reverse(), params[:] = ...
OverwriteCtor(c) ==
  /\ c # ctor /\ ncalls < MaxCalls /\ Len(hist) < MaxLen
  /\ ctor' = c /\ hist' = Append(hist, <<"overwrite_ctor", c>>) /\ early' = (early \/ ncalls = 0)
  /\ UNCHANGED <<content, memo, held, want, built, nres, ncalls>>
Drop ==
  /\ held # <<>> /\ Len(hist) < MaxLen /\ held' = Tail(held) /\ want' = Tail(want) /\ hist' = Append(hist, <<"drop">>)
  /\ UNCHANGED <<content, memo, nres, ncalls, ctor, built, early>>
Next == (\E a \in Args : Call(a)) \/ (\E a \in Args, c \in Contents : Overwrite(a, c)) \/ Drop
        \/ (\E c \in Contents : OverwriteCtor(c))
Spec == Init /\ [][Next]_vars
\* ---- the contract
\* every result the caller holds reads what it was requested for: computed from the content at call time, and still so
ResultFromCurrentContent == \A i \in 1..Len(held) : i = Len(held) => held[i].from = want[i]
ResultsStable == \A i \in 1..Len(held) : held[i].from = want[i]
ArgsUntouched == [][\A a \in Args : Call(a) => content' = content]_vars
\* the object works with the constructor argument AS IT WAS when the object was constructed
BuiltFromCtorValue == built # Unread => built = CtorAtConstruction
\* what a correct implementation may still do: remember things (memo) as long as it never answers from them wrongly
View == <<content, memo, held, want, ctor, built, early, nres, ncalls>>
Emit == (ncalls = MaxCalls \/ Len(hist) = MaxLen) => PrintT(<<"VS_HIST", hist>>)
=============================================================================
