--------------------------- MODULE ValueSemantics ---------------------------
(* Callable objects of the library (kernels, evaluators, FFT plans, feature lists, generators) are used as FUNCTIONS
   OF THE VALUES of their array arguments: the caller may reuse, overwrite or slice its arrays between calls and keeps
   earlier results while it makes later calls.  This module states that contract over array OBJECTS (identities) whose
   CONTENT has a version, and gives the three ways an implementation breaks it as switches (negative controls):

     MemoBug       the callee remembers something derived from an argument keyed on the argument's IDENTITY (id, shape)
                   and reuses it although the content changed            -> ResultFromCurrentContent
     SharedOutBug  the callee returns the SAME result object from every call (a preallocated buffer), so a later call
                   overwrites a result the caller still holds            -> ResultsStable
     InPlaceBug    the callee writes into the argument it was given      -> ArgsUntouched

   Actions: Call(a) on argument object a returns a result object; Overwrite(a, c) is the CALLER changing the content of
   its own array in place (a[:] = ...; a finite-difference step a[j] += h; reuse of a work array); Drop(r) forgets a
   held result.  TLC explores all histories within bounds; the histories (variable hist) are replayed on the real
   callables by harness/valuesem.py, which compares every held result after every step with a reference computed by
   a FRESH object from private copies of the argument contents. *)
EXTENDS Integers, Sequences, FiniteSets, TLC
CONSTANTS Args,        \* argument array objects of the caller
          Contents,    \* content versions (symbolic values)
          InitContent, \* [Args -> Contents] at the start
          MaxCalls, MaxHeld, MaxLen,
          MemoBug, SharedOutBug, InPlaceBug
VARIABLES content,   \* [Args -> Contents]: what each caller array holds now
          memo,      \* what the callee remembers: <<>> or [arg, c]
          held,      \* results the caller holds: sequence of [obj, from]  (obj: result object id; from: the content the
                     \*   result was computed from AS THE OBJECT NOW READS)
          want,      \* for each held result, the content it was REQUESTED for (the argument content at call time)
          nres, ncalls, hist
vars == <<content, memo, held, want, nres, ncalls, hist>>
None == <<>>
Init == /\ content = InitContent /\ memo = None /\ held = <<>> /\ want = <<>> /\ nres = 0 /\ ncalls = 0
        /\ hist = <<>>
\* the content the callee actually computes from
Used(a) == IF MemoBug /\ memo # None /\ memo.arg = a THEN memo.c ELSE content[a]
Call(a) ==
  /\ ncalls < MaxCalls /\ Len(held) < MaxHeld /\ Len(hist) < MaxLen
  /\ LET u == Used(a)
         robj == IF SharedOutBug THEN 1 ELSE nres + 1
         \* a shared output object now reads `u` for EVERY holder of that object
         held1 == [i \in 1..Len(held) |-> IF held[i].obj = robj THEN [held[i] EXCEPT !.from = u] ELSE held[i]]
     IN /\ held' = Append(held1, [obj |-> robj, from |-> u])
        /\ want' = Append(want, content[a])
        /\ memo' = [arg |-> a, c |-> u]
        /\ nres' = nres + 1
        /\ content' = IF InPlaceBug THEN [content EXCEPT ![a] = CHOOSE c \in Contents : c # content[a]] ELSE content
  /\ ncalls' = ncalls + 1 /\ hist' = Append(hist, <<"call", a>>)
Overwrite(a, c) ==
  /\ c # content[a] /\ ncalls < MaxCalls /\ Len(hist) < MaxLen
  /\ content' = [content EXCEPT ![a] = c] /\ hist' = Append(hist, <<"overwrite", a, c>>)
  /\ UNCHANGED <<memo, held, want, nres, ncalls>>
Drop ==
  /\ held # <<>> /\ Len(hist) < MaxLen /\ held' = Tail(held) /\ want' = Tail(want) /\ hist' = Append(hist, <<"drop">>)
  /\ UNCHANGED <<content, memo, nres, ncalls>>
Next == (\E a \in Args : Call(a)) \/ (\E a \in Args, c \in Contents : Overwrite(a, c)) \/ Drop
Spec == Init /\ [][Next]_vars
\* ---- the contract
\* every result the caller holds reads what it was requested for: computed from the content at call time, and still so
ResultFromCurrentContent == \A i \in 1..Len(held) : i = Len(held) => held[i].from = want[i]
ResultsStable == \A i \in 1..Len(held) : held[i].from = want[i]
ArgsUntouched == [][\A a \in Args : Call(a) => content' = content]_vars
\* what a correct implementation may still do: remember things (memo) as long as it never answers from them wrongly
View == <<content, memo, held, want, nres, ncalls>>
Emit == (ncalls = MaxCalls \/ Len(hist) = MaxLen) => PrintT(<<"VS_HIST", hist>>)
=============================================================================
