--------------------------- MODULE ReentryGuard ---------------------------
(* The feature-subset and spin-symmetrised kernels (ciderpress/models/kernels.py: _SubsetMixin, _SpinSymMixin) wrap the
   methods of their base kernel: the OUTER entry of __call__ / diag / k_and_deriv selects the feature columns and sets
   the flag `_locked`; calls the base class makes back into the same object (diag -> __call__, k_and_deriv -> __call__)
   find the flag set and pass their (already selected) input through.  The flag is object state that survives the call,
   so the contract of a call depends on the HISTORY of the object: this module states that every outer call of every
   history -- including histories in which an earlier call was REFUSED with an exception raised inside the wrapped
   method (sklearn: "Gradient can only be evaluated when Y is None"; a wrongly shaped argument) -- selects the columns
   exactly once.

     Enter(m)   outer entry of method m: selects columns iff the flag is clear, sets the flag
     Nested     the base class calls back into the object while the flag is set (no second selection)
     Return     the wrapped method returns normally: flag cleared
     Raise      the wrapped method raises: the flag is cleared iff the implementation releases it on the error path
                (ReleaseOnError; FALSE is the negative control and the behaviour of the tree before fix F37)

   Histories (variable hist, the sequence of outer calls with their outcome) are printed for the replay on the real
   kernel classes (harness/c15.py: reentry_histories), which compares every successful outer call with a FRESH object. *)
EXTENDS Integers, Sequences, TLC
CONSTANTS Methods, MaxCalls, ReleaseOnError
VARIABLES locked, depth, selected, cur, hist, bad
vars == <<locked, depth, selected, cur, hist, bad>>
None == "none"
Init == locked = FALSE /\ depth = 0 /\ selected = 0 /\ cur = None /\ hist = <<>> /\ bad = FALSE
Enter(m) == /\ depth = 0 /\ Len(hist) < MaxCalls
            /\ cur' = m /\ depth' = 1
            /\ selected' = IF locked THEN 0 ELSE 1      \* a set flag makes the OUTER call skip the selection
            /\ locked' = TRUE /\ UNCHANGED <<hist, bad>>
Nested == /\ depth = 1 /\ cur \in {"diag", "k_and_deriv"}  \* these reach __call__ of the same object through the base class
          /\ depth' = 2 /\ selected' = IF locked THEN selected ELSE selected + 1
          /\ UNCHANGED <<locked, cur, hist, bad>>
NestedReturn == depth = 2 /\ depth' = 1 /\ UNCHANGED <<locked, selected, cur, hist, bad>>
Return == /\ depth = 1 /\ depth' = 0 /\ locked' = FALSE
          /\ hist' = Append(hist, <<cur, "ok">>) /\ bad' = (bad \/ selected # 1)
          /\ cur' = None /\ UNCHANGED selected
Raise == /\ depth = 1 /\ depth' = 0 /\ locked' = (IF ReleaseOnError THEN FALSE ELSE locked)
         /\ hist' = Append(hist, <<cur, "refused">>) /\ cur' = None /\ UNCHANGED <<selected, bad>>
Next == (\E m \in Methods : Enter(m)) \/ Nested \/ NestedReturn \/ Return \/ Raise
Spec == Init /\ [][Next]_vars
\* ---- the contract
SelectedOnce == ~bad                                  \* every outer call that returned had its columns selected exactly once
IdleUnlocked == depth = 0 => ~locked                  \* between calls the object carries no trace of earlier calls
NestedGuarded == depth = 2 => locked                  \* the guard is what keeps nested calls from selecting again
Emit == (depth = 0 /\ Len(hist) = MaxCalls) => PrintT(<<"RG_HIST", hist>>)
=============================================================================
