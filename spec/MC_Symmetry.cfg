SPECIFICATION Spec
INVARIANT RoundTripOrder
INVARIANT Homomorphism
INVARIANT InducedIsSignedPermutation
INVARIANT InducedHomomorphism
INVARIANT GroupClosed
