---- MODULE Trace_NumIntCache ----
(* Trace validation for NumIntCache.  A record is one HISTORY of operations on one integrator
   object (several nr_rks / nr_uks calls, resets), recorded by harness/trace.py.  Each event is
   bound to the spec action it witnesses; quantities the implementation exposes (object identity
   of the generators, fingerprints of the arrays held by the caches, the slot an SDMX potential
   was added to, the block bounds) are compared with what the specification says they must be.
   Observations are stored in `obs` and judged by NAMED invariants, so a rejection says which
   clause failed.  An event the specification cannot take at all leaves the trace STUCK; the
   position is reported through TLC register 1. *)
EXTENDS NumIntCache, Json, IOUtils, TLCExt
Recs == JsonDeserialize(IOEnv.TRACE_FILE)
VARIABLES i,        \* index of the history being consumed
          l,        \* index of the next event in it
          featOf,   \* [idm][s] -> fingerprint of the density the feature pass for (idm, s) saw
          implCache,\* [s] -> fingerprint the implementation's per-spin cache holds
          lastObj,  \* [gen, sdmx] object ids seen at the last NrBegin
          obs       \* verdicts of the last event
tvars == <<vars, i, l, featOf, implCache, lastObj, obs>>
NoDM == {}
Rec == Recs[i]
Ev == Rec.events[l]
IsEvent(name) == i <= Len(Recs) /\ l <= Len(Rec.events) /\ Ev.ev = name /\ l' = l + 1 /\ i' = i
OK == [cache |-> TRUE, sdmxdm |-> TRUE, slot |-> TRUE, featsrc |-> TRUE, tiles |-> TRUE,
       dms |-> TRUE, genproj |-> TRUE, sdmxproj |-> TRUE, evok |-> TRUE, aocache |-> TRUE]
TInit == Init /\ i = 1 /\ l = 1 /\ featOf = <<>> /\ implCache = [s \in 0..1 |-> 0]
         /\ lastObj = [gen |-> 0, sdmx |-> 0] /\ obs = OK

SeqToFun(sq) == [s \in 0..(Len(sq) - 1) |-> sq[s + 1]]
Keep == UNCHANGED <<featOf, implCache, lastObj>>

TReset == /\ IsEvent("Reset") /\ Reset(Ev.mol) /\ obs' = OK
          /\ implCache' = [s \in 0..1 |-> 0] /\ UNCHANGED <<featOf, lastObj>>

TNrBegin ==
  /\ IsEvent("NrBegin")
  /\ LET dms == [k \in 1..Len(Ev.dms) |-> SeqToFun(Ev.dms[k])]
     IN NrBegin(Ev.nspin, dms, Ev.mol, Ev.grids, Ev.nblk)
  \* projection: the implementation created a new generator object iff the specification says so
  /\ obs' = [OK EXCEPT !.evok = Ev.ok,
                       !.genproj = (HasNLDF => ((Ev.gen # lastObj.gen) <=> NeedNewGen(Ev.mol, Ev.grids, Ev.nspin))),
                       !.sdmxproj = (HasSDMX => ((Ev.sdmx # lastObj.sdmx) <=> NeedNewSDMX(Ev.mol, Ev.nspin)))]
  /\ lastObj' = [gen |-> Ev.gen, sdmx |-> Ev.sdmx]
  /\ featOf' = [k \in 1..Len(Ev.dms) |-> [s \in 0..(Ev.nspin - 1) |-> 0]]
  /\ implCache' = IF NeedNewGen(Ev.mol, Ev.grids, Ev.nspin) THEN [s \in 0..1 |-> 0] ELSE implCache

Tiling(b, n) == /\ (n = 0 => Len(b) = 0)
                /\ (n > 0 => Len(b) > 0 /\ b[1][1] = 0 /\ b[Len(b)][2] = n)
                /\ \A k \in 1..Len(b) : b[k][1] < b[k][2]
                /\ \A k \in 1..(Len(b) - 1) : b[k][2] = b[k + 1][1]
TBlockLoop ==
  /\ IsEvent("BlockLoop") /\ pc.phase # "idle"
  /\ obs' = [OK EXCEPT !.tiles = Tiling(Ev.bounds, Ev.ngrids)]
  /\ UNCHANGED vars /\ Keep

TFeaturePass ==
  /\ IsEvent("FeaturePass") /\ pc.phase = "feat" /\ Ev.spin = pc.s
  /\ featOf' = [featOf EXCEPT ![pc.idm][pc.s] = Ev.rho]
  /\ implCache' = [implCache EXCEPT ![Ev.spin] = Ev.cache]
  /\ obs' = [OK EXCEPT !.evok = Ev.ok, !.cache = (Ev.cache = Ev.rho)]
  /\ FeaturePass /\ UNCHANGED lastObj

\* the repaired integrator re-evaluates the features of density matrix idm before its potential
TRefresh ==
  /\ IsEvent("FeaturePass") /\ pc.phase = "pot"
  /\ implCache' = [implCache EXCEPT ![Ev.spin] = Ev.cache]
  /\ obs' = [OK EXCEPT !.evok = Ev.ok]
  /\ UNCHANGED vars /\ UNCHANGED <<featOf, lastObj>>

ExpectedSrc(idm, s, nspin) == (idm - 1) * nspin + s + 1     \* index of the feature pass for (idm, s)
TSDMXFeat ==
  /\ IsEvent("SDMXFeat") /\ pc.phase = "xc" /\ HasSDMX
  /\ obs' = [OK EXCEPT !.evok = Ev.ok, !.sdmxdm = (SeqToFun(Ev.dm) = pc.dms[pc.idm])]
  /\ UNCHANGED vars /\ Keep
TXC ==
  /\ IsEvent("XC") /\ pc.phase = "xc"
  /\ obs' = [OK EXCEPT !.featsrc = (HasNLDF =>
                 /\ Len(Ev.feat_from) = pc.nspin
                 /\ \A s \in 0..(pc.nspin - 1) :
                      \E k \in 1..Len(Ev.feat_from[s + 1]) :
                         Ev.feat_from[s + 1][k] = ExpectedSrc(pc.idm, s, pc.nspin))]
  /\ IF HasSDMX THEN UNCHANGED vars ELSE XCBlock
  /\ Keep
TSDMXVxc ==
  /\ IsEvent("SDMXVxc") /\ pc.phase = "xc" /\ HasSDMX
  /\ obs' = [OK EXCEPT !.slot = (Ev.slot = pc.idm - 1), !.aocache = (Ev.coords # 0)]
  /\ XCBlock /\ Keep

TPotentialPass ==
  /\ IsEvent("PotentialPass") /\ pc.phase = "pot" /\ Ev.spin = pc.s
  /\ obs' = [OK EXCEPT !.evok = Ev.ok,
                       !.cache = (Ev.cache = implCache[pc.s] /\ Ev.cache = featOf[pc.idm][pc.s])]
  /\ PotentialPass /\ Keep

TNrEnd ==
  /\ IsEvent("NrEnd") /\ NrEnd
  /\ obs' = [OK EXCEPT !.dms = Ev.dms_clean, !.evok = (Ev.exc = "")]
  /\ Keep
TReturn == Return /\ UNCHANGED <<i, l, featOf, implCache, lastObj, obs>>
\* next history: a fresh integrator object
TNextRec == /\ i <= Len(Recs) /\ l = Len(Rec.events) + 1 /\ pc = Idle
            /\ i' = i + 1 /\ l' = 1
            /\ ni' = [mol |-> None, grids |-> None, gen |-> None, sdmx |-> None]
            /\ serial' = 0 /\ genCache' = [s \in 0..1 |-> None] /\ sdmxAO' = None
            /\ res' = None /\ ncalls' = 0 /\ dirty' = {} /\ pc' = Idle
            /\ featOf' = <<>> /\ implCache' = [s \in 0..1 |-> 0] /\ lastObj' = [gen |-> 0, sdmx |-> 0]
            /\ obs' = OK

TNext == TReset \/ TNrBegin \/ TBlockLoop \/ TFeaturePass \/ TRefresh \/ TSDMXFeat \/ TXC
         \/ TSDMXVxc \/ TPotentialPass \/ TNrEnd \/ TReturn \/ TNextRec
TSpec == TInit /\ [][TNext]_tvars

\* ---- named verdicts on the implementation's observations
ImplCacheDiscipline == obs.cache        \* potential pass consumed the cache of its own density
SDMXUsesOwnDM == obs.sdmxdm             \* SDMX features computed from the batch member's own dm
SDMXSlot == obs.slot                    \* SDMX potential added to the batch member's own matrix
SDMXCachePresent == obs.aocache
FeaturesFromOwnPass == obs.featsrc      \* the XC stage of (blk, idm) read the features of pass idm
BlocksTile == obs.tiles
CallerDMsUntouched == obs.dms
GeneratorProjection == obs.genproj      \* generator rebuilt iff the specification says so
SDMXProjection == obs.sdmxproj
NoException == obs.evok
Track == TLCSet(1, <<i, l>>)
Accepted == IF TLCGet(1) = <<Len(Recs) + 1, 1>> THEN TRUE
            ELSE PrintT(<<"STUCK", TLCGet(1)>>) /\ FALSE
====
