SPECIFICATION Spec
CONSTANTS
  T = 4
  N = 1
  Kind = "unsync"
  NCells = 2
INVARIANT FinalIsSequential
INVARIANT ManualTiles
INVARIANT ScratchPrivate
INVARIANT MutualExclusion
