---------------------------- MODULE NumIntCache ----------------------------
(* The CIDER numerical integrators (ciderpress/pyscf/numint.py) with the caches they drive:
     NLDFNumInt.initialize_feature_generators   generator keyed on (mol, grids, nspin) identity
     LCAONLDFGenerator._cache[s]                written by get_features, read by get_potential
     NLDFAuxiliaryPlan._cached_l1_data[s] / _cached_p_i_qg[s]   (same life cycle, same slot)
     EXXSphGenerator._cached_ao_data            written by get_features, read by get_vxc_
   One action per loop body of nr_rks / nr_uks / nr_rks_nldf / nr_uks_nldf, in the order the
   code executes them.  Density matrices, molecules and grids are symbolic; every quantity that
   ends up in a result records WHICH density matrix / cache content it was computed from, so
   "each member of a batch gets what a separate call gives" is a provenance invariant.

   Two historical defects of the pinned tree are kept as switches so that the model can show it
   distinguishes them (BugF1 = potential pass after all feature passes without refreshing the
   per-spin cache; BugF2 = stale loop index in the unrestricted extra-block loop). *)
EXTENDS Integers, Sequences, FiniteSets, TLC

CONSTANTS DM,        \* symbolic density matrices (per spin channel)
          Mol, Grid, \* symbolic molecule / grid OBJECTS (identity matters, as in the code)
          MaxSet,    \* max number of density matrices in one call
          MaxBlk,    \* max number of grid blocks
          MaxCalls,  \* max number of integrator calls in a history
          HasNLDF, HasSDMX,
          BugF1, BugF2

VARIABLES ni,        \* integrator object: [mol, grids, gen, sdmx]; gen/sdmx = None or a record
          serial,    \* number of generators created so far
          genCache,  \* [0..1 -> None | tag]: which density the per-spin NLDF caches were built from
          sdmxAO,    \* None | <<blk, dmIndexTag>>: the block the SDMX AO cache belongs to
          pc,        \* the in-flight call (program counter + loop indices) or Idle
          res,       \* provenance of the results of the in-flight call
          ncalls,
          dirty      \* caller-owned arrays written by the callee
vars == <<ni, serial, genCache, sdmxAO, pc, res, ncalls, dirty>>

None == <<>>
Idle == [phase |-> "idle"]
Spins(nspin) == 0..(nspin - 1)
Tag(dm, s) == <<dm, s>>

\* a batch: sequence over idm of functions spin -> DM
Batches(nspin) == UNION {[1..n -> [Spins(nspin) -> DM]] : n \in 1..MaxSet}

Init == /\ ni = [mol |-> None, grids |-> None, gen |-> None, sdmx |-> None]
        /\ serial = 0 /\ genCache = [s \in 0..1 |-> None] /\ sdmxAO = None
        /\ pc = Idle /\ res = None /\ ncalls = 0 /\ dirty = {}

\* ---------------------------------------------------------------- object life cycle
\* _CiderKS.build / reset -> CiderNumIntMixin.build / reset
Reset(mol) ==
  /\ pc = Idle
  /\ ni' = [mol |-> mol, grids |-> ni.grids, gen |-> None, sdmx |-> None]
  /\ genCache' = [s \in 0..1 |-> None] /\ sdmxAO' = None
  /\ UNCHANGED <<serial, pc, res, ncalls, dirty>>

\* NLDFNumInt.initialize_feature_generators (numint.py), conditions verbatim
NeedNewGen(mol, grids, nspin) ==
  HasNLDF /\ (ni.gen = None \/ ni.grids # grids \/ ni.mol # mol \/ ni.gen.nspin # nspin)
NeedNewSDMX(mol, nspin) ==
  HasSDMX /\ (ni.sdmx = None \/ ni.mol # mol \/ ni.sdmx.nspin # nspin)

\* nr_*: entry.  nblk = number of grid blocks the block loop will produce.
NrBegin(nspin, dms, mol, grids, nblk) ==
  /\ pc = Idle /\ ncalls < MaxCalls
  /\ LET ng == NeedNewGen(mol, grids, nspin)
         ns == NeedNewSDMX(mol, nspin)
     IN /\ ni' = [mol |-> mol,
                  grids |-> IF HasNLDF THEN grids ELSE ni.grids,
                  gen |-> IF ng THEN [mol |-> mol, grids |-> grids, nspin |-> nspin, serial |-> serial + 1]
                          ELSE ni.gen,
                  sdmx |-> IF ns THEN [mol |-> mol, nspin |-> nspin, serial |-> serial + 1] ELSE ni.sdmx]
        /\ serial' = IF ng \/ ns THEN serial + 1 ELSE serial
        /\ genCache' = IF ng THEN [s \in 0..1 |-> None] ELSE genCache   \* a new generator has empty caches
        /\ sdmxAO' = IF ns THEN None ELSE sdmxAO
  /\ pc' = [phase |-> IF HasNLDF THEN "feat" ELSE "xc", nspin |-> nspin, dms |-> dms, mol |-> mol,
            grids |-> grids, nblk |-> nblk, idm |-> 1, s |-> 0, blk |-> 1,
            stale |-> Len(dms)]     \* the value the loop variable `i` is left with by the rho loop
  /\ res' = [i \in 1..Len(dms) |->
               [pot  |-> [s \in Spins(nspin) |-> None],   \* cache tag the NLDF potential was built from
                sdmx |-> {},                              \* <<blk, which dm the SDMX features used>>
                vx   |-> {},                              \* <<blk, which AO cache get_vxc_ consumed>>
                acc  |-> {}]]                             \* blocks accumulated into nelec/exc of this slot
  /\ ncalls' = ncalls + 1
  /\ UNCHANGED dirty

\* advance (spin fastest, then idm); when exhausted go to `nextphase`
StepSpin(p, nextphase) ==
  IF p.s + 1 < p.nspin THEN [p EXCEPT !.s = @ + 1]
  ELSE IF p.idm < Len(p.dms) THEN [p EXCEPT !.s = 0, !.idm = @ + 1]
  ELSE [p EXCEPT !.phase = nextphase, !.s = 0, !.idm = 1, !.blk = 1]

\* nldfgen.get_features(rho_full[idm], spin=s): ALL density matrices first (numint.py 400-402 / 535-544)
FeaturePass ==
  /\ pc.phase = "feat"
  /\ genCache' = [genCache EXCEPT ![pc.s] = Tag(pc.dms[pc.idm][pc.s], pc.s)]
  /\ pc' = StepSpin(pc, "xc")
  /\ UNCHANGED <<ni, serial, sdmxAO, res, ncalls, dirty>>

\* one (block, idm) iteration of the xc loop: SDMX features + eval_xc_cider + SDMX potential +
\* accumulation of nelec / exc.  In the unrestricted NLDF routine the pinned code indexed the SDMX
\* density matrix and the accumulators with the stale loop variable (BugF2).
SlotIndex == IF BugF2 /\ HasNLDF /\ pc.nspin = 2 THEN pc.stale ELSE pc.idm
XCBlock ==
  /\ pc.phase = "xc"
  /\ LET j == SlotIndex IN
       /\ res' = [res EXCEPT ![j].acc = @ \cup {<<pc.blk, pc.idm>>},
                             ![j].sdmx = IF HasSDMX THEN @ \cup {<<pc.blk, j>>} ELSE @,
                             ![j].vx = IF HasSDMX THEN @ \cup {<<pc.blk, j>>} ELSE @]
       /\ sdmxAO' = IF HasSDMX THEN <<pc.blk, j>> ELSE sdmxAO
  /\ pc' = IF pc.idm < Len(pc.dms) THEN [pc EXCEPT !.idm = @ + 1]
           ELSE IF pc.blk < pc.nblk THEN [pc EXCEPT !.idm = 1, !.blk = @ + 1]
           ELSE [pc EXCEPT !.phase = IF HasNLDF THEN "pot" ELSE "end", !.idm = 1, !.blk = 1, !.s = 0]
  /\ UNCHANGED <<ni, serial, genCache, ncalls, dirty>>

\* nldfgen.get_potential(vxc_nldf_full[idm], spin=s) (numint.py 433-434 / 585-591).  The repaired
\* code re-evaluates the features of density matrix idm first when the batch has several members;
\* the pinned code (BugF1) did not.
PotentialPass ==
  /\ pc.phase = "pot"
  /\ LET refreshed == IF BugF1 \/ Len(pc.dms) = 1 THEN genCache
                      ELSE [genCache EXCEPT ![pc.s] = Tag(pc.dms[pc.idm][pc.s], pc.s)]
     IN /\ refreshed[pc.s] # None
        /\ genCache' = refreshed
        /\ res' = [res EXCEPT ![pc.idm].pot[pc.s] = refreshed[pc.s]]
  /\ pc' = StepSpin(pc, "end")
  /\ UNCHANGED <<ni, serial, sdmxAO, ncalls, dirty>>

NrEnd ==
  /\ pc.phase = "end"
  /\ pc' = [phase |-> "done", nspin |-> pc.nspin, dms |-> pc.dms, mol |-> pc.mol, grids |-> pc.grids, nblk |-> pc.nblk]
  /\ sdmxAO' = None
  /\ UNCHANGED <<ni, serial, genCache, res, ncalls, dirty>>

Return == /\ pc.phase = "done" /\ pc' = Idle /\ res' = None
          /\ UNCHANGED <<ni, serial, genCache, sdmxAO, ncalls, dirty>>

Next == \/ \E m \in Mol : Reset(m)
        \/ \E nspin \in 1..2, m \in Mol, g \in Grid, nb \in 1..MaxBlk :
              \E dms \in Batches(nspin) : NrBegin(nspin, dms, m, g, nb)
        \/ FeaturePass \/ XCBlock \/ PotentialPass \/ NrEnd \/ Return
Spec == Init /\ [][Next]_vars

\* ---------------------------------------------------------------- properties
\* every NLDF potential pass consumes the cache of ITS OWN density matrix and spin
CacheDiscipline ==
  [][PotentialPass => res'[pc.idm].pot[pc.s] = Tag(pc.dms[pc.idm][pc.s], pc.s)]_vars
\* the generator in use was built for the molecule, grid and spin count of the running call
GeneratorFresh ==
  (pc.phase \notin {"idle"} /\ HasNLDF) =>
      /\ ni.gen # None /\ ni.gen.mol = pc.mol /\ ni.gen.grids = pc.grids /\ ni.gen.nspin = pc.nspin
SDMXFresh ==
  (pc.phase \notin {"idle"} /\ HasSDMX) =>
      /\ ni.sdmx # None /\ ni.sdmx.mol = pc.mol /\ ni.sdmx.nspin = pc.nspin
\* what a finished call returns for batch member i derives from density matrix i only, and every
\* grid block was accumulated into slot i exactly once
Blocks(p) == 1..p.nblk
Provenance ==
  pc.phase = "done" =>
    \A i \in 1..Len(pc.dms) :
       /\ res[i].acc = {<<b, i>> : b \in Blocks(pc)}
       /\ HasSDMX => (res[i].sdmx = {<<b, i>> : b \in Blocks(pc)} /\ res[i].vx = res[i].sdmx)
       /\ HasNLDF => \A s \in Spins(pc.nspin) : res[i].pot[s] = Tag(pc.dms[i][s], s)
\* no per-call state leaks out of a finished call
NoLeak == pc = Idle => sdmxAO = None
CallerArraysClean == dirty = {}
=============================================================================
