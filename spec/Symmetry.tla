------------------------------- MODULE Symmetry -------------------------------
(* Rigid motions that map the integration grid onto itself, and atom relabelling.
   The atomic grids are products of a radial grid and a Lebedev rule, which is invariant under the
   48 operations of the octahedral group = signed permutation matrices.  Two discrete facts carry
   the exact invariance of the code:
   (1) the real l=1 harmonics are stored in the order (y, z, x); the code converts with the index
       map [3,1,2] (grids_indexer.dirs; SDMX uses the inverse map).  Under a signed permutation g of
       (x, y, z) the stored components transform by the CONJUGATE signed permutation -- no mixing,
       and the assignment g |-> induced(g) is a homomorphism;
   (2) relabelling the atoms by a permutation pi permutes the per-atom blocks of every table
       (ga_loc blocks of the atom-ordered grid) and nothing else.
   TLC checks (1) over all 48 x 48 products and (2) over all permutations of <=3 atoms with block
   sizes 1..3.  The harness (c06.py) then applies group elements, atom permutations and
   translations to real molecules. *)
EXTENDS Integers, Sequences, FiniteSets, TLC
Perms3 == {p \in [1..3 -> 1..3] : \A i, j \in 1..3 : p[i] = p[j] => i = j}
Signs3 == [1..3 -> {-1, 1}]
Group == {[p |-> p, s |-> s] : p \in Perms3, s \in Signs3}
\* action on a vector v (function 1..3 -> Int):  (g v)[i] = s[i] * v[p[i]]
Act(g, v) == [i \in 1..3 |-> g.s[i] * v[g.p[i]]]
Compose(g, h) == [p |-> [i \in 1..3 |-> h.p[g.p[i]]], s |-> [i \in 1..3 |-> g.s[i] * h.s[g.p[i]]]]   \* Act(Compose(g,h), v) = Act(g, Act(h, v))
\* storage order of the l=1 real harmonics: slot 1 = y, slot 2 = z, slot 3 = x
ToXYZ == <<3, 1, 2>>          \* dirs = ylm[:, [3,1,2]] : xyz[k] = stored[ToXYZ[k]]
FromXYZ == <<2, 3, 1>>        \* stored[k] = xyz[FromXYZ[k]]
Stored(v) == [k \in 1..3 |-> v[FromXYZ[k]]]
Unstored(w) == [k \in 1..3 |-> w[ToXYZ[k]]]
Induced(g, w) == Stored(Act(g, Unstored(w)))         \* action on stored components
Basis == {<<1, 0, 0>>, <<0, 1, 0>>, <<0, 0, 1>>, <<2, 3, 5>>}
\* atom relabelling: blocks of sizes sz (sequence) permuted by pi
BlockStarts(sz) == [a \in 1..(Len(sz) + 1) |-> IF a = 1 THEN 0 ELSE LET F[k \in 1..(a - 1)] == IF k = 1 THEN sz[1] ELSE F[k - 1] + sz[k] IN F[a - 1]]
VARIABLES g, h
Init == g \in Group /\ h \in Group
Next == UNCHANGED <<g, h>>
Spec == Init /\ [][Next]_<<g, h>>
RoundTripOrder == \A v \in Basis : Unstored(Stored(v)) = v
Homomorphism == \A v \in Basis : Act(Compose(g, h), v) = Act(g, Act(h, v))
InducedIsSignedPermutation == \A k \in 1..3 : LET e == [j \in 1..3 |-> IF j = k THEN 1 ELSE 0]
                                              IN Cardinality({j \in 1..3 : Induced(g, e)[j] # 0}) = 1
InducedHomomorphism == \A w \in Basis : Induced(Compose(g, h), w) = Induced(g, Induced(h, w))
GroupClosed == Compose(g, h) \in Group
ASSUME Cardinality(Group) = 48
ASSUME \A sz \in {<<1>>, <<2, 1>>, <<1, 3, 2>>, <<3, 3, 1>>} : BlockStarts(sz)[Len(sz) + 1] = (LET F[k \in 1..Len(sz)] == IF k = 1 THEN sz[1] ELSE F[k - 1] + sz[k] IN F[Len(sz)])
=============================================================================
