#!/bin/bash
# Build the CiderPress C libraries from /repo's *current working tree* into /verif/build/lib.
# Nothing is ever written under /repo.  Offline: uses system gcc/OpenBLAS, the libxc that pyscf
# bundles, and the reference FFTW shim in /verif/shim (no FFTW/MKL exists in this sandbox).
#   ./build.sh            rebuild only if any C source / header / shim changed (hash stamp)
#   ./build.sh --force    always rebuild
set -euo pipefail
HERE="$(cd "$(dirname "${BASH_SOURCE[0]}")" && pwd)"
REPO="${CIDER_REPO:-/repo}"
L="$REPO/ciderpress/lib"
OUT="${CIDER_VERIF_LIBDIR:-$HERE/build/lib}"
PYSCF_DEPS="$(/venv/bin/python -c 'import pyscf,os;print(os.path.join(os.path.dirname(pyscf.__file__),"lib","deps"))')"
mkdir -p "$OUT" "$OUT/../gen"
# generated config header (the repo's cmake would write it; it is git-ignored there)
cat > "$OUT/../gen/cider_fft_config.h" <<'EOF'
#ifndef _CIDER_FFT_CONFIG_H
#define _CIDER_FFT_CONFIG_H
#define FFT_MKL_BACKEND 1
#define FFT_FFTW_BACKEND 2
#define HAVE_MPI 0
#define FFT_BACKEND 2
#endif
EOF
HASH="$( (cd "$L" && find mod_cider numint_cider xc_utils fft_wrapper pwutil -type f \( -name '*.c' -o -name '*.h' \) | LC_ALL=C sort | xargs sha1sum; sha1sum "$HERE"/shim/fftw3.c "$HERE"/shim/fftw3.h "$HERE"/build.sh; echo "${CIDER_VERIF_COVERAGE:-}") | sha1sum | cut -d' ' -f1)"
STAMP="$OUT/.stamp"
if [ "${1:-}" != "--force" ] && [ -f "$STAMP" ] && [ "$(cat "$STAMP")" = "$HASH" ] \
   && [ -f "$OUT/libmcider.so" ] && [ -f "$OUT/libfft_wrapper.so" ] && [ -f "$OUT/libxc_utils.so" ] && [ -f "$OUT/libnumint.so" ] && [ -f "$OUT/libpwutil.so" ]; then
  exit 0
fi
# Build under a lock into a temp dir, then move into place (checks may run concurrently).
exec 9>"$OUT/.lock"
flock 9
if [ "${1:-}" != "--force" ] && [ -f "$STAMP" ] && [ "$(cat "$STAMP")" = "$HASH" ]; then exit 0; fi
if [ "${CIDER_VERIF_COVERAGE:-}" = "1" ]; then
  # diagnostic build (tools/coverage_run.sh): gcov-instrumented objects kept beside the libraries
  T="$OUT/../gen"; COV="--coverage"
else
  T="$(mktemp -d "$OUT/../tmp.XXXXXX")"; COV=""
  trap 'rm -rf "$T"' EXIT
fi
CC="gcc -O2 -g0 -fPIC -fopenmp -std=gnu99 -w -DCIDERPRESS_VERIF $COV"
INC="-I$L -I$L/mod_cider -I$L/fft_wrapper -I$OUT/../gen -I$HERE/shim"
printf '#ifndef CIDERPW_CONFIG_H\n#define CIDERPW_CONFIG_H\n#define HAVE_MPI 0\n#endif\n' > "$OUT/../gen/config.h"
# every translation unit is compiled to an object in parallel, then linked
OBJS_M=(); OBJS_P=()
$CC $INC -c "$HERE/shim/fftw3.c" -o "$T/shim_fftw3.o" &
$CC $INC -c "$L/fft_wrapper/cider_fft.c" -o "$T/cider_fft.o" &
$CC $INC -c "$L/numint_cider/nr_numint.c" -o "$T/nr_numint.o" &
$CC $INC -I"$PYSCF_DEPS/include" -c "$L/xc_utils/libxc_baselines.c" -o "$T/libxc_baselines.o" &
for f in "$L"/mod_cider/*.c; do
  o="$T/$(basename "$f" .c).o"; OBJS_M+=("$o")
  $CC $INC -c "$f" -o "$o" &
done
for f in grid_util nldf_fft_core nldf_fft_serial; do
  o="$T/pw_$f.o"; OBJS_P+=("$o")
  $CC $INC -c "$L/pwutil/$f.c" -o "$o" &
done
$CC $INC -c "$L/mod_cider/sph_harm.c" -o "$T/pw_sph_harm.o" &
OBJS_P+=("$T/pw_sph_harm.o")
wait
LD="gcc -shared -fopenmp $COV"
$LD "$T/shim_fftw3.o" "$T/cider_fft.o" -o "$T/libfft_wrapper.so" -lm
$LD "$T/nr_numint.o" -o "$T/libnumint.so" -lopenblas -lm &
$LD "$T/libxc_baselines.o" -o "$T/libxc_utils.so" -L"$PYSCF_DEPS/lib" -Wl,-rpath,"$PYSCF_DEPS/lib" -lxc -lm &
$LD "${OBJS_M[@]}" -o "$T/libmcider.so" -L"$T" -lfft_wrapper -Wl,-rpath,'$ORIGIN' -lopenblas -lm &
$LD "${OBJS_P[@]}" -o "$T/libpwutil.so" -L"$T" -lfft_wrapper -Wl,-rpath,'$ORIGIN' -lopenblas -lm &
wait
for n in libfft_wrapper libnumint libxc_utils libmcider libpwutil; do
  [ -f "$T/$n.so" ] || { echo "build failed: $n" >&2; exit 2; }
  mv -f "$T/$n.so" "$OUT/$n.so"
done
echo "$HASH" > "$STAMP"
echo "built C libraries into $OUT"
