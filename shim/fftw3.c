/* Minimal reference implementation of the subset of the FFTW3 advanced
 * interface used by cider_fft.c (naive DFT, O(N * sum n_i)). */
#include "fftw3.h"
#include <complex.h>
#include <math.h>
#include <stdlib.h>
#include <string.h>
struct fftw_plan_s {
    int kind; /* 0 c2c, 1 r2c, 2 c2r */
    int rank; int n[8]; int howmany;
    void *in; int inembed[8]; int istride; int idist;
    void *out; int onembed[8]; int ostride; int odist;
    int sign;
};
/* ---- verification instrumentation (used only by /verif drivers) ---- */
static int g_trace = 0;
static long *g_tin = NULL, *g_tout = NULL; static size_t g_nin = 0, g_nout = 0;
#define NALLOC 256
static void *g_aptr[NALLOC]; static size_t g_asz[NALLOC]; static int g_ai = 0;
void fftw_shim_trace(int enable) { g_trace = enable; }
long fftw_shim_trace_get(int which, long *buf, long cap) {
    size_t n = which ? g_nout : g_nin; long *src = which ? g_tout : g_tin;
    for (size_t i = 0; i < n && (long)i < cap; i++) buf[i] = src[i];
    return (long)n;
}
long fftw_shim_alloc_size(void *p) {
    for (int i = 0; i < NALLOC; i++) if (g_aptr[i] == p) return (long)g_asz[i];
    return -1;
}
int fftw_init_threads(void) { return 1; }
void fftw_plan_with_nthreads(int n) { (void)n; }
void *fftw_malloc(size_t n) {
    void *p = NULL; if (posix_memalign(&p, 64, n ? n : 1)) return NULL;
    g_aptr[g_ai] = p; g_asz[g_ai] = n; g_ai = (g_ai + 1) % NALLOC;
    return p;
}
void fftw_free(void *p) {
    for (int i = 0; i < NALLOC; i++) if (g_aptr[i] == p) { g_aptr[i] = NULL; g_asz[i] = 0; }
    free(p);
}
static fftw_plan mk(int kind, int rank, const int *n, int howmany, void *in, const int *inembed, int istride, int idist, void *out, const int *onembed, int ostride, int odist, int sign) {
    if (rank < 1 || rank > 8) return NULL;
    fftw_plan p = calloc(1, sizeof(*p));
    p->kind = kind; p->rank = rank; p->howmany = howmany;
    p->in = in; p->out = out; p->istride = istride; p->idist = idist;
    p->ostride = ostride; p->odist = odist; p->sign = sign;
    for (int i = 0; i < rank; i++) {
        p->n[i] = n[i];
        int nin = n[i], nout = n[i];
        if (i == rank - 1) {
            if (kind == 1) nout = n[i] / 2 + 1;
            if (kind == 2) nin = n[i] / 2 + 1;
        }
        p->inembed[i] = inembed ? inembed[i] : nin;
        p->onembed[i] = onembed ? onembed[i] : nout;
        if (i == rank - 1 && in == out) {
            if (kind == 1 && !inembed) p->inembed[i] = 2 * (n[i] / 2 + 1);
            if (kind == 2 && !onembed) p->onembed[i] = 2 * (n[i] / 2 + 1);
        }
    }
    return p;
}
fftw_plan fftw_plan_many_dft(int rank, const int *n, int howmany, fftw_complex *in, const int *inembed, int istride, int idist, fftw_complex *out, const int *onembed, int ostride, int odist, int sign, unsigned flags) {
    (void)flags; return mk(0, rank, n, howmany, in, inembed, istride, idist, out, onembed, ostride, odist, sign);
}
fftw_plan fftw_plan_many_dft_r2c(int rank, const int *n, int howmany, double *in, const int *inembed, int istride, int idist, fftw_complex *out, const int *onembed, int ostride, int odist, unsigned flags) {
    (void)flags; return mk(1, rank, n, howmany, in, inembed, istride, idist, out, onembed, ostride, odist, -1);
}
fftw_plan fftw_plan_many_dft_c2r(int rank, const int *n, int howmany, fftw_complex *in, const int *inembed, int istride, int idist, double *out, const int *onembed, int ostride, int odist, unsigned flags) {
    (void)flags; return mk(2, rank, n, howmany, in, inembed, istride, idist, out, onembed, ostride, odist, +1);
}
void fftw_destroy_plan(fftw_plan p) { free(p); }
/* 1-D DFT along axis ax of dense array x with dims d[0..rank-1] */
static void dft_axis(double complex *x, const int *d, int rank, int ax, int sign) {
    size_t inner = 1, outer = 1; int n = d[ax];
    for (int i = ax + 1; i < rank; i++) inner *= d[i];
    for (int i = 0; i < ax; i++) outer *= d[i];
    double complex *tmp = malloc(sizeof(double complex) * n);
    double complex *w = malloc(sizeof(double complex) * n);
    for (int k = 0; k < n; k++) w[k] = cexp(sign * 2.0 * M_PI * I * (double)k / (double)n);
    for (size_t o = 0; o < outer; o++) for (size_t in = 0; in < inner; in++) {
        double complex *b = x + o * n * inner + in;
        for (int k = 0; k < n; k++) {
            double complex s = 0;
            for (int j = 0; j < n; j++) s += b[j * inner] * w[((size_t)j * k) % n];
            tmp[k] = s;
        }
        for (int k = 0; k < n; k++) b[k * inner] = tmp[k];
    }
    free(tmp); free(w);
}
static size_t flat(const int *idx, const int *embed, int rank) {
    size_t f = 0; for (int i = 0; i < rank; i++) f = f * embed[i] + idx[i]; return f;
}

static void exec_one(const fftw_plan p, int t, double complex *res, double *rres) {
    int rank = p->rank; int dl[8], dh[8]; size_t ntot = 1, nhalf_tot = 1; int idx[8];
    for (int i = 0; i < rank; i++) { dl[i] = p->n[i]; dh[i] = p->n[i]; ntot *= p->n[i]; }
    dh[rank - 1] = p->n[rank - 1] / 2 + 1;
    for (int i = 0; i < rank; i++) nhalf_tot *= dh[i];
    int nlast = p->n[rank - 1], nh = nlast / 2 + 1;
    if (p->kind == 0 || p->kind == 1) {
        for (size_t f = 0; f < ntot; f++) {
            size_t r = f; for (int i = rank - 1; i >= 0; i--) { idx[i] = r % dl[i]; r /= dl[i]; }
            size_t off = (size_t)t * p->idist + flat(idx, p->inembed, rank) * p->istride;
            if (p->kind == 0) res[f] = ((double complex *)p->in)[off];
            else res[f] = ((double *)p->in)[off];
        }
        for (int ax = 0; ax < rank; ax++) dft_axis(res, dl, rank, ax, p->sign);
    } else {
        double complex *half = malloc(sizeof(double complex) * nhalf_tot);
        for (size_t f = 0; f < nhalf_tot; f++) {
            size_t r = f; for (int i = rank - 1; i >= 0; i--) { idx[i] = r % dh[i]; r /= dh[i]; }
            size_t off = (size_t)t * p->idist + flat(idx, p->inembed, rank) * p->istride;
            half[f] = ((double complex *)p->in)[off];
        }
        for (int ax = 0; ax < rank - 1; ax++) dft_axis(half, dh, rank, ax, +1);
        size_t outer = nhalf_tot / nh;
        for (size_t o = 0; o < outer; o++) {
            double complex *X = half + o * nh;
            for (int j = 0; j < nlast; j++) {
                double s = creal(X[0]);
                for (int k = 1; 2 * k < nlast; k++)
                    s += 2.0 * creal(X[k] * cexp(2.0 * M_PI * I * (double)(((size_t)j * k) % nlast) / (double)nlast));
                if (nlast % 2 == 0) s += creal(X[nlast / 2]) * ((j % 2) ? -1.0 : 1.0);
                rres[o * nlast + j] = s;
            }
        }
        free(half);
    }
}
static void record_trace(const fftw_plan p) {
    /* canonical order: transform t outermost, then row-major over the LOGICAL index domain
       (full dims, or half last dim on the complex side of a real transform) */
    int rank = p->rank; int din[8], dout[8], idx[8]; size_t nin = 1, nout = 1;
    for (int i = 0; i < rank; i++) { din[i] = p->n[i]; dout[i] = p->n[i]; }
    if (p->kind == 1) dout[rank - 1] = p->n[rank - 1] / 2 + 1;
    if (p->kind == 2) din[rank - 1] = p->n[rank - 1] / 2 + 1;
    for (int i = 0; i < rank; i++) { nin *= din[i]; nout *= dout[i]; }
    free(g_tin); free(g_tout);
    g_nin = nin * p->howmany; g_nout = nout * p->howmany;
    g_tin = malloc(sizeof(long) * (g_nin ? g_nin : 1)); g_tout = malloc(sizeof(long) * (g_nout ? g_nout : 1));
    for (int t = 0; t < p->howmany; t++) {
        for (size_t f = 0; f < nin; f++) {
            size_t r = f; for (int i = rank - 1; i >= 0; i--) { idx[i] = r % din[i]; r /= din[i]; }
            g_tin[(size_t)t * nin + f] = (long)((size_t)t * p->idist + flat(idx, p->inembed, rank) * p->istride);
        }
        for (size_t f = 0; f < nout; f++) {
            size_t r = f; for (int i = rank - 1; i >= 0; i--) { idx[i] = r % dout[i]; r /= dout[i]; }
            g_tout[(size_t)t * nout + f] = (long)((size_t)t * p->odist + flat(idx, p->onembed, rank) * p->ostride);
        }
    }
}
void fftw_execute(const fftw_plan p) {
    int rank = p->rank; int dl[8]; size_t ntot = 1; int idx[8];
    for (int i = 0; i < rank; i++) { dl[i] = p->n[i]; ntot *= p->n[i]; }
    int nh = p->n[rank - 1] / 2 + 1;
    if (g_trace) record_trace(p);
    double complex *res = NULL; double *rres = NULL;
    if (p->kind == 2) rres = malloc(sizeof(double) * ntot * p->howmany);
    else res = malloc(sizeof(double complex) * ntot * p->howmany);
    for (int t = 0; t < p->howmany; t++) exec_one(p, t, res ? res + (size_t)t * ntot : NULL, rres ? rres + (size_t)t * ntot : NULL);
    for (int t = 0; t < p->howmany; t++) for (size_t f = 0; f < ntot; f++) {
        size_t r = f; for (int i = rank - 1; i >= 0; i--) { idx[i] = r % dl[i]; r /= dl[i]; }
        if (p->kind == 1 && idx[rank - 1] >= nh) continue;
        size_t off = (size_t)t * p->odist + flat(idx, p->onembed, rank) * p->ostride;
        if (p->kind == 2) ((double *)p->out)[off] = rres[(size_t)t * ntot + f];
        else ((double complex *)p->out)[off] = res[(size_t)t * ntot + f];
    }
    free(res); free(rres);
}
