#ifndef FFTW3_SHIM_H
#define FFTW3_SHIM_H
#include <stddef.h>
typedef double fftw_complex[2];
typedef struct fftw_plan_s *fftw_plan;
#define FFTW_FORWARD (-1)
#define FFTW_BACKWARD (+1)
#define FFTW_MEASURE (0U)
#define FFTW_ESTIMATE (1U << 6)
#define FFTW_PATIENT (1U << 5)
#define FFTW_EXHAUSTIVE (1U << 3)
#define FFTW_DESTROY_INPUT (1U << 0)
#define FFTW_PRESERVE_INPUT (1U << 4)
#define FFTW_UNALIGNED (1U << 1)
int fftw_init_threads(void);
void fftw_plan_with_nthreads(int n);
fftw_plan fftw_plan_many_dft(int rank, const int *n, int howmany, fftw_complex *in, const int *inembed, int istride, int idist, fftw_complex *out, const int *onembed, int ostride, int odist, int sign, unsigned flags);
fftw_plan fftw_plan_many_dft_r2c(int rank, const int *n, int howmany, double *in, const int *inembed, int istride, int idist, fftw_complex *out, const int *onembed, int ostride, int odist, unsigned flags);
fftw_plan fftw_plan_many_dft_c2r(int rank, const int *n, int howmany, fftw_complex *in, const int *inembed, int istride, int idist, double *out, const int *onembed, int ostride, int odist, unsigned flags);
void fftw_execute(const fftw_plan p);
void fftw_destroy_plan(fftw_plan p);
void *fftw_malloc(size_t n);
void fftw_free(void *p);
/* verification instrumentation */
void fftw_shim_trace(int enable);
long fftw_shim_trace_get(int which, long *buf, long cap);
long fftw_shim_alloc_size(void *p);
#endif
