#!/bin/bash
# diagnostic: every thorough tier once, sequentially, outputs redirected away from /verif/evidence
export CIDER_VERIF_OUT=/tmp/cp_thorough CIDER_VERIF_LIBDIR=/tmp/cp_thorough/lib
mkdir -p /tmp/cp_thorough/lib
cd "$(dirname "$0")/.."
for i in 14 11 15 12 05 19 08 16 13 03 18 04 20 10 09 02 06 07 17 01; do
  s=$(date +%s); timeout 7200 ./check C$i --tier thorough > /tmp/cp_thorough/C$i.log 2>&1; rc=$?
  echo "C$i rc=$rc wall=$(( $(date +%s) - s ))s $(grep -c '^VIOLATION' /tmp/cp_thorough/C$i.log) violations"; tail -1 /tmp/cp_thorough/C$i.log
done
