#!/bin/bash
# tools/import_seed.sh <Cnn> <n> : copy a sub-agent's deliverables /tmp/seed_<Cnn> into seeded/<Cnn>_<n>/
# after checking that the patch applies to the pinned commit; removes the agent's worktree.
set -eu
P="$1"; N="$2"; SRC="/tmp/seed_$P"; DST="/verif/seeded/${P}_$N"
git -C /tmp/wt_clean checkout -q -- . && git -C /tmp/wt_clean apply --check "$SRC/patch.diff"
mkdir -p "$DST"; cp "$SRC"/patch.diff "$SRC"/meta.json "$DST"/; cp "$SRC"/demo.py "$DST"/ 2>/dev/null || true
[ -f "$SRC/demo_output.txt" ] && head -c 20000 "$SRC/demo_output.txt" > "$DST/demo_output.txt"
if [ -d "/tmp/wt_$P" ]; then git -C /repo worktree remove --force "/tmp/wt_$P"; fi
rm -rf "$SRC"
echo "imported $DST"
