#!/bin/bash
# diagnostic: every QUICK tier with other seeds (the interface allows VERIF_SEED=<int>), outputs redirected away from
# /verif/evidence; a check that alarms for some seed on the unchanged tree is broken.
# usage: tools/run_seeds.sh "1 2 3" ["01 02 ..."]
SEEDS="${1:-1 2 3}"; IDS="${2:-01 02 03 04 05 06 07 08 09 10 11 12 13 14 15 16 17 18 19 20}"
export CIDER_VERIF_OUT=/tmp/cp_seeds CIDER_VERIF_LIBDIR=/tmp/cp_seeds/lib
mkdir -p /tmp/cp_seeds/lib
cd "$(dirname "$0")/.."
for sd in $SEEDS; do
  for i in $IDS; do
    s=$(date +%s); VERIF_SEED=$sd timeout 3600 ./check C$i --tier quick > /tmp/cp_seeds/C${i}_s$sd.log 2>&1; rc=$?
    echo "seed=$sd C$i rc=$rc wall=$(( $(date +%s) - s ))s $(grep -c '^VIOLATION' /tmp/cp_seeds/C${i}_s$sd.log) violations"
  done
done
