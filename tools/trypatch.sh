#!/bin/bash
# tools/trypatch.sh <patch.diff> <Cnn> [tier] : run one check against a patched SCRATCH worktree (/tmp/wt_try), never /repo
set -u
P="$(readlink -f "$1")"; C="$2"; T="${3:-quick}"
WT=/tmp/wt_try
if [ ! -d "$WT" ]; then git -C /repo worktree add --detach -q "$WT" HEAD || exit 2; fi
git -C "$WT" checkout -q --detach "$(git -C /repo rev-parse HEAD)" && git -C "$WT" checkout -q -- . || exit 2
git -C "$WT" apply "$P" || { echo "patch does not apply"; exit 2; }
CIDER_REPO=$WT CIDER_VERIF_LIBDIR=$WT/_lib CIDER_VERIF_OUT=/tmp/out_try /verif/check "$C" --tier "$T"
rc=$?
git -C "$WT" checkout -q -- .
echo "exit=$rc"
