# Only on PYTHONPATH during tools/coverage_run.sh: starts coverage in every python process (drivers and workers).
import os
if os.environ.get("COVERAGE_PROCESS_START"):
    try:
        import coverage
        coverage.process_startup()
    except Exception:
        pass
