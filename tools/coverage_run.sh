#!/bin/bash
# tools/coverage_run.sh [C01 C02 ...]   -- diagnostic, not a registered check.
# Runs the quick tier of the named checks (default: all) with line coverage of /repo/ciderpress (Python: coverage.py in
# every driver and worker process; C: gcov instrumented libraries in a separate lib dir), outputs redirected to
# /tmp/cp_cov so neither evidence nor /verif/build are touched.  Result: tools/coverage_py.txt, tools/coverage_c.txt
# (lines of the anchored sources that NO check executes = blind spots of the conformance layer).
set -u
HERE="$(cd "$(dirname "${BASH_SOURCE[0]}")/.." && pwd)"
C=/tmp/cp_cov; rm -rf $C; mkdir -p $C/data $C/lib $C/out
IDS="${*:-C01 C02 C03 C04 C05 C06 C07 C08 C09 C10 C11 C12 C13 C14 C15 C16 C17 C18 C19 C20}"
export CIDER_VERIF_LIBDIR=$C/lib CIDER_VERIF_OUT=$C/out CIDER_VERIF_COVERAGE=1
export COVERAGE_PROCESS_START=$HERE/tools/cov/coveragerc PYTHONPATH=$HERE/tools/cov
"$HERE/build.sh" --force || exit 2
for id in $IDS; do
  echo "== $id"; ( time "$HERE/check" $id --tier quick ) 2>&1 | tail -4
done
cd $C/data && /venv/bin/python -m coverage combine --rcfile=$COVERAGE_PROCESS_START >/dev/null 2>&1
/venv/bin/python -m coverage report --rcfile=$COVERAGE_PROCESS_START > "$HERE/tools/coverage_py.txt" 2>&1
# C: gcov over the object dir
( cd $C/gen 2>/dev/null || cd $C/lib/../gen; for g in *.gcda; do gcov -b -o . "$g" >/dev/null 2>&1; done
  for f in *.c.gcov; do
    tot=$(grep -vc '^ *-:' "$f"); miss=$(grep -c '^ *#####:' "$f"); echo "$f lines=$tot missed=$miss"
  done ) > "$HERE/tools/coverage_c.txt" 2>&1
mkdir -p "$HERE/tools/cov/gcov" && cp $C/gen/*.c.gcov "$HERE/tools/cov/gcov/" 2>/dev/null
tail -5 "$HERE/tools/coverage_py.txt"
