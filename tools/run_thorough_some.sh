#!/bin/bash
# diagnostic: the thorough tier of the listed checks, sequentially, outputs redirected away from /verif/evidence
# usage: tools/run_thorough_some.sh "03 18 04 ..."
export CIDER_VERIF_OUT=/tmp/cp_thorough CIDER_VERIF_LIBDIR=/tmp/cp_thorough/lib
mkdir -p /tmp/cp_thorough/lib
cd "$(dirname "$0")/.."
for i in $1; do
  s=$(date +%s); timeout 10000 ./check C$i --tier thorough > /tmp/cp_thorough/C$i.log 2>&1; rc=$?
  echo "C$i rc=$rc wall=$(( $(date +%s) - s ))s $(grep -c '^VIOLATION' /tmp/cp_thorough/C$i.log) violations"; tail -1 /tmp/cp_thorough/C$i.log
done
