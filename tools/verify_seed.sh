#!/bin/bash
# tools/verify_seed.sh <agent_out_dir> <seed id e.g. C11_3>
# Confirms a sub-agent's seeded regression in a scratch worktree (never /repo): patch applies, C builds,
# demo fails with the change and passes without it, the pinned suite still gives 143 passes.  On success
# copies patch.diff / demo.py / demo_output.txt / meta.json into /verif/seeded/<id>/ and appends what was run.
set -u
SRC="$1"; ID="$2"
WT=/tmp/seedverify_$ID
export OMP_NUM_THREADS=4 PYTHONPATH=/tmp/cpenv CIDER_WT=$WT
git -C /repo worktree remove --force $WT 2>/dev/null
git -C /repo worktree add --detach -q $WT HEAD || exit 2
cleanup() { git -C /repo worktree remove --force $WT; }
trap cleanup EXIT
sed "s#/tmp/seedr3/[A-Za-z0-9_]*_r[0-9]\b#$WT#g" "$SRC/demo.py" > $WT/_demo.py
/tmp/cpenv/build.sh $WT >/dev/null || { echo "clean build failed"; exit 2; }
(cd $WT && timeout 1500 /venv/bin/python _demo.py > $WT/_clean.out 2>&1); rc_clean=$?
git -C $WT apply "$SRC/patch.diff" || { echo "RESULT $ID: patch does not apply"; exit 1; }
/tmp/cpenv/build.sh $WT >/dev/null || { echo "RESULT $ID: build fails with patch"; exit 1; }
(cd $WT && timeout 1500 /venv/bin/python _demo.py > $WT/_changed.out 2>&1); rc_changed=$?
(cd $WT && env -u PYTHONPATH -u CIDER_WT /venv/bin/python -m pytest -q -p no:cacheprovider --timeout=900 --continue-on-collection-errors 2>&1 | tail -1 > $WT/_tests.out)
tests="$(cat $WT/_tests.out)"
echo "RESULT $ID: demo clean rc=$rc_clean changed rc=$rc_changed; tests: $tests"
tail -3 $WT/_clean.out | sed 's/^/   clean: /'; tail -3 $WT/_changed.out | sed 's/^/   changed: /'
if [ $rc_clean -eq 0 ] && [ $rc_changed -ne 0 ] && echo "$tests" | grep -q "143 passed"; then
  D=/verif/seeded/$ID; mkdir -p $D
  cp "$SRC/patch.diff" "$SRC/demo.py" "$SRC/meta.json" $D/
  [ -f "$SRC/demo_output.txt" ] && cp "$SRC/demo_output.txt" $D/
  /venv/bin/python - "$D/meta.json" "$rc_clean" "$rc_changed" "$tests" <<'PY'
import json,sys
p=sys.argv[1]; m=json.load(open(p))
m["confirmed_by_main"]={"how":"tools/verify_seed.sh in a scratch worktree: /tmp/cpenv/build.sh, demo.py on clean and patched tree, pinned suite on patched tree",
  "demo_rc_clean":int(sys.argv[2]),"demo_rc_changed":int(sys.argv[3]),"pinned_suite_patched":sys.argv[4]}
json.dump(m,open(p,"w"),indent=1)
PY
  echo "KEPT $ID"
else
  echo "NOT KEPT $ID"
fi
