#!/bin/bash
# tools/verify_seed.sh <round-prefix e.g. seed2> <wt-prefix e.g. wt2> <Cnn> : run the agent's demo on its changed worktree and on the clean one
R="$1"; W="$2"; P="$3"
cd /tmp/${R}_$P || exit 2
for wt in /tmp/${W}_$P /tmp/wt_clean; do
  CIDER_REPO=$wt CIDER_VERIF_LIBDIR=$wt/_lib OMP_NUM_THREADS=2 PYTHONPATH=/tmp/cpenv timeout 2400 /venv/bin/python demo.py > /tmp/verify_${P}_$(basename $wt).txt 2>&1
  echo "$P $(basename $wt) rc=$? : $(grep -v Warn /tmp/verify_${P}_$(basename $wt).txt | tail -1 | cut -c1-160)"
done
