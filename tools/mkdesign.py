#!/usr/bin/env python3
"""Assemble /verif/DESIGN.md from its parts (see the first lines of tools/design_head.md)."""
import json
import os
import re

V = os.path.dirname(os.path.dirname(os.path.abspath(__file__)))
rows = json.load(open(os.path.join(V, "tools", "manifest_rows.json")))
props = {json.loads(l)["id"]: json.loads(l) for l in open(os.path.join(V, "properties.jsonl"))}
kf = json.load(open(os.path.join(V, "known_findings.json")))["findings"]
dj = os.path.join(V, "tools", "detection.json")
det = json.load(open(dj)) if os.path.exists(dj) else {}
WALL = {}
for pid in props:
    p = os.path.join(V, "evidence", pid + ".json")
    if os.path.exists(p):
        try:
            e = json.load(open(p))
            WALL[pid] = (e.get("tier"), e.get("wall_s"))
        except Exception:
            pass

import glob
_spec = glob.glob(os.path.join(V, "spec", "*.tla"))
_harn = glob.glob(os.path.join(V, "harness", "*.py"))
_nl = lambda fs: sum(open(f).read().count("\n") for f in fs)
_head = open(os.path.join(V, "tools", "design_head.md")).read()
for k_, v_ in (("{NMOD}", len(_spec)), ("{NSPEC}", _nl(_spec)), ("{NHARN}", _nl(_harn)), ("{NFIND}", len(kf)),
               ("{NFIXED}", sum(1 for f in kf if f["status"] == "fixed")), ("{NKNOWN}", sum(1 for f in kf if f["status"] == "known"))):
    _head = _head.replace(k_, str(v_))
out = [_head]
for pid in sorted(props):
    r = rows.get(pid)
    out.append("\n### %s — %s\n" % (pid, props[pid]["title"]))
    if not r or not r.get("built"):
        out.append("not built.\n")
        continue
    drv = os.path.join(V, "harness", pid.lower() + ".py")
    doc = ""
    if os.path.exists(drv):
        m = re.match(r'\s*"""(.*?)"""', open(drv).read(), flags=re.S)
        doc = m.group(1).strip() if m else ""
    out.append("*Level:* `%s` — *spec:* `%s` — *driver:* `harness/%s.py`%s\n" % (
        r["level"], r["engine"], pid.lower(),
        (" — last %s run here: %.0f s" % WALL[pid]) if pid in WALL and WALL[pid][1] else ""))
    out.append("\n" + r["text"] + "\n")
    if r.get("note"):
        out.append("\n*Limits / notes:* " + r["note"] + "\n")
    if doc:
        out.append("\n```\n" + doc + "\n```\n")
    mine = [f for f in kf if f["property"] == pid]
    if mine:
        out.append("\n*Findings under this property:* " + ", ".join("%s (%s)" % (f["id"], f["status"]) for f in mine) + " — see §5.\n")

out.append("\n---------------------------------------------------------------------------------------------\n\n## 5. Findings\n\n"
           "A violation on the unchanged tree was first reproduced against the real code (failing input / history in the replay file). "
           "Genuine defects with a small, safe repair were repaired by one unguarded `fix:` commit each (the 143 baseline tests pass after "
           "every one); the others are *known findings*: the check prints `KNOWN-FINDING: property=<id> …` for them and exits 0, and "
           "still reports any violation whose site the file does not list.  `fixed` entries suppress nothing; `mutants/revert_*.diff` "
           "re-introduce each repaired defect and the owning check reports it again (§6).\n\n"
           "| id | property | status | commit | site pattern | what fails |\n|---|---|---|---|---|---|\n")
for f in kf:
    out.append("| %s | %s | %s | %s | `%s` | %s |\n" % (f["id"], f["property"], f["status"], f.get("commit", "") if f["status"] == "fixed" else "—",
                                                       f["site"].replace("|", "\\|"), f["text"].replace("|", "\\|")))
out.append("\nWhy the known findings were not repaired: F8a–d (RBFEvaluator index forms) and F21/F22 (DiffAntisymRBF, PartialRBF) need a "
           "design decision about the intended semantics rather than a one-line correction; F28 is a disagreement between documentation "
           "and code in which the shipped models were trained on the code's form.\n")

out.append("\n---------------------------------------------------------------------------------------------\n\n## 6. Showing that the binding is real: detection matrix\n\n"
           "`tools/run_mutants.py` applies each patch to a scratch worktree (never to `/repo`), rebuilds the C libraries from it and runs the "
           "named checks (quick tier unless stated).  *hand* = written while building a check; *revert-of-fix* = re-introduces a repaired "
           "defect; *seeded* = written by an independent sub-agent that was given only the property text and a scratch worktree "
           "(`seeded/<id>/` holds patch, demonstration and meta data).  A seeded change that the first version of a check missed is kept in "
           "the table with the strengthening that now catches it.\n\n| patch | kind | property | detected by (first sites) | missed by |\n|---|---|---|---|---|\n")
for name in sorted(det):
    e = det[name]
    hit = ["%s (%s)" % (c, ", ".join("`%s`" % s for s in v["sites"][:2])) for c, v in sorted(e["checks"].items()) if v.get("violation")]
    miss = ["%s (exit %s)" % (c, v["exit"]) for c, v in sorted(e["checks"].items()) if not v.get("violation")]
    out.append("| `%s` | %s | %s | %s | %s |\n" % (name, e.get("kind", ""), e.get("property", ""), "; ".join(hit) or "—", "; ".join(miss) or "—"))
notes = os.path.join(V, "tools", "detection_notes.md")
if os.path.exists(notes):
    out.append("\n" + open(notes).read())
out.append(open(os.path.join(V, "tools", "design_tail.md")).read())
txt = "".join(out)
# order sections: head(0-4 incl per property) 6 8 then tail(7,9,10) -> acceptable; numbering is by title
open(os.path.join(V, "DESIGN.md"), "w").write(txt)
print("DESIGN.md: %d lines" % txt.count("\n"))
