#!/usr/bin/env python3
"""Detection matrix: apply each patch of mutants/ and seeded/*/patch.diff to a SCRATCH worktree of /repo
(never to /repo itself), run the named checks against it (CIDER_REPO / CIDER_VERIF_LIBDIR /
CIDER_VERIF_OUT redirect sources, libraries and every output), and record which checks report a
violation.  Result: tools/detection.json (read by tools/mkdesign.py).

  tools/run_mutants.py [--only substr] [--checks C01,C09] [--all-checks] [--jobs 2] [--tier quick]
"""
import argparse
import concurrent.futures as cf
import json
import os
import re
import shutil
import subprocess
import sys
import time

VERIF = os.path.dirname(os.path.dirname(os.path.abspath(__file__)))
ROOT = "/tmp/cp_mutants"


def patches():
    out = []
    for f in sorted(os.listdir(os.path.join(VERIF, "mutants"))):
        if f.endswith(".diff"):
            m = re.match(r"c(\d\d)_", f)
            out.append({"name": f[:-5], "path": os.path.join(VERIF, "mutants", f), "kind": "revert-of-fix" if f.startswith("revert_") else "hand",
                        "property": "C" + m.group(1) if m else None})
    sd = os.path.join(VERIF, "seeded")
    if os.path.isdir(sd):
        for d in sorted(os.listdir(sd)):
            p = os.path.join(sd, d, "patch.diff")
            if os.path.exists(p):
                meta = json.load(open(os.path.join(sd, d, "meta.json"))) if os.path.exists(os.path.join(sd, d, "meta.json")) else {}
                out.append({"name": "seeded/" + d, "path": p, "kind": "seeded (sub-agent)", "property": meta.get("property", d[:3])})
    return out


REVERT_OWNER = {"revert_F35": "C08", "revert_F34": "C18", "revert_F1": "C09", "revert_F2": "C09", "revert_F7": "C09", "revert_F11": "C19", "revert_F3": "C14", "revert_F4": "C12",
                "revert_F5": "C13", "revert_F6": "C04", "revert_POL": "C04", "revert_rbfres": "C04", "revert_F23": "C11",
                "revert_770cfc3": "C18", "revert_cf9751f": "C18", "revert_lmax0": "C18", "revert_F13": "C18", "revert_F29": "C04", "revert_F30": "C09", "revert_F31": "C12", "revert_F33": "C15", "revert_F36": "C15", "revert_F37": "C15"}


def run_one(job):
    name, patch, checks, tier, slot = job["name"], job["path"], job["checks"], job["tier"], job["slot"]
    wt = os.path.join(ROOT, "wt%d" % slot)
    out = os.path.join(ROOT, "out%d" % slot)
    res = {"name": name, "results": {}}
    subprocess.run(["git", "-C", wt, "checkout", "-q", "--", "."], check=True)
    subprocess.run(["git", "-C", wt, "clean", "-fdq", "-e", "_lib", "-e", "gen"], check=True)
    r = subprocess.run(["git", "-C", wt, "apply", patch], capture_output=True, text=True)
    if r.returncode != 0:
        res["error"] = "patch does not apply: " + r.stderr[-300:]
        return res
    env = dict(os.environ, CIDER_REPO=wt, CIDER_VERIF_LIBDIR=os.path.join(wt, "_lib"), CIDER_VERIF_OUT=out)
    for c in checks:
        shutil.rmtree(out, ignore_errors=True)
        t = time.time()
        try:
            p = subprocess.run([os.path.join(VERIF, "check"), c, "--tier", tier], capture_output=True, text=True, env=env, timeout=job["timeout"])
            txt = p.stdout + p.stderr
            sites = re.findall(r"site=(\S+)", txt)
            res["results"][c] = {"exit": p.returncode, "violation": bool(re.search(r"^VIOLATION property=", txt, flags=re.M)),
                                 "sites": sites[:4], "wall_s": round(time.time() - t, 1)}
            if p.returncode == 2:
                res["results"][c]["tail"] = txt[-400:]
        except subprocess.TimeoutExpired:
            res["results"][c] = {"exit": "timeout", "violation": False, "sites": [], "wall_s": round(time.time() - t, 1)}
    subprocess.run(["git", "-C", wt, "checkout", "-q", "--", "."], check=True)
    return res


def main():
    ap = argparse.ArgumentParser()
    ap.add_argument("--only", default="")
    ap.add_argument("--checks", default="")
    ap.add_argument("--all-checks", action="store_true")
    ap.add_argument("--jobs", type=int, default=2)
    ap.add_argument("--tier", default="quick")
    ap.add_argument("--timeout", type=int, default=3000)
    a = ap.parse_args()
    os.makedirs(ROOT, exist_ok=True)
    allchecks = ["C%02d" % i for i in range(1, 21)]
    todo = []
    for p in patches():
        if a.only and not any(o in p["name"] for o in a.only.split(",")):
            continue
        owner = p["property"] or REVERT_OWNER.get(p["name"])
        checks = a.checks.split(",") if a.checks else (allchecks if a.all_checks else [owner])
        todo.append(dict(p, checks=[c for c in checks if c], tier=a.tier, timeout=a.timeout))
    for s in range(a.jobs):
        wt = os.path.join(ROOT, "wt%d" % s)
        if not os.path.isdir(wt):
            subprocess.run(["git", "-C", "/repo", "worktree", "add", "--detach", "-q", wt, "HEAD"], check=True)
        else:
            subprocess.run(["git", "-C", wt, "checkout", "-q", "--detach", subprocess.check_output(["git", "-C", "/repo", "rev-parse", "HEAD"], text=True).strip()], check=True)
    dj = os.path.join(VERIF, "tools", "detection.json")
    det = json.load(open(dj)) if os.path.exists(dj) else {}
    # slots: a simple pool
    import queue
    slots = queue.Queue()
    for s in range(a.jobs):
        slots.put(s)

    def wrapped(job):
        s = slots.get()
        try:
            return run_one(dict(job, slot=s))
        finally:
            slots.put(s)
    with cf.ThreadPoolExecutor(max_workers=a.jobs) as ex:
        for job, res in zip(todo, ex.map(wrapped, todo)):
            e = det.setdefault(res["name"], {"kind": job["kind"], "property": job["property"] or REVERT_OWNER.get(job["name"]), "checks": {}})
            e["kind"] = job["kind"]
            if "error" in res:
                e["error"] = res["error"]
            e["checks"].update(res["results"])
            print(res["name"], {c: ("DETECTED" if v["violation"] else "missed(exit=%s)" % v["exit"]) for c, v in res["results"].items()}, flush=True)
            with open(dj, "w") as f:
                json.dump(det, f, indent=1, sort_keys=True)
    for s in range(a.jobs):
        wt = os.path.join(ROOT, "wt%d" % s)
        subprocess.run(["git", "-C", "/repo", "worktree", "remove", "--force", wt])
        shutil.rmtree(os.path.join(ROOT, "out%d" % s), ignore_errors=True)
    shutil.rmtree(ROOT, ignore_errors=True)


if __name__ == "__main__":
    main()
