#!/bin/bash
# tools/withpatch.sh <patch.diff> <command...>  : apply a patch to /repo, run the command, ALWAYS revert.
set -u
P="$(readlink -f "$1")"; shift
cd /repo || exit 2
if [ -n "$(git status --porcelain --untracked-files=no)" ]; then echo "/repo not clean" >&2; exit 2; fi
git apply "$P" || { echo "patch does not apply" >&2; exit 2; }
trap 'git -C /repo checkout -- . ; cd /verif && ./build.sh >/dev/null' EXIT
cd /verif
"$@"
rc=$?
echo "exit=$rc"
exit $rc
