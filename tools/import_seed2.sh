#!/bin/bash
# tools/import_seed2.sh <round-prefix> <wt-prefix> <Cnn> <n>
set -eu
R="$1"; W="$2"; P="$3"; N="$4"; SRC="/tmp/${R}_$P"; DST="/verif/seeded/${P}_$N"
git -C /tmp/wt_clean checkout -q -- . && git -C /tmp/wt_clean apply --check "$SRC/patch.diff"
mkdir -p "$DST"; cp "$SRC"/patch.diff "$SRC"/meta.json "$DST"/; cp "$SRC"/demo.py "$DST"/ 2>/dev/null || true
[ -f "$SRC/demo_output.txt" ] && head -c 20000 "$SRC/demo_output.txt" > "$DST/demo_output.txt"
if [ -d "/tmp/${W}_$P" ]; then git -C /repo worktree remove --force "/tmp/${W}_$P"; fi
rm -rf "$SRC"; echo "imported $DST"
