#!/usr/bin/env python3
"""Regenerate MANIFEST.json from tools/manifest_rows.json (one row per built check)."""
import json, os
here = os.path.dirname(os.path.dirname(os.path.abspath(__file__)))
rows = json.load(open(os.path.join(here, "tools", "manifest_rows.json")))
props = [json.loads(l) for l in open(os.path.join(here, "properties.jsonl"))]
checks, na = [], []
for p in props:
    r = rows.get(p["id"])
    if r and r.get("built"):
        checks.append({
            "property_id": p["id"],
            "quick_cmd": "./check %s --tier quick" % p["id"],
            "thorough_cmd": "./check %s --tier thorough" % p["id"],
            "evidence_file": "/verif/evidence/%s.json" % p["id"],
            "replay_cmd_template": "./check %s --replay {path}" % p["id"],
            "engine": r["engine"],
            "level_claimed": {"category": r["level"], "text": r["text"], "design_ref": r.get("design_ref", "DESIGN.md section 5, " + p["id"])},
            "level_note": r["note"],
            "technique": r["technique"],
        })
    else:
        na.append({"property_id": p["id"], "reason": (r or {}).get("reason", "check not built yet (planned in DESIGN.md section 5); not claimed")})
engines = {}
for c in checks:
    engines.setdefault(c["engine"], []).append(c["property_id"])
m = {
    "version": 1,
    "setup_cmd": "./build.sh --force && /venv/bin/python harness/selftest_tools.py",
    "hooks": {
        "guard": "CIDERPRESS_VERIF",
        "enable": "checks compile the C libraries from /repo's working tree into /verif/build/lib with -DCIDERPRESS_VERIF and run with CIDERPRESS_VERIF=1; Python-side recording wraps methods at run time and needs no source change",
        "baseline_off_cmd": "cd /repo && env -u CIDERPRESS_VERIF /venv/bin/python -m pytest -ra -q -p no:cacheprovider --timeout=900 --continue-on-collection-errors",
        "source_commits": rows.get("_hook_commits", []),
        "add_only": True,
    },
    "engines": [{"name": k, "path": "/verif/spec", "serves_properties": v,
                 "kind_free_text": "TLA+ specification checked by TLC; bound to the implementation by trace validation / replay (harness/)"} for k, v in sorted(engines.items())],
    "checks": checks,
    "not_applicable": na,
    "notes": "Model-based verification with explicit TLA+ specifications (spec/*.tla). Every check: TLC on the design-level module, then conformance (implementation observations validated by a Trace_* module and/or TLC behaviours replayed into the code with numeric oracles). See DESIGN.md.  System coverage beyond the listed properties (spec/OrbSelect.tla: which orbital a training-data request means; ./check_sys SYS01, evidence in evidence_sys/) is deliberately NOT registered as a check of any listed property (DESIGN section 6b).",
}
json.dump(m, open(os.path.join(here, "MANIFEST.json"), "w"), indent=1)
print("checks:", [c["property_id"] for c in checks], "na:", len(na))
