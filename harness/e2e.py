"""End-to-end sessions built from a CiderPress.tla configuration:
   cfg = [sl, nldf, sdmx, plan, interp, eval, mode, mix]  ->  a real decorated PySCF KS object.
Shared by C01 / C06 / C07 / C08 / C17."""
import cvload  # noqa: F401
import numpy as np

import models as M
from common import MachineryError, run_tlc, tlc_printed_values
from ciderpress.dft import baselines
from ciderpress.dft.transform_data import FeatureList, SignedUMap, UMap
from ciderpress.dft.xc_evaluator import (GlobalLinearEvaluator, KernelEvaluator, MappedDFTKernel, MappedXC, RBFEvaluator,
                                         SpinRBFEvaluator, SplineSetEvaluator)
from ciderpress.dft.xc_evaluator2 import MappedDFTKernel2, MappedXC2
from ciderpress.models.kernel_plans.kernel_tools import get_rbf_kernel
from ciderpress.pyscf.nldf_convolutions import PySCFNLDFInitializer
from ciderpress.pyscf.sdmx import PySCFSDMXInitializer

SLLEVEL = {"nst": "MGGA", "npa": "MGGA", "ns": "GGA", "np": "GGA"}


def session_configs(maxcalls=1, timeout=1200):
    """Run TLC on CiderPress.tla and return (TLCResult, list of (cfg, calc, nfeat))."""
    r = run_tlc("CiderPress", "MC_CiderPress.cfg", workers=16, timeout=timeout)
    if r.error:
        raise MachineryError("TLC: " + r.error)
    vals = tlc_printed_values(r.out, "SESSION")
    uniq = {}
    for cfg, calc, nfeat in vals:
        uniq[repr(sorted(cfg.items()))] = (cfg, calc, nfeat)
    return r, list(uniq.values())


def settings_of(cfg, rich=False):
    # rho_mult (what multiplies the density before it is convolved: one | expnt) is a driver-side dimension of the session
    return M.feature_settings(cfg["sl"], cfg["nldf"], cfg["sdmx"], level=SLLEVEL[cfg["sl"]], rich=rich, rho_mult=cfg.get("mult", "one"))


def make_evaluators(kind, n1, rng, nctrl=10, scale=0.05):
    ls = 0.7 + 0.05 * np.arange(n1)
    alpha = rng.normal(size=nctrl) * scale
    Xc = rng.uniform(-1, 1, size=(nctrl, n1))
    kern = get_rbf_kernel(slice(0, n1), ls, scale=1.0)
    if kind == "rbf":
        return [RBFEvaluator(kern, Xc, alpha)]
    if kind == "kernel":
        return [KernelEvaluator(kern, Xc, alpha)]
    if kind == "spinrbf":
        return [SpinRBFEvaluator(kern, rng.uniform(-1, 1, size=(2, nctrl, n1)), alpha)]
    if kind == "linear":
        return [GlobalLinearEvaluator(rng.normal(size=n1) * scale)]
    if kind == "two":
        return [RBFEvaluator(kern, Xc, alpha), GlobalLinearEvaluator(rng.normal(size=n1) * scale)]
    if kind == "spline":
        g = lambda n: (-1.0, 1.0, n)
        ind_sets = [[0], [min(1, n1 - 1), n1 - 1]]
        ind_sets = [s for s in ind_sets if len(set(s)) == len(s)]
        grids = [[g(9)] * len(s) for s in ind_sets]
        coefs = [rng.normal(size=tuple(11 for _ in s)) * scale for s in ind_sets]
        return [SplineSetEvaluator([0.8, 1.2][: len(ind_sets)], ind_sets, grids, coefs, const=0.01)]
    raise ValueError(kind)


def make_mapped_model(cfg, seed, rich=False):
    rng = np.random.default_rng(seed)
    st = settings_of(cfg, rich=rich)
    nf = st.nfeat
    # semilocal reduced variables are non-negative (UMap); nonlocal features may have either sign
    # (gradient contractions, Laplacian-type kernels), so they go through the signed map
    nsl = st.sl_settings.nfeat
    maps = [UMap(i, 0.3 + 0.1 * (i % 5)) if i < nsl else SignedUMap(i, 0.5 + 0.2 * (i % 4)) for i in range(1, nf)]
    # (not in front of a spline evaluator: X/Y maps are unbounded and a spline set outside its grid returns a derivative that is
    # not the derivative of its extrapolated value -- observation O8; mapped models span the bounds of BOUNDED maps)
    if cfg.get("fl") == "rich" and nf > nsl and cfg["eval"] != "spline":
        # composite transforms that read SEVERAL raw features, some of them through the same index twice (x_k scaled by
        # powers of the non-negative semilocal variables): the chain rule must accumulate over every argument slot
        from ciderpress.dft.transform_data import XMap, YMap
        a, b = 1, min(2, nsl - 1)
        maps[-1] = XMap(a, a, nf - 1, 0.4, 0.7)
        if nf - nsl >= 2:
            maps[-2] = YMap(a, b, b, nf - 2, 0.3, 0.5, 0.9)
    fl = FeatureList(maps)
    evs = make_evaluators(cfg["eval"], fl.nfeat, rng)
    base = cfg.get("base", "lda")
    if cfg["mix"] == "libxc2":
        mul, add = {"lda": ("GGA_X_PBE", None), "gga": ("GGA_X_PBE", "GGA_C_PBE"), "ssos": ("SS_GGA_C_PBE", "OS_GGA_C_PBE")}[base]
        mk = MappedDFTKernel2(evs, fl, cfg["mode"], mul, add)
        return MappedXC2([mk], st)
    mul, add = {"lda": (baselines.lda_x, baselines.zero_xc), "gga": (baselines.gga_x_pbe, baselines.gga_c_pbe),
                "chachiyo": (baselines.gga_x_chachiyo, baselines.zero_xc), "damp": (baselines.nlda_x_damp, baselines.gga_c_pbe)}[base]
    mk = MappedDFTKernel(evs, fl, cfg["mode"], mul, add)
    return MappedXC([mk], st)


MIX = {"pure": dict(xmix=1.0, xkernel=None, ckernel=None), "xmix": dict(xmix=0.25, xkernel="GGA_X_PBE", ckernel=None),
       "xmix_c": dict(xmix=0.25, xkernel="GGA_X_PBE", ckernel="GGA_C_PBE"), "libxc2": dict(xmix=0.5, xkernel="GGA_X_PBE", ckernel="GGA_C_PBE"),
       # the `xc` keyword (an extra semilocal functional added as it is), a correlation-only remainder, a meta-GGA remainder
       "xc_extra": dict(xmix=0.6, xkernel="GGA_X_B88", ckernel=None, xc="0.3*GGA_C_P86 + 0.2*LDA_C_VWN"),
       "conly": dict(xmix=1.0, xkernel=None, ckernel="GGA_C_LYP"),
       "mgga_mix": dict(xmix=0.25, xkernel="MGGA_X_SCAN", ckernel="MGGA_C_SCAN")}


def make_session(cfg, mol, unrestricted, seed, level=0, atom_grid=None, rich=False, rhocut=None, density_fit=False):
    model = make_mapped_model(cfg, seed, rich=rich)
    st = model.settings
    nldf_init = sdmx_init = None
    if st.has_nldf:
        nldf_init = PySCFNLDFInitializer(st.nldf_settings, plan_type=cfg["plan"], interpolator_type=cfg["interp"])
    if st.has_sdmx:
        sdmx_init = PySCFSDMXInitializer(st.sdmx_settings, lowmem=False)
    ks = M.make_calc(mol, model, unrestricted=unrestricted, level=level, atom_grid=atom_grid, nldf_init=nldf_init,
                     sdmx_init=sdmx_init, rhocut=rhocut, **MIX[cfg["mix"]])
    return ks


def projection(ks):
    return {"integrator": type(ks._numint).__name__, "grids": type(ks.grids).__name__, "xc": ks.xc}


def pairwise_cover(cfgs, rng, want, keys):
    def feats(c):
        vals = [(k, c[k]) for k in keys]
        return {(a, b) for i, a in enumerate(vals) for b in vals[i + 1:]}
    pool = list(cfgs)
    rng.shuffle(pool)
    chosen, covered = [], set()
    allp = set().union(*[feats(c) for c in pool])
    while covered != allp and len(chosen) < want and pool:
        best = max(range(min(len(pool), 600)), key=lambda i: len(feats(pool[i]) - covered))
        c = pool.pop(best)
        if not feats(c) - covered:
            break
        chosen.append(c)
        covered |= feats(c)
    chosen += pool[: max(0, want - len(chosen))]
    return chosen, len(covered), len(allp)


def random_dms(mol, rng, unrestricted):
    nocc_a = (mol.nelectron + mol.spin) // 2
    nocc_b = (mol.nelectron - mol.spin) // 2
    if unrestricted:
        return np.stack([M.psd_dm(rng, mol, nocc=nocc_a), M.psd_dm(rng, mol, nocc=max(nocc_b, 1))])
    return 2.0 * M.psd_dm(rng, mol, nocc=nocc_a)


def sym_direction(rng, nao):
    d = rng.normal(size=(nao, nao))
    return 0.5 * (d + d.T)
