"""C06 -- energies and features are invariant under rigid motions and atom relabelling.
  M: spec/Symmetry.tla: the 48 signed permutations (octahedral group), homomorphism of the induced
     action on the stored (y,z,x) l=1 components, index-order round trip; TLC over all 48x48 products
  R: group elements x atom permutations x translations applied to real molecules: the molecule and
     its grid are rebuilt in the new frame, the density matrix is recomputed COVARIANTLY (occupied
     orbitals of the core Hamiltonian -- no AO rotation matrices in the trusted base); E_xc, nelec,
     per-point nonlocal features at mapped grid points and frame-independent contractions of the XC
     matrix must be unchanged; thorough adds arbitrary rotations as a ladder over grid level"""
import cvload  # noqa: F401
import itertools
import os
import sys

import numpy as np

import e2e
import models as M
from common import handle_crash, Check, MachineryError, main_wrapper, run_tlc, run_workers, worker_main

BASE = [["O", (0.03, -0.02, 0.05)], ["H", (0.10, 0.93, 0.21)], ["F", (-0.84, -0.31, 1.02)]]
# a REPEATED element at inequivalent positions: relabelling can put another element between its two atoms (H,O,H), which
# is where per-element tables indexed by a running offset go wrong
BASE2 = [["O", (0.03, -0.02, 0.05)], ["H", (0.10, 0.93, 0.21)], ["H", (-0.71, -0.42, 0.55)]]
BASES = {"OHF": BASE, "OHH": BASE2}


def group48():
    out = []
    for p in itertools.permutations(range(3)):
        for s in itertools.product((-1, 1), repeat=3):
            R = np.zeros((3, 3))
            for i in range(3):
                R[i, p[i]] = s[i]
            out.append(R)
    return out


def rot(axis, ang):
    axis = np.asarray(axis, dtype=float)
    axis /= np.linalg.norm(axis)
    K = np.array([[0, -axis[2], axis[1]], [axis[2], 0, -axis[0]], [-axis[1], axis[0], 0]])
    return np.eye(3) + np.sin(ang) * K + (1 - np.cos(ang)) * K.dot(K)


def build(R, t, perm, cfg, level, seed, base="OHF"):
    from pyscf import gto
    atoms = [BASES[base][i] for i in perm]
    atoms = [[a, tuple(R.dot(np.array(c)) + t)] for a, c in atoms]
    mol = gto.M(atom=atoms, basis="sto-3g", verbose=0, unit="Angstrom")
    ks = e2e.make_session(cfg, mol, False, seed, level=level)
    return mol, ks


def invariants(mol, ks, want_features):
    """frame-independent observables of one evaluation"""
    import scipy.linalg
    from pyscf import scf
    h1 = scf.hf.get_hcore(mol)
    s1 = mol.intor("int1e_ovlp")
    w, c = scipy.linalg.eigh(h1, s1)
    nocc = mol.nelectron // 2
    D = 2 * c[:, :nocc].dot(c[:, :nocc].T)
    D2 = 2 * c[:, : nocc - 1].dot(c[:, : nocc - 1].T)
    gap = float(min(np.diff(w[: nocc + 1])))
    ni = ks._numint
    n_, e_, v_ = ni.nr_rks(mol, ks.grids, ks.xc, D)
    sh = scipy.linalg.fractional_matrix_power(s1, -0.5).real
    ev = np.linalg.eigvalsh(sh.dot(0.5 * (v_ + v_.T)).dot(sh))
    out = {"nelec": float(n_), "exc": float(e_), "trvD": float(np.sum(v_ * D)), "trvD2": float(np.sum(v_ * D2)), "eigs": ev.tolist(), "gap": gap}
    if want_features:
        from pyscf.dft import numint as pni
        feats = []
        ao = pni.eval_ao(mol, ks.grids.coords, deriv=1)
        r = pni.eval_rho(mol, ao, D, xctype="MGGA", with_lapl=False)
        st = ni.settings
        if st.has_nldf:
            lvl = st.nldf_settings.sl_level
            rho = np.zeros((5 if lvl == "MGGA" else 4, r.shape[1]))
            rho[:4] = r[:4]
            if lvl == "MGGA":
                rho[4] = r[-1]
            feats.append(ni.nldfgen.get_features(rho))
        if st.has_sdmx:
            f = ni.sdmxgen.get_features(D, mol, ks.grids.coords)
            feats.append(f if f.ndim == 2 else f[0])
        out["feat"] = np.concatenate(feats, axis=0) if feats else np.zeros((0, r.shape[1]))
        out["coords"] = ks.grids.coords.copy()
        out["weights"] = ks.grids.weights.copy()
        out["rho"] = r[0]
    return out


def check(job):
    cfg = job["cfg"]
    R = np.array(job["R"])
    t = np.array(job["t"])
    perm = job["perm"]
    viol, n = [], 0
    tag = "%s+%s:%s" % (cfg["nldf"], cfg["sdmx"], job["kind"])
    try:
        mol0, ks0 = build(np.eye(3), np.zeros(3), [0, 1, 2], cfg, job["level"], job["seed"], job.get("base", "OHF"))
        ref = invariants(mol0, ks0, job["features"])
        if job.get("inplace"):
            # the SAME molecule, grid and calculator objects: the atoms are moved in place (mol.set_geom_) and the grid is
            # rebuilt on the same object; everything derived from atom positions must follow
            coords = mol0.atom_coords(unit="Bohr").dot(R.T) + t / 0.52917721092
            mol0.set_geom_(coords, unit="Bohr")
            ks0.grids.build(with_non0tab=True)
            mol1, ks1 = mol0, ks0
        elif job.get("pad_atom") is not None:
            # a translation that puts a nucleus EXACTLY on the coordinate pyscf pads grids with ((1e-4, 1e-4, 1e-4) Bohr,
            # zero weight): quantities that are singular in the distance to a nucleus are evaluated at r = 0 there
            from pyscf import gto
            cb = mol0.atom_coords(unit="Bohr")
            cb = cb - cb[job["pad_atom"]] + 1e-4
            cb[job["pad_atom"]] = 1e-4
            mol1 = gto.M(atom=[[mol0.atom_symbol(i), tuple(cb[i])] for i in range(mol0.natm)], basis="sto-3g", verbose=0, unit="Bohr")
            ks1 = e2e.make_session(cfg, mol1, False, job["seed"], level=job["level"])
        else:
            mol1, ks1 = build(R, t, perm, cfg, job["level"], job["seed"], job.get("base", "OHF"))
        new = invariants(mol1, ks1, job["features"])
    except Exception as ex:
        return {"id": job["id"], "viol": [{"site": "exception:%s:%s" % (type(ex).__name__, tag), "detail": {"job": job, "msg": str(ex)[:300]}}], "n": 0}
    exact = job["kind"] != "arbitrary-rotation"
    tolE = 1e-10 if exact else job["tol"]
    for key in ("nelec", "exc", "trvD", "trvD2"):
        n += 1
        if abs(new[key] - ref[key]) > tolE * (1 + abs(ref[key])) * (1 if key in ("exc", "nelec") else 10):
            viol.append({"site": "invariance:%s:%s" % (key, tag), "detail": {"job": job, "ref": ref[key], "new": new[key]}})
    n += 1
    de = float(np.abs(np.array(new["eigs"]) - np.array(ref["eigs"])).max())
    if de > (1e-9 if exact else 10 * job["tol"]) * (1 + float(np.abs(ref["eigs"]).max())):
        viol.append({"site": "invariance:vmat-spectrum:%s" % tag, "detail": {"job": job, "max_diff": de}})
    if job["features"] and exact:
        # map grid points: x' = R x + t must be a point of the new grid (Lebedev sets are octahedral)
        target = ref["coords"].dot(R.T) + t / 0.52917721092
        key = lambda a: np.lexsort(np.round(a, 7).T[::-1])
        i0, i1 = key(target), key(new["coords"])
        if target.shape != new["coords"].shape or np.abs(target[i0] - new["coords"][i1]).max() > 1e-6:
            viol.append({"site": "grid-not-mapped-onto-itself:%s" % tag, "detail": {"job": job}})
        else:
            n += 1
            if np.abs(ref["weights"][i0] - new["weights"][i1]).max() > 1e-12 * (1 + np.abs(ref["weights"]).max()):
                viol.append({"site": "invariance:weights:%s" % tag, "detail": {"job": job}})
            sel = ref["rho"][i0] > 1e-6
            f0, f1 = ref["feat"][:, i0][:, sel], new["feat"][:, i1][:, sel]
            n += 1
            if f0.size and np.abs(f0 - f1).max() > 1e-8 * (1 + np.abs(f0).max()):
                bad = int(np.argmax(np.abs(f0 - f1).max(axis=1)))
                viol.append({"site": "invariance:features:%s" % tag, "detail": {"job": job, "feature": bad, "max_diff": float(np.abs(f0 - f1).max())}})
    return {"id": job["id"], "viol": viol, "n": n, "gap": ref["gap"]}


def main():
    ck = Check("C06", "exploration")
    rng = np.random.default_rng(ck.seed)
    quick = ck.tier == "quick"
    ck.rule = ("case = (octahedral operation | atom permutation | translation | arbitrary rotation) x feature family on an asymmetric "
               "three-atom molecule (O, H, F); exact operations: E_xc, nelec, tr(vmat D), tr(vmat D'), spectrum of S^-1/2 vmat S^-1/2, grid "
               "weights and per-point nonlocal features at mapped grid points; distinct = (operation, family)")
    r = run_tlc("Symmetry", "MC_Symmetry.cfg", workers=4, timeout=600)
    if r.error:
        raise MachineryError("TLC: " + r.error)
    ck.add_tlc("Symmetry", r)
    ck.exhaustive = True
    for v in r.violated:
        ck.violation("model:Symmetry:" + v, {})
    G = group48()
    fams = [{"sl": "npa", "nldf": "j", "sdmx": "G1", "plan": "gaussian", "interp": "onsite_direct", "eval": "rbf", "mode": "SEP", "mix": "xmix_c"},
            {"sl": "nst", "nldf": "i", "sdmx": "none", "plan": "spline", "interp": "onsite_direct", "eval": "kernel", "mode": "NPOL", "mix": "xmix"},
            {"sl": "np", "nldf": "k", "sdmx": "Full", "plan": "gaussian", "interp": "onsite_direct", "eval": "rbf", "mode": "SEP", "mix": "pure"},
            {"sl": "npa", "nldf": "ij", "sdmx": "1", "plan": "gaussian", "interp": "onsite_spline", "eval": "two", "mode": "SEP", "mix": "xmix"}]
    if quick:
        gsel, fams_q = G, fams
    else:
        gsel, fams_q = G, fams
    jobs = []

    def add(kind, R, t, perm, cfg, level=0, features=True, tol=None, base="OHF", inplace=False, pad_atom=None):
        jobs.append({"id": len(jobs), "kind": kind, "R": np.asarray(R).tolist(), "t": list(t), "perm": list(perm), "cfg": cfg, "level": level,
                     "features": features, "seed": 3, "tol": tol, "base": base, "inplace": inplace, "pad_atom": pad_atom})
    for cfg in fams_q:
        for R in gsel:
            add("octahedral", R, (0, 0, 0), (0, 1, 2), cfg)
        for perm in itertools.permutations(range(3)):
            if perm != (0, 1, 2):
                add("atom-permutation", np.eye(3), (0, 0, 0), perm, cfg, features=False)
        for perm in itertools.permutations(range(3)):
            if perm != (0, 1, 2):
                add("atom-permutation:repeated-element", np.eye(3), (0, 0, 0), perm, cfg, features=(perm == (1, 0, 2)), base="OHH")
        add("octahedral+permutation:repeated-element", gsel[7], (0, 0, 0), (1, 0, 2), cfg, level=1, features=False, base="OHH")
        add("translation", np.eye(3), (1.37, -2.2, 0.61), (0, 1, 2), cfg)
        add("translation:nucleus-onto-the-grid-padding-point", np.eye(3), (0, 0, 0), (0, 1, 2), cfg, features=False, pad_atom=0)
        add("translation:nucleus-onto-the-grid-padding-point", np.eye(3), (0, 0, 0), (0, 1, 2), cfg, features=False, pad_atom=1, base="OHH")
        # rigid motions applied IN PLACE to the same molecule / grid / calculator objects
        add("in-place:translation", np.eye(3), (0.9, -1.4, 0.35), (0, 1, 2), cfg, inplace=True)
        add("in-place:octahedral", gsel[5], (0, 0, 0), (0, 1, 2), cfg, inplace=True)
        add("in-place:octahedral+translation", gsel[20], (-0.6, 0.2, 1.1), (0, 1, 2), cfg, features=False, inplace=True, base="OHH")
        add("octahedral+translation+permutation", gsel[1], (0.3, 0.9, -1.1), (2, 0, 1), cfg, features=False)
        if not quick:
            for lvl, tol in ((1, 3e-5), (3, 3e-6)):
                add("arbitrary-rotation", rot((1, 2, 3), 0.7), (0, 0, 0), (0, 1, 2), cfg, level=lvl, features=False, tol=tol)
    ck.log("model: %s; %d cases" % (r, len(jobs)))
    gaps = []
    for res in run_workers(os.path.abspath(__file__), jobs, nproc=16, timeout=7000):
        if "crash" in res:
            handle_crash(ck, res)
            continue
        ck.evaluations += res["n"]
        ck.count(key=res["id"], n=0)
        gaps.append(res.get("gap", 1.0))
        for v in res["viol"]:
            ck.violation(v["site"], v["detail"], replay={"job": jobs[res["id"]]})
    if min(gaps) < 1e-3:
        raise MachineryError("reference orbitals nearly degenerate (gap %.1e): covariant density matrix ill-defined" % min(gaps))
    ck.traces = len(jobs)
    ck.sample({"kind": jobs[0]["kind"], "R": jobs[0]["R"], "cfg": jobs[0]["cfg"]})
    ck.assumptions = ["the density matrix is recomputed in each frame from the occupied orbitals of the core Hamiltonian (non-degenerate; gap checked)",
                      "tolerances: 1e-10 relative (energies), 1e-9 (matrix spectrum), 1e-8 (features); arbitrary rotations only to quadrature accuracy"]
    return ck.finish()


if __name__ == "__main__":
    if len(sys.argv) > 1 and sys.argv[1] == "--worker":
        worker_main(check)
        sys.exit(0)
    if len(sys.argv) > 2 and sys.argv[1] == "--replay":
        import json
        rp = json.load(open(sys.argv[2]))
        for occ in rp["occurrences"][:2]:
            print(check(occ["replay"]["job"]))
        sys.exit(0)
    main_wrapper(main)
