"""C10 -- results are independent of the OpenMP thread count and schedule.
  M: spec/OmpSched.tla: every region class of the C back end (disjoint worksharing, manual block
     partition, per-thread scratch + combine, critical accumulation, reduction) for all schedules and
     interleavings at read/write granularity (T<=4, N<=4), with an unsynchronised read-modify-write as
     negative control; the ceil(N/T) partition arithmetic for all N<=64, T<=16
  T: the eight team-size dependent regions log their blocks through the CIDER_VERIF_EVENT hooks;
     Trace_OmpSched requires the logged blocks to tile 0..n-1
  R: every entry point reachable from Python (end-to-end integrators, NLDF generator, interpolation
     coefficients gq/qg for every feature id, C kernel evaluators, SDMX features/potential, gradient
     term contraction, FFT copies) is run in a subprocess per team size T in {1,2,3,5,7,16} with
     problem sizes below / equal / not divisible by T and compared with T=1; repeats at fixed T"""
import cvload  # noqa: F401
import glob
import json
import os
import subprocess
import sys
from concurrent.futures import ThreadPoolExecutor

import numpy as np

from common import Check, MachineryError, PY, SPEC, VERIF, main_wrapper, run_tlc, scratch_dir, validate_records


# ------------------------------------------------------------------------------------------ child
def child(out_npz):
    import ctypes
    import e2e
    import models as M
    from ciderpress.dft.plans import NLDFGaussianPlan, NLDFSplinePlan
    from ciderpress.dft.xc_evaluator import libcider
    res = {}
    rng = np.random.default_rng(12345)
    # ---- 1. end to end
    mol = M.make_mol("H2O")
    for name, cfg, unres in (
        ("e2e_vj_g1", {"sl": "npa", "nldf": "j", "sdmx": "G1", "plan": "gaussian", "interp": "onsite_direct", "eval": "rbf", "mode": "SEP", "mix": "xmix_c"}, False),
        ("e2e_vi", {"sl": "nst", "nldf": "i", "sdmx": "none", "plan": "spline", "interp": "onsite_spline", "eval": "kernel", "mode": "NPOL", "mix": "xmix"}, True),
        ("e2e_vk_full", {"sl": "np", "nldf": "k", "sdmx": "Full", "plan": "gaussian", "interp": "onsite_direct", "eval": "rbf", "mode": "SEP", "mix": "pure"}, False),
        ("e2e_sdmx", {"sl": "npa", "nldf": "none", "sdmx": "1", "plan": "gaussian", "interp": "onsite_direct", "eval": "two", "mode": "NPOL", "mix": "libxc2"}, True),
    ):
        ks = e2e.make_session(cfg, mol, unres, 3)
        dm = e2e.random_dms(mol, np.random.default_rng(7), unres)
        fn = ks._numint.nr_uks if unres else ks._numint.nr_rks
        n_, e_, v_ = fn(mol, ks.grids, ks.xc, dm)
        res[name] = np.concatenate([np.ravel(n_), [e_], np.ravel(v_)])
    # generally contracted basis (shells with NCTR > 1 take their own branches in the SDMX / NLDF shell loops)
    molc = M.make_mol("H2O", basis="cc-pvdz")
    for name, cfg, unres in (
        ("e2e_ccpvdz_vj_g1", {"sl": "npa", "nldf": "j", "sdmx": "G1", "plan": "gaussian", "interp": "onsite_direct", "eval": "rbf", "mode": "SEP", "mix": "xmix_c"}, True),
        ("e2e_ccpvdz_sdmx", {"sl": "npa", "nldf": "none", "sdmx": "G", "plan": "gaussian", "interp": "onsite_direct", "eval": "rbf", "mode": "SEP", "mix": "xmix"}, False),
    ):
        ks = e2e.make_session(cfg, molc, unres, 3)
        dm = e2e.random_dms(molc, np.random.default_rng(7), unres)
        fn = ks._numint.nr_uks if unres else ks._numint.nr_rks
        n_, e_, v_ = fn(molc, ks.grids, ks.xc, dm)
        res[name] = np.concatenate([np.ravel(n_), [e_], np.ravel(v_)])
    # tiny grid: fewer points than threads
    he = M.make_mol("He")
    ks = e2e.make_session({"sl": "npa", "nldf": "ij", "sdmx": "SDMX", "plan": "gaussian", "interp": "onsite_direct", "eval": "rbf", "mode": "SEP", "mix": "xmix"},
                          he, False, 3, atom_grid=(3, 6))
    n_, e_, v_ = ks._numint.nr_rks(he, ks.grids, ks.xc, 2 * M.core_dm(he))
    res["e2e_tiny_grid"] = np.concatenate([[n_, e_], np.ravel(v_)])
    # ---- 2. interpolation coefficients, every feature id, both orders, sizes around the team size
    for ver, level in (("j", "MGGA"), ("i", "GGA"), ("k", "MGGA"), ("ij", "MGGA")):
        nl = M.nldf_settings(ver, level, "one", rich=ver in ("i", "j"))
        for cls in (NLDFGaussianPlan, NLDFSplinePlan):
            for order in ("gq", "qg"):
                plan = cls(nl, 1, 0.01, 1.8, 11, coef_order=order, **({"spline_size": 40} if cls is NLDFSplinePlan else {}))
                for ng in (1, 5, 16, 17, 33):
                    a = np.ascontiguousarray(np.random.default_rng(ng).uniform(0.02, 3.0, ng))
                    for i in range(-1, nl.num_feat_param_sets):
                        p, dp = plan.get_interpolation_coefficients(a, i=i)
                        res["coef_%s_%s_%s_%s_%d_%d" % (ver, level, cls.__name__[4:7], order, ng, i)] = np.concatenate([p.ravel(), dp.ravel()])
    # ---- 3. C kernel evaluators
    for fname, three in (("evaluate_se_kernel", False), ("evaluate_se_kernel_antisym", False), ("evaluate_se_kernel_spin", True)):
        fn = getattr(libcider, fname)
        nf, nc = 4, 7
        for n in (1, 3, 16, 17, 64):
            r2 = np.random.default_rng(n)
            X = r2.uniform(0, 1, size=(2, n, nf) if three else (n, nf))
            Xc = r2.uniform(0, 1, size=(2, nc, nf) if three else (nc, nf))
            al = r2.normal(size=nc)
            ex = np.ascontiguousarray(r2.uniform(0.5, 2.0, nf))
            out = np.zeros(n)
            outd = np.zeros_like(X)
            fn(out.ctypes.data_as(ctypes.c_void_p), outd.ctypes.data_as(ctypes.c_void_p), X.ctypes.data_as(ctypes.c_void_p),
               Xc.ctypes.data_as(ctypes.c_void_p), al.ctypes.data_as(ctypes.c_void_p), ex.ctypes.data_as(ctypes.c_void_p),
               ctypes.c_int(n), ctypes.c_int(nc), ctypes.c_int(nf))
            res["%s_%d" % (fname, n)] = np.concatenate([out, outd.ravel()])
    # ---- 4. SDMX generator: features + potential for coordinate counts around the team size
    from pyscf import dft
    from ciderpress.pyscf.sdmx import PySCFSDMXInitializer
    g = dft.Grids(mol)
    g.atom_grid = (8, 14)
    g.build()
    P = 2 * M.core_dm(mol)
    for kind in ("SDMX", "G1", "Full"):
        sd = M.sdmx_settings(kind)
        gen = PySCFSDMXInitializer(sd, lowmem=False).initialize_sdmx_generator(mol, 1)
        for nc in (1, 5, 16, 17, 100):
            coords = np.ascontiguousarray(g.coords[:nc])
            f = gen.get_features(P, mol, coords)
            vm = np.zeros((mol.nao, mol.nao))
            gen.get_vxc_(vm, np.random.default_rng(nc).normal(size=np.shape(f)[-2:]))
            res["sdmx_%s_%d" % (kind, nc)] = np.concatenate([np.ravel(f), vm.ravel()])
    # ---- 5. gradient term contraction (per-thread scratch + reduction)
    for ng in (0, 1, 5, 16, 17, 64, 1000):
        natm = 3
        f_g = np.random.default_rng(ng + 1).normal(size=max(ng, 1))[:ng].copy()
        atm = np.ascontiguousarray(np.random.default_rng(ng + 2).integers(0, natm, size=max(ng, 1))[:ng].astype(np.int32))
        exc = np.zeros((natm, 3))
        libcider.contract_grad_terms_parallel(exc.ctypes.data_as(ctypes.c_void_p), f_g.ctypes.data_as(ctypes.c_void_p), ctypes.c_int(natm),
                                              ctypes.c_int(1), ctypes.c_int(2), ctypes.c_int(ng), atm.ctypes.data_as(ctypes.c_void_p))
        res["contract_grad_%d" % ng] = exc.ravel()
    # ---- 6. FFT wrapper copies
    from ciderpress.lib.fft_plan import FFTWrapper
    for dims, nt, r2c, inplace, bf in (([4, 5], 3, True, True, False), ([3, 3, 4], 2, False, False, True), ([17], 5, True, False, True)):
        w = FFTWrapper(dims, ntransform=nt, fwd=True, r2c=r2c, inplace=inplace, batch_first=bf)
        x = np.random.default_rng(5).normal(size=w.input_shape) + (0 if r2c else 1j * np.random.default_rng(6).normal(size=w.input_shape))
        y = w.call(x)
        res["fft_%s_%d_%d%d%d" % ("x".join(map(str, dims)), nt, r2c, inplace, bf)] = np.concatenate([y.real.ravel(), y.imag.ravel()])
    # ---- 7. orbital-level C kernels that run inside pyscf's own parallel loop over shells (GTOeval_loop): fractional Laplacian of
    # the orbitals with and without gradients, the density ingredients built from them, and the convolved orbitals of the
    # reference-grade SDMX module for both integral types
    from ciderpress.dft.plans import FracLaplPlan
    from ciderpress.dft.settings import FracLaplSettings, SDMXSettings
    from ciderpress.pyscf.frac_lapl import FLNumInt, eval_flapl_gto
    from ciderpress.pyscf.sdmx_slow import eval_conv_gto
    mold = M.make_mol("H2O", basis="def2-svp")
    crd = np.random.default_rng(7).normal(scale=1.5, size=(6000, 3))
    for deriv in (0, 1):
        res["flapl_gto_deriv%d" % deriv] = np.ravel(np.array(eval_flapl_gto([0.5, -0.5], mold, crd, deriv=deriv), copy=True))
    gl = dft.Grids(mold)
    gl.level = 0
    gl.build()
    dmd = 2 * M.core_dm(mold)
    for nm, fls in (("nd1=2", FracLaplSettings([-1.0, -0.5, 0.25, 0.5], 4, 2, [(-1, 0), (0, 1)], nd1=2, ld_dots=[(-1, 0), (0, 1)], ndd=2)),
                    ("nd1=0", FracLaplSettings([-1.0, -0.5, 0.25, 0.5], 4, 2, [(-1, 0), (0, 1)]))):
        nif = FLNumInt(FracLaplPlan(fls, 1))
        mk = nif._gen_rho_evaluator(mold, dmd, hermi=1, with_lapl=False)[0]
        outs = [mk(0, (ao_, kao_), None, "MGGA") for (ao_, kao_), _m, _w, _c in nif.block_loop(mold, gl, deriv=1)]
        res["flapl_rho_%s" % nm] = np.ravel(np.concatenate(outs, axis=-1))
    al = np.array([0.05, 0.3, 2.0, 12.0])
    for itype in ("gauss_r2", "gauss_diff"):
        sds = SDMXSettings([1])
        sds._integral_type = itype
        for deriv in (0, 1):
            res["sdmx_slow_conv_%s_deriv%d" % (itype, deriv)] = np.ravel(np.array(
                eval_conv_gto("GTOval_sph_deriv%d" % deriv, (sds, al, (al / np.pi) ** 1.5), mold, crd[:3000]), copy=True))
    # ---- 8. radial grid <-> orbital basis with FEW shells per atom, many atoms and a radial grid of its own per atom: with a
    # dynamic schedule a thread then moves between atoms at equal angular momentum (anything a thread remembers per shell
    # quantum number across iterations is exposed)
    from ciderpress.dft.lcao_convolutions import ATCBasis, get_gamma_lists_from_etb_list
    for nm, natm, nshl in (("3s3p", 8, (3, 3)), ("4s4p", 8, (4, 4)), ("5s3p2d", 6, (5, 3, 2)), ("2s2p2d2f", 9, (2, 2, 2, 2))):
        atco = ATCBasis(*get_gamma_lists_from_etb_list([[(l, n_, 0.3, 2.2) for l, n_ in enumerate(nshl)]] * natm))
        nlm = len(nshl) ** 2
        rads, ra_loc = [], [0]
        for ia in range(natm):
            nr = 20 + 3 * (ia % 4)
            xg = (np.arange(nr) + 0.5) / nr
            rads.append((1.0 + 0.35 * ia) * 2.5 * xg ** 2 / (1.02 - xg))
            ra_loc.append(ra_loc[-1] + nr)
        rads = np.ascontiguousarray(np.concatenate(rads))
        ra_loc = np.asarray(ra_loc, dtype=np.int32)
        th = np.ascontiguousarray(np.random.default_rng(natm).normal(size=(rads.size, nlm, 3)))
        puq = np.zeros((atco.nao, 3))
        atco.convert_rad2orb_(th, puq, ra_loc, rads, rad2orb=True)
        back = np.zeros_like(th)
        ar_loc = np.ascontiguousarray(np.repeat(np.arange(natm, dtype=np.int32), np.diff(ra_loc)))    # atom of every radial point
        atco.convert_rad2orb_(back, np.ascontiguousarray(np.random.default_rng(natm + 1).normal(size=(atco.nao, 3))), ar_loc, rads, rad2orb=False)
        res["rad_orb_small_%s" % nm] = np.concatenate([puq.ravel(), back.ravel()])
    np.savez(out_npz, **res)


# ------------------------------------------------------------------------------------------ parent
def run_child(T, tag, d, trace=False):
    out = os.path.join(d, "res_%s.npz" % tag)
    env = dict(os.environ)
    env.update({"OMP_NUM_THREADS": str(T), "OPENBLAS_NUM_THREADS": "1", "OMP_DYNAMIC": "FALSE", "CIDERPRESS_VERIF": "1",
                "PYTHONPATH": os.path.join(VERIF, "harness") + ":" + env.get("PYTHONPATH", "")})
    tf = None
    if trace:
        tf = os.path.join(d, "omp_%s.txt" % tag)
        env["CIDERPRESS_VERIF_TRACE"] = tf
    else:
        env.pop("CIDERPRESS_VERIF_TRACE", None)
    p = subprocess.run([PY, os.path.abspath(__file__), "--child", out], env=env, capture_output=True, text=True, timeout=3000)
    return T, tag, out, tf, p.returncode, (p.stdout + p.stderr)[-2000:]


def parse_trace(path, tag):
    recs = []
    cur = None
    with open(path) as f:
        for line in f:
            parts = line.split()
            if len(parts) != 6:
                continue
            region, T, t, lo, hi, n = parts[0], int(parts[1]), int(parts[2]), int(parts[3]), int(parts[4]), int(parts[5])
            if cur is None or cur["region"] != region or cur["T"] != T or cur["n"] != n or t in cur["seen"]:
                if cur is not None:
                    recs.append(cur)
                cur = {"region": region, "T": T, "n": n, "seen": {}, "id": "%s#%d" % (tag, len(recs))}
            cur["seen"][t] = [lo, hi]
            if len(cur["seen"]) == T:
                recs.append(cur)
                cur = None
    if cur is not None:
        recs.append(cur)
    out = []
    for rc in recs:
        blocks = [rc["seen"].get(t, [0, -1]) for t in range(rc["T"])] if len(rc["seen"]) == rc["T"] else [rc["seen"][t] for t in sorted(rc["seen"])]
        out.append({"id": rc["id"], "region": rc["region"], "T": rc["T"], "n": rc["n"], "blocks": blocks})
    return out


def main():
    ck = Check("C10", "model_checking")
    quick = ck.tier == "quick"
    ck.rule = ("model: region class x (T, N) in {(2,3),(3,4),(3,2),(4,1),(2,0)} with all schedules/interleavings; implementation: entry point x "
               "problem size (below/equal/above/not divisible by the team) x team size in {1,2,3,5,7,16}: outputs compared with T=1, logged "
               "partitions validated by Trace_OmpSched; distinct = (entry, size, T)")
    cfgs = sorted(glob.glob(os.path.join(SPEC, "MC_OmpSched_*_*_*.cfg")))
    with ThreadPoolExecutor(max_workers=8) as ex:
        results = list(ex.map(lambda c: (c, run_tlc("OmpSched", os.path.basename(c), workers=2, timeout=900)), cfgs))
    for c, r in results:
        name = os.path.basename(c)[12:-4]
        if r.error:
            raise MachineryError("TLC %s: %s" % (name, r.error))
        ck.add_tlc("OmpSched/" + name, r)
        if name.startswith("unsync"):
            continue
        for v in r.violated:
            ck.violation("model:OmpSched/%s:%s" % (name, v), {})
    neg = [r for c, r in results if "unsync_3_4" in c or "unsync_2_3" in c]
    if not all("FinalIsSequential" in r.violated for r in neg):
        raise MachineryError("negative control: the unsynchronised read-modify-write was not flagged by the model")
    ck.extra["negative_control"] = "unsynchronised read-modify-write violates FinalIsSequential in the model (lost update)"
    r = run_tlc("MC_OmpSched", "MC_OmpSched_arith.cfg", workers=2, timeout=600)
    if r.violated or r.error:
        ck.violation("model:partition-arithmetic", {"tlc": (r.error or "")[-500:]})
    ck.exhaustive = True
    ck.log("model: %d region-class configurations, %d states" % (len(results), ck.states))
    # ---- implementation runs
    d = scratch_dir("c10")
    Ts = (1, 2, 3, 5, 7, 16)
    runs = [(T, "T%d" % T, True) for T in Ts] + [(3, "T3r", False), (16, "T16r", False)] + ([] if quick else [(5, "T5r", False), (16, "T16r2", False)])
    with ThreadPoolExecutor(max_workers=3) as ex:
        outs = list(ex.map(lambda a: run_child(a[0], a[1], d, trace=a[2]), runs))
    data = {}
    trace_recs = []
    for T, tag, out, tf, rc, log in outs:
        if rc != 0:
            if rc < 0 or rc >= 128:
                ck.violation("child-died:T=%d" % T, {"returncode": rc, "log": log[-600:]})
                continue
            raise MachineryError("child T=%d failed rc=%d\n%s" % (T, rc, log))
        data[tag] = dict(np.load(out))
        if tf and os.path.exists(tf):
            trace_recs += parse_trace(tf, tag)
    ref = data.get("T1")
    if ref is None:
        raise MachineryError("no reference run")
    nbit = 0
    for tag, dd in sorted(data.items()):
        if tag == "T1":
            continue
        base = data["T" + tag[1:].rstrip("r2").rstrip("r")] if tag.endswith(("r", "r2")) else ref
        kind = "repeat" if tag.endswith(("r", "r2")) else "threads"
        for key, arr in dd.items():
            b = base[key]
            ck.count(key=(key, tag))
            if arr.shape != b.shape:
                ck.violation("%s:%s:shape" % (kind, key.split("_")[0]), {"entry": key, "tag": tag})
                continue
            if np.array_equal(arr, b):
                nbit += 1
                continue
            sc = max(1.0, float(np.abs(b).max()) if b.size else 1.0)
            err = float(np.abs(arr - b).max() / sc) if b.size else 0.0
            if not err <= 1e-12:
                ent = key.split("_")[0] + ("_" + key.split("_")[1] if key.startswith(("e2e", "coef", "sdmx", "evaluate", "contract")) else "")
                ck.violation("%s:%s:differs" % (kind, ent), {"entry": key, "run": tag, "rel": err})
    ck.extra["bit_identical_comparisons"] = nbit
    ck.extra["entries_per_run"] = len(ref)
    ck.sample({"entry": sorted(ref.keys())[0], "runs": sorted(data.keys())})
    # ---- T: partitions logged by the hooks
    if not trace_recs:
        raise MachineryError("hooks produced no partition events (library built without -DCIDERPRESS_VERIF?)")
    regions = sorted({rc["region"] for rc in trace_recs})
    ck.extra["regions_observed"] = regions
    if len(regions) < 5:
        raise MachineryError("only %d of the 7 hooked regions were reached: %s" % (len(regions), regions))
    # de-duplicate identical invocations
    uniq = {}
    for rc in trace_recs:
        uniq.setdefault((rc["region"], rc["T"], rc["n"], json.dumps(rc["blocks"])), rc)
    recs = list(uniq.values())
    res = validate_records("Trace_OmpSched", "Trace_OmpSched.cfg", recs, nchunks=4)
    ck.traces += res["accepted"]
    ck.states += res["states"]
    ck.transitions += res["generated"]
    byid = {rc["id"]: rc for rc in recs}
    for rid, inv in res["rejected"]:
        rc = byid[rid]
        ck.violation("trace:%s:%s" % (rc["region"], inv), {"T": rc["T"], "n": rc["n"], "blocks": rc["blocks"]})
    if res["drift"]:
        ck.notes.append("model drift: %d invocations tile but differ from the ceil(n/T) formula" % len(res["drift"]))
    ck.sample({"partition": recs[len(recs) // 2]})
    # binding self-test
    bad = dict(recs[-1], id="selftest", blocks=[list(b) for b in recs[-1]["blocks"]])
    k = next((k for k, b in enumerate(bad["blocks"]) if b[1] > b[0]), None)
    if k is not None:
        bad["blocks"][k][1] -= 1
        st = validate_records("Trace_OmpSched", "Trace_OmpSched.cfg", [bad], nchunks=1)
        if not st["rejected"]:
            raise MachineryError("self-test: a block with a missing iteration was accepted")
        ck.extra["selftest"] = "shortening one logged block by one iteration is rejected (%s)" % st["rejected"][0][1]
    import shutil
    shutil.rmtree(d, ignore_errors=True)
    ck.assumptions = ["a data race on a shared temporary inside a plain 'omp for' body manifests only under true concurrency and only sometimes: the model "
                      "shows the patterns are race free, the hooks and comparisons show the code follows the partition arithmetic; detection of a newly "
                      "introduced unsynchronised shared scalar is probabilistic (repeated runs at T=16, small per-iteration work)",
                      "nr_numint.c is not loaded by any Python module of the package and is not exercised", "OPENBLAS_NUM_THREADS=1"]
    return ck.finish()


if __name__ == "__main__":
    if len(sys.argv) > 2 and sys.argv[1] == "--child":
        child(sys.argv[2])
        sys.exit(0)
    if len(sys.argv) > 2 and sys.argv[1] == "--replay":
        print(open(sys.argv[2]).read()[:3000])
        sys.exit(0)
    main_wrapper(main)
