"""C16 -- Gaussian-process training solves the documented linear system.
  M: spec/GPTrain.tla (dictionaries, reaction lists, append order incl. failing adds) -- TLC exhaustive
     for kernel layouts (x,c), (x), (c,x)
  R: histories simulated by TLC are replayed on real MOLGP objects with synthetic training data written
     as hdf5 (so store_mol_covs runs); after every operation the projection (error?, list lengths,
     which reaction each row belongs to, stored systems) equals the specification's state; after
     every successful fit the weights / residual / likelihood are compared with independent numpy /
     scipy computations; order invariance and reset+re-add identity"""
import cvload  # noqa: F401
import contextlib
import io
import os
import shutil
import sys

import numpy as np
from scipy.stats import multivariate_normal

from common import Check, MachineryError, main_wrapper, run_tlc, scratch_dir, tlc_printed_values

KCAL = 0.00159360109742136
RXNS = {
    "r1": (0, {"structs": ["s1"], "counts": [1]}),
    "r2": (0, {"structs": ["s1", "s2"], "counts": [2, -1], "noise": 0.01}),
    "r3": (2, {"structs": ["s2", "s3"], "counts": [1, -2], "energy": 12.5, "noise_factor": 0.5}),
    "r4": (2, {"structs": ["s1"], "counts": [1], "energy": -30.0, "unit": 1.0 / 627.5095, "weight": 4.0, "noise_rel_factor": 0.01}),
    # a system listed twice (A2 - A - A): the counts of repeated entries add up
    "r5": (2, {"structs": ["s2", "s1", "s1"], "counts": [1, -1, -1], "energy": 3.5}),
    # orbital-derivative entries: an entry (system, (kind, index)) stands for the derivative of the system's energy with respect
    # to the occupation of that orbital (eigenvalue data); looked up in the derivative dictionaries
    "r6": (0, {"structs": [("s1", ("O", 0))], "counts": [1], "noise": 0.02}),
    "r7": (0, {"structs": [("s2", ("U", 0)), "s1", ("s2", ("O", 1))], "counts": [1, -1, 0.5]}),
    # an XC reaction with such an entry: the Kohn-Sham baseline dictionary has no orbital entries (KeyError after the exchange rows)
    "r8": (2, {"structs": ["s1", ("s1", ("O", 1))], "counts": [1, 1], "energy": 1.0}),
}
ORBS = {"O": [0, 1], "U": [0]}


def plain_systems(rx):
    return {s for s in rx["structs"] if not isinstance(s, tuple)}


def deriv_systems(rx):
    return {s[0] for s in rx["structs"] if isinstance(s, tuple)}


def entry(d_plain, d_deriv, s):
    """value of a dictionary pair at a reaction entry"""
    return d_deriv[s[0]][s[1]] if isinstance(s, tuple) else d_plain[s]


def quiet(fn, *a, **k):
    with contextlib.redirect_stdout(io.StringIO()):
        return fn(*a, **k)


class World:
    def __init__(self, tmp, comp, seed, mode="SEP"):
        import models as M
        from pyscf.lib import chkfile
        from ciderpress.dft import baselines
        from ciderpress.dft.transform_data import FeatureList, UMap
        from ciderpress.models.dft_kernel import DFTKernel
        from ciderpress.models.kernel_plans.kernel_tools import get_rbf_kernel
        from ciderpress.models.train import MOLGP
        rng = np.random.default_rng(seed)
        self.rng = rng
        self.settings = M.feature_settings("npa", "j", "none")
        nf = self.settings.nfeat
        self.ddir = {"REF": os.path.join(tmp, "REF"), "SL": os.path.join(tmp, "SL"), "NLDF": None, "NLOF": None, "SDMX": None, "HYB": None}
        for d in (self.ddir["REF"], self.ddir["SL"]):
            os.makedirs(d, exist_ok=True)
        self.data = {}
        for sid, nspin in (("s1", 1), ("s2", 2), ("s3", 1)):
            n = 37
            desc = np.empty((nspin, nf, n))
            desc[:, 0] = np.exp(rng.uniform(np.log(1e-3), np.log(2.0), size=(nspin, n)))
            desc[:, 0, :4] = 1e-8                     # low-density points under the 1e-6 training mask
            desc[:, 1] = rng.uniform(0.0, 2.0, size=(nspin, n))
            desc[:, 2] = rng.uniform(0.0, 2.0, size=(nspin, n))
            desc[:, 3:] = rng.uniform(0.2, 3.0, size=(nspin, nf - 3, n))
            wt = rng.uniform(0.05, 0.5, size=n)
            val = -rng.uniform(0.1, 1.0, size=n)
            ref = {"wt": wt, "val": val, "e_tot_orig": float(-10 - rng.uniform()), "exc_orig": float(-2 - rng.uniform()), "nspin": nspin}
            # occupation derivatives of the raw features for the orbitals of ORBS (format of descriptors.get_descriptors:
            # an array per orbital, (spin, array) for spin-polarised systems) and the reference eigenvalue contributions
            ddesc, dval = {}, {}
            for kind, idxs in ORBS.items():
                ddesc[kind], dval[kind] = {}, {}
                for io in idxs:
                    arr = rng.normal(size=(nf, n)) * np.maximum(desc[0, :1], 1e-3)
                    arr[0] = np.abs(arr[0])
                    ddesc[kind][str(io)] = [int((io + len(kind)) % 2), arr] if nspin == 2 else arr
                    dval[kind][str(io)] = float(-rng.uniform(0.1, 0.6))
            ref["dval"] = dval
            chkfile.save(os.path.join(self.ddir["REF"], sid + ".hdf5"), "train_data", ref)
            chkfile.save(os.path.join(self.ddir["SL"], sid + ".hdf5"), "train_data", {"desc": desc, "ddesc": ddesc})
            self.data[sid] = (desc, wt, val, ref)
        self.kernels = []
        for k, comp_k in enumerate(comp):
            fl = FeatureList([UMap(i, 0.3 + 0.1 * i) for i in range(1, nf)])
            n1 = fl.nfeat
            kern = get_rbf_kernel(slice(0, n1), 0.5 + 0.1 * np.arange(n1) + 0.05 * k, scale=1.0 + 0.3 * k)
            dk = DFTKernel(kern, fl, mode if comp_k == "x" else "NPOL", baselines.lda_x if comp_k == "x" else baselines.one_xc,
                           # exchange kernels: no additive baseline (the usual set-up) or a non-zero one (so that the baseline
                           # dictionaries of exchange kernels, plain and derivative, enter the labels)
                           (baselines.zero_xc if seed % 2 else baselines.gga_x_pbe) if comp_k == "x" else baselines.gga_c_pbe, component=comp_k, ctrl_tol=1e-4)
            self.kernels.append(dk)
        self.gp = MOLGP(self.kernels, self.settings, default_noise=0.03)
        X0T_list = [self.settings.normalizers.get_normalized_feature_vector(self.data[s][0][..., 4:]) for s in ("s1", "s2", "s3")]
        quiet(self.gp.set_control_points, X0T_list, reduce=True)

    def project(self):
        gp = self.gp
        return {"cov": [sorted(k.cov_dict.keys()) for k in gp.kernels], "refs": sorted(gp.exx_ref_dict.keys()),
                "dcov": [sorted(k.dcov_dict.keys()) for k in gp.kernels], "drefs": sorted(gp.dexx_ref_dict.keys()),
                "nref": len(gp.rxn_ref_list), "nnoise": len(gp.rxn_noise_list), "ncov": [len(k.rxn_cov_list) for k in gp.kernels]}


def spec_replay(comp, hist):
    """GPTrain.tla's transition function, re-stated on Python values to get the expected projection
    after every operation of a history printed by TLC (kept in lock-step with the model by TLC's own
    checks of AlignedUnlessFailed / FitUsesCurrent; any divergence shows up as a projection mismatch)."""
    nk = len(comp)
    XK = [k for k in range(nk) if comp[k] == "x"]
    CK = [k for k in range(nk) if comp[k] != "x"]
    cov = [set() for _ in range(nk)]
    dcov = [set() for _ in range(nk)]
    refs, drefs = set(), set()
    rr, rn, rc = [], [], [[] for _ in range(nk)]
    out = []
    for op in hist:
        err = False
        if op[0] == "store":
            ids, getcorr, deriv = set(op[1]), op[2], op[3]
            for k in range(nk):
                if getcorr or comp[k] == "x":
                    cov[k] |= ids
                    if deriv:
                        dcov[k] |= ids
                        drefs |= ids
            if getcorr or comp[0] == "x":
                refs |= ids
        elif op[0] == "add":
            for rid in op[1]:
                mode, rx = RXNS[rid]
                need, dneed = plain_systems(rx), deriv_systems(rx)
                if mode == 0 and not (need <= refs and dneed <= drefs):
                    err = True
                    break
                bad = False
                for k in XK:
                    if need <= cov[k] and dneed <= dcov[k]:
                        rc[k].append(rid)
                    else:
                        bad = True
                        break
                if bad:
                    err = True
                    break
                if mode == 2:
                    if not need <= refs or dneed:
                        err = True
                        break
                    for k in CK:
                        if need <= cov[k] and dneed <= dcov[k]:
                            rc[k].append(rid)
                        else:
                            bad = True
                            break
                    if bad:
                        err = True
                        break
                else:
                    for k in CK:
                        rc[k].append("zero")
                rr.append(rid)
                rn.append(rid)
        elif op[0] == "reset":
            rr, rn, rc = [], [], [[] for _ in range(nk)]
        elif op[0] == "fit":
            aligned = all(len(x) == len(rr) for x in rc) and len(rn) == len(rr)
            err = not (aligned and len(rr) > 0)
        out.append({"err": err, "cov": [sorted(c) for c in cov], "refs": sorted(refs), "dcov": [sorted(c) for c in dcov], "drefs": sorted(drefs), "nref": len(rr), "nnoise": len(rn),
                    "ncov": [len(x) for x in rc], "rows": [list(x) for x in rc], "rxns": list(rr)})
    return out


def oracle_fit(ck, W, exp, tag):
    """independent check of the solved weights, residual and likelihood"""
    gp = W.gp
    y = np.array(gp.rxn_ref_list)
    noise = np.array(gp.rxn_noise_list)
    n = y.size
    # labels recomputed from the stored references and baselines
    for r, rid in enumerate(exp["rxns"]):
        mode, rx = RXNS[rid]
        lab = 0.0
        if mode == 0:
            lab += sum(c * entry(gp.exx_ref_dict, gp.dexx_ref_dict, s) for s, c in zip(rx["structs"], rx["counts"]))
        else:
            lab += rx["energy"] * rx.get("unit", KCAL) - sum(c * gp.ks_baseline_dict[s] for s, c in zip(rx["structs"], rx["counts"]))
        for k in gp.kernels:
            if k.component == "x" or mode == 2:
                lab -= sum(c * entry(k.base_dict, k.dbase_dict, s) for s, c in zip(rx["structs"], rx["counts"]))
        if abs(lab - y[r]) > 1e-10 * (1 + abs(lab)):
            ck.violation("fit:label:%s" % rid, {"tag": tag, "impl": float(y[r]), "expected": float(lab)})
        nz = 0.03
        if "noise" in rx:
            nz = rx["noise"]
        elif "noise_factor" in rx:
            nz = rx["noise_factor"] * 0.03
        if "noise_rel_factor" in rx:
            nz += rx["noise_rel_factor"] * abs(lab)
        if "weight" in rx:
            nz /= np.sqrt(rx["weight"])
        if abs(nz - noise[r]) > 1e-12 * (1 + nz):
            ck.violation("fit:noise:%s" % rid, {"tag": tag, "impl": float(noise[r]), "expected": float(nz)})
    Kcov = np.zeros((n, n))
    parts = []
    for ki, k in enumerate(gp.kernels):
        Kmm = k.kernel(k.X1ctrl, k.X1ctrl) if k.mode != "POL" else k.get_kctrl()
        rows = []
        for r, rid in enumerate(exp["rows"][ki]):
            if rid == "zero":
                rows.append(np.zeros(Kmm.shape[0]))
            else:
                _, rx = RXNS[rid]
                rows.append(sum(c * entry(k.cov_dict, k.dcov_dict, s) for s, c in zip(rx["structs"], rx["counts"])))
        Kmn = np.array(rows).T
        sol = np.linalg.solve(Kmm + 1e-9 * np.eye(Kmm.shape[0]), Kmn)
        Kcov += Kmn.T.dot(sol)
        parts.append(sol)
    Sigma = np.diag(noise ** 2) + 1e-9 * np.eye(n)
    am = np.linalg.solve(Kcov + Sigma, y)
    if np.abs(am - gp.alpha_mol_).max() > 1e-7 * (1 + np.abs(am).max()):
        ck.violation("fit:reaction-weights", {"tag": tag, "err": float(np.abs(am - gp.alpha_mol_).max())})
    for ki, k in enumerate(gp.kernels):
        a_ref = parts[ki].dot(am)
        if np.abs(a_ref - k.alpha).max() > 1e-6 * (1 + np.abs(a_ref).max()):
            ck.violation("fit:kernel-weights:kernel%d" % ki, {"tag": tag, "err": float(np.abs(a_ref - k.alpha).max())})
    # residual on the training reactions = Sigma alpha_mol
    pred = sum(np.array([(sum(c * entry(k.cov_dict, k.dcov_dict, s) for s, c in zip(RXNS[rid][1]["structs"], RXNS[rid][1]["counts"])) if rid != "zero"
                          else np.zeros(k.Nctrl)) for rid in exp["rows"][ki]]).dot(k.alpha) for ki, k in enumerate(gp.kernels))
    if np.abs((y - pred) - Sigma.dot(gp.alpha_mol_)).max() > 1e-6 * (1 + np.abs(y).max()):
        ck.violation("fit:residual-not-noise-times-weights", {"tag": tag, "err": float(np.abs((y - pred) - Sigma.dot(gp.alpha_mol_)).max())})
    # likelihood = Gaussian log marginal likelihood for the stated covariance
    for x, smin in ((np.array([1.0, 1.0]), 0.25), (np.array([0.7, 1.3]), 0.5), (np.array([1.0, np.sqrt(0.75)]), 0.25)):
        ll = gp.compute_likelihood(x=x, sigma_min=smin)
        Kfull = x[0] ** 2 * Kcov + (smin + x[1] ** 2) * Sigma
        ref = multivariate_normal.logpdf(y, mean=np.zeros(n), cov=Kfull, allow_singular=False)
        if abs(ll - ref) > 1e-6 * (1 + abs(ref)):
            ck.violation("likelihood", {"tag": tag, "impl": float(ll), "scipy": float(ref), "x": x.tolist(), "sigma_min": smin})
    return am


def replay(ck, comp, hist, tmp, seed, mode):
    W = World(tmp, comp, seed, mode)
    exp_states = spec_replay(comp, hist)
    tag = "%s:%s" % ("".join(comp), mode)
    for step, (op, exp) in enumerate(zip(hist, exp_states)):
        err = False
        try:
            if op[0] == "store":
                # "read the derivatives iff the files have them" (None) is the same request as True for these files
                quiet(W.gp.store_mol_covs, W.ddir, sorted(op[1]), get_orb_deriv=(None if (op[3] and step % 2) else bool(op[3])), get_correlation=op[2])
            elif op[0] == "add":
                W.gp.add_reactions([(RXNS[r][0], dict(RXNS[r][1])) for r in op[1]])
            elif op[0] == "reset":
                W.gp.reset_reactions()
            elif op[0] == "fit":
                W.gp.fit()
        except Exception as ex:
            err = type(ex).__name__
        pr = W.project()
        if bool(err) != exp["err"]:
            ck.violation("projection:%s:%s:%s" % (tag, op[0], "unexpected-" + str(err) if err else "expected-error-missing"),
                         {"hist": hist, "step": step, "impl": pr, "spec": {k: exp[k] for k in pr}}, replay={"comp": comp, "hist": hist})
            return
        for key in ("cov", "refs", "dcov", "drefs", "nref", "nnoise", "ncov"):
            if pr[key] != exp[key]:
                ck.violation("projection:%s:%s:%s-differs" % (tag, op[0], key), {"hist": hist, "step": step, "impl": pr[key], "spec": exp[key]},
                             replay={"comp": comp, "hist": hist})
                return
        if op[0] == "fit" and not err:
            am = oracle_fit(ck, W, exp, tag)
            # order invariance + reset/re-add identity
            rx = exp["rxns"]
            if len(rx) >= 2:
                W.gp.reset_reactions()
                W.gp.add_reactions([(RXNS[r][0], dict(RXNS[r][1])) for r in reversed(rx)])
                W.gp.fit()
                if np.abs(W.gp.alpha_mol_[::-1] - am).max() > 1e-7 * (1 + np.abs(am).max()):
                    ck.violation("fit:not-invariant-under-reaction-order", {"tag": tag, "rxns": rx})
                W.gp.reset_reactions()
                W.gp.add_reactions([(RXNS[r][0], dict(RXNS[r][1])) for r in rx])
                W.gp.fit()
                if np.abs(W.gp.alpha_mol_ - am).max() > 1e-10 * (1 + np.abs(am).max()):
                    ck.violation("fit:reset-and-re-add-changes-result", {"tag": tag, "rxns": rx})
            ck.count(key=("fit", tag, tuple(rx)))
    ck.count(key=("hist", tag, repr(hist)))


def main():
    ck = Check("C16", "model_checking")
    rng = np.random.default_rng(ck.seed)
    quick = ck.tier == "quick"
    ck.rule = ("history = <=5 operations (store_mol_covs(ids, get_correlation, get_orb_deriv) | add_reactions(<=2 reactions) | reset_reactions | fit) "
               "simulated by TLC for three kernel layouts; replayed on MOLGP with synthetic hdf5 training data; distinct = (layout, "
               "history); non-trivial = contains a successful fit or a failing add")
    total_hists = {}
    for comp_name, comp in (("XC", ["x", "c"]), ("X", ["x"]), ("CX", ["c", "x"])):
        r = run_tlc("MC_GPTrain", "MC_GPTrain_%s%s.cfg" % (comp_name, "" if quick else "_deep"), workers=16, timeout=3000, coverage=(comp_name == "XC"))
        if r.error:
            raise MachineryError("TLC: " + r.error)
        ck.add_tlc("GPTrain/" + comp_name, r, require_actions=("Store", "AddReactions", "Reset", "Fit") if comp_name == "XC" else ())
        for v in r.violated:
            ck.violation("model:GPTrain/%s:%s" % (comp_name, v), {})
        rs = run_tlc("MC_GPTrain", "MC_GPTrain_%s_sim.cfg" % comp_name, workers=1, timeout=600,
                     simulate="num=%d" % (20000 if quick else 100000), extra=["-depth", "6", "-seed", str(ck.seed + 5)])
        hs = tlc_printed_values(rs.out, "HIST")
        if len(hs) < 100:
            raise MachineryError("simulation produced %d histories\n%s" % (len(hs), rs.out[-1500:]))
        total_hists[comp_name] = (comp, hs)
    ck.exhaustive = True
    tmp = scratch_dir("c16")
    try:
        for comp_name, (comp, hs) in total_hists.items():
            # prefer histories with a fit after adds, and with failing adds
            def score(h):
                ops = [o[0] for o in h]
                s = 0
                if "fit" in ops and "add" in ops and ops.index("add") < len(ops) - 1 - ops[::-1].index("fit"):
                    s += 2
                if "store" in ops:
                    s += 1
                if "reset" in ops:
                    s += 0.5
                return s
            uniq = {repr(h): h for h in hs}
            def norm(h):
                return [[o[0]] + ([sorted(o[1]), o[2], o[3]] if o[0] == "store" else [list(o[1])] if o[0] == "add" else []) for o in h]
            good, failing, rest = [], [], []
            for h in uniq.values():
                st = spec_replay(comp, norm(h))
                fits = [i for i, o in enumerate(h) if o[0] == "fit" and not st[i]["err"]]
                if fits and max(st[i]["nref"] for i in fits) >= 2:
                    good.append(h)
                elif any(o[0] == "add" and st[i]["err"] for i, o in enumerate(h)):
                    failing.append(h)
                else:
                    rest.append(h)
            for lst in (good, failing, rest):
                lst.sort(key=repr)
                rng.shuffle(lst)
            want = 90 if quick else 900
            pick = good[: want // 2] + failing[: want // 4] + rest[: want // 4]
            for hi, h in enumerate(pick):
                hist = norm(h)
                mode = ("SEP", "NPOL", "SEP", "NPOL", "POL")[hi % 5]
                if mode == "POL":      # occupation derivatives cannot be computed for POL kernels (known finding F32 of C15): plain stores only
                    hist = [[o[0], o[1], o[2], False] if o[0] == "store" else o for o in hist]
                replay(ck, comp, hist, os.path.join(tmp, "%s_%d" % (comp_name, hi)), ck.seed + hi, mode)
                ck.traces += 1
                if len(ck.samples) < 3 and any(o[0] == "fit" for o in hist):
                    ck.sample({"layout": comp, "history": hist})
    finally:
        shutil.rmtree(tmp, ignore_errors=True)
    nfit = sum(1 for k in ck.distinct if isinstance(k, tuple) and k[0] == 'fit')
    ck.extra["successful_fits_checked"] = nfit
    nder = sum(1 for k in ck.distinct if isinstance(k, tuple) and k[0] == 'fit' and any(r in ("r6", "r7") for r in k[2]))
    ck.extra["successful_fits_with_orbital_derivative_entries"] = nder
    if nder < 3:
        raise MachineryError("vacuous: only %d successful fits contained orbital-derivative entries" % nder)
    if nfit < 20:
        raise MachineryError("vacuous: only %d successful fits were replayed" % nfit)
    ck.assumptions = ["synthetic training data (random features incl. points under the 1e-6 training mask) written with pyscf chkfile",
                      "MOLGP2 (libxc baselines through DFTKernel2) is not exercised", "POL exchange kernels are trained without orbital-derivative data (DFTKernel.get_k_and_deriv cannot run in POL mode: F32)", "weights compared to 1e-6..1e-7 relative (Cholesky vs LU)"]
    return ck.finish()


if __name__ == "__main__":
    if len(sys.argv) > 2 and sys.argv[1] == "--replay":
        import json
        rp = json.load(open(sys.argv[2]))
        ck = Check("C16", "model_checking")
        tmp = scratch_dir("c16r")
        for occ in rp["occurrences"][:2]:
            if occ.get("replay"):
                replay(ck, occ["replay"]["comp"], occ["replay"]["hist"], tmp, 0, "SEP")
        print(ck.violations)
        shutil.rmtree(tmp, ignore_errors=True)
        sys.exit(0)
    main_wrapper(main)
