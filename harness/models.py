"""Synthetic settings / models / molecules / calculators, deterministic from a seed.
No functional files ship with the repository in this sandbox, so every driver builds mapped
models of the same shape as the shipped ones: settings + normalisers + feature list + kernel +
random control points/weights + baseline -> DFTKernel.map -> MappedXC."""
import cvload  # noqa: F401
import numpy as np
from pyscf import dft, gto

from ciderpress.dft import baselines
from ciderpress.dft.settings import (
    FeatureSettings,
    FracLaplSettings,
    NLDFSettingsVI,
    NLDFSettingsVIJ,
    NLDFSettingsVJ,
    NLDFSettingsVK,
    SDMX1Settings,
    SDMXFullSettings,
    SDMXG1Settings,
    SDMXGSettings,
    SDMXSettings,
    SemilocalSettings,
)
from ciderpress.dft.transform_data import FeatureList, UMap
from ciderpress.dft.xc_evaluator import KernelEvaluator, MappedXC, RBFEvaluator
from ciderpress.models.dft_kernel import DFTKernel
from ciderpress.models.kernel_plans.kernel_tools import get_rbf_kernel

THETA = {"MGGA": [1.0, 0.007, 0.03125], "GGA": [1.0, 0.03125]}    # nonzero gradient coefficient at both levels
FP1 = {"MGGA": [2.0, 0.004, 0.04], "GGA": [2.0, 0.04]}
FP2 = {"MGGA": [0.5, 0.0, 0.02], "GGA": [0.5, 0.02]}
FP3 = {"MGGA": [1.0, 0.01, 0.03, 1.2], "GGA": [1.0, 0.03, 1.2]}  # erf spec: one more param


def nldf_settings(ver, level="MGGA", rho_mult="one", rich=False):
    th = list(THETA[level])
    if ver is None or ver == "none":
        return None
    if ver == "j":
        specs, params = ["se", "se_ar2"], [list(FP1[level]), list(FP2[level])]
        if rich:
            specs += ["se_a2r4", "se_erf_rinv"]
            params += [list(FP1[level]), list(FP3[level])]
        return NLDFSettingsVJ(level, th, rho_mult, specs, params)
    if ver == "i":
        l0 = ["se", "se_r2", "se_apr2", "se_ap"] if not rich else ["se", "se_r2", "se_apr2", "se_ap", "se_ap2r2", "se_lapl"]
        l1 = ["se_grad"] if not rich else ["se_grad", "se_rvec"]
        dots = [(0, 0), (-1, 0)] if not rich else [(0, 0), (-1, 0), (0, 1), (-1, 1), (1, 1)]
        return NLDFSettingsVI(level, th, rho_mult, l0, l1, dots)
    if ver == "ij":
        return NLDFSettingsVIJ(level, th, rho_mult, ["se", "se_r2"], ["se_grad"], [(0, 0), (-1, 0)],
                               ["se", "se_ar2"], [list(FP1[level]), list(FP2[level])])
    if ver == "k":
        return NLDFSettingsVK(level, th, rho_mult, [list(FP1[level]), list(FP2[level])], "exponential")
    raise ValueError(ver)


def sdmx_settings(kind):
    if kind is None or kind == "none":
        return None
    if kind == "SDMX":
        return SDMXSettings([0, 1])
    if kind == "G":
        return SDMXGSettings([0, 1], 1)
    if kind == "1":
        return SDMX1Settings([0, 1], 1)
    if kind == "G1":
        return SDMXG1Settings([0, 1], 1, 1)
    if kind == "Full":
        return SDMXFullSettings({1.0: ([0, 1], [2, 1, 1, 0]), 2.0: ([0, 1], [1, 0, 1, 1])})
    raise ValueError(kind)


def nlof_settings(kind):
    if kind is None or kind == "none":
        return None
    return FracLaplSettings([-0.5, 0.5], 2, 1, [(0, 0)], nd1=1)


def feature_settings(sl="npa", nldf="j", sdmx="none", nlof="none", level=None, rho_mult="one", rich=False):
    sls = SemilocalSettings(sl)
    lvl = level or ("MGGA" if sl in ("nst", "npa") else "GGA")
    st = FeatureSettings(sl_settings=sls, nldf_settings=nldf_settings(nldf, lvl, rho_mult, rich),
                         nlof_settings=nlof_settings(nlof), sdmx_settings=sdmx_settings(sdmx))
    st.assign_reasonable_normalizer()
    return st


def make_model(settings, seed=0, mode="SEP", evaluator="rbf", nctrl=12, mul="lda_x", add="zero", scale=0.05,
               skip_first=True):
    """A MappedXC with one kernel reading (almost) every feature through a UMap."""
    rng = np.random.default_rng(seed)
    nf = settings.nfeat
    first = 1 if skip_first else 0
    fl = FeatureList([UMap(i, 0.3 + 0.1 * (i % 5)) for i in range(first, nf)])
    n1 = fl.nfeat
    kern = get_rbf_kernel(slice(0, n1), np.ones(n1) * 0.7 + 0.05 * np.arange(n1), scale=1.0)
    dk = DFTKernel(kern, fl, mode, getattr(baselines, mul), getattr(baselines, {"zero": "zero_xc", "one": "one_xc"}.get(add, add)))
    dk.X1ctrl = rng.uniform(0, 1, size=(nctrl, n1 if mode != "POL" else 2 * n1)) if mode == "POL" else rng.uniform(0, 1, size=(nctrl, n1))
    dk.alpha = rng.normal(size=nctrl) * scale
    if evaluator == "rbf" and mode != "POL":
        mk = dk.map(lambda k: RBFEvaluator(k.kernel, k.X1ctrl, k.alpha))
    else:
        mk = dk.map(lambda k: KernelEvaluator(k.kernel, k.X1ctrl, k.alpha))
    return MappedXC([mk], settings)


MOLS = {
    "H2O": dict(atom="O 0 0 0.1; H 0 0.757 0.587; H 0 -0.757 0.587", spin=0),
    "H2O_b": dict(atom="O 0 0 0.05; H 0.1 0.80 0.55; H 0 -0.70 0.60", spin=0),
    "OH": dict(atom="O 0 0 0; H 0 0.757 0.587", spin=1),
    "HF": dict(atom="H 0 0 0; F 0 0.1 0.92", spin=0),
    "LiH": dict(atom="Li 0 0 0; H 0 0 1.6", spin=0),
    "HeH+": dict(atom="He 0 0 0; H 0 0 0.8", spin=0, charge=1),
    "H2": dict(atom="H 0 0 0; H 0 0 0.74", spin=0),
    "HeH": dict(atom="He 0 0 0; H 0 0 0.9", spin=1),
    "He": dict(atom="He 0 0 0", spin=0),
    "NH2": dict(atom="N 0 0 0; H 0 0.8 0.6; H 0 -0.8 0.6", spin=1),
    "H": dict(atom="H 0 0 0", spin=1),                       # one electron: the beta channel is exactly empty
    # a ghost centre: basis functions without a nucleus (counterpoise set-ups); it owns no atomic grid
    "H2O_ghost": dict(atom="O 0 0 0.1; H 0 0.757 0.587; H 0 -0.757 0.587; ghost-He 0 0 1.6", spin=0),
}


def make_mol(name, basis="sto-3g"):
    """name or name@bohr: the same molecule with its geometry GIVEN in Bohr (mol.unit = 'Bohr'; what pyscf's geometry
    optimisers and scanners produce through mol.set_geom_(coords, unit='Bohr'))"""
    if name.endswith("@bohr"):
        d = dict(MOLS[name[:-5]])
        a = gto.M(basis=basis, verbose=0, unit="Angstrom", **d)
        d["atom"] = [(a.atom_symbol(i), tuple(float(x) for x in a.atom_coord(i))) for i in range(a.natm)]
        return gto.M(basis=basis, verbose=0, unit="Bohr", **d)
    d = dict(MOLS[name])
    return gto.M(basis=basis, verbose=0, unit="Angstrom", **d)


def make_calc(mol, model, unrestricted=False, level=0, xmix=0.25, xkernel="GGA_X_PBE", ckernel="GGA_C_PBE",
              atom_grid=None, nldf_init=None, sdmx_init=None, rhocut=None, xc=None):
    from ciderpress.pyscf.dft import make_cider_calc
    ks = dft.UKS(mol) if unrestricted else dft.RKS(mol)
    ks.xc = "PBE"
    ks.grids.level = level
    if atom_grid is not None:
        ks.grids.atom_grid = atom_grid
    cks = make_cider_calc(ks, model, xmix=xmix, xc=xc, xkernel=xkernel, ckernel=ckernel,
                          nldf_init=nldf_init, sdmx_init=sdmx_init, rhocut=rhocut)
    cks.grids.level = level
    if atom_grid is not None:
        cks.grids.atom_grid = atom_grid
    cks.build()
    cks.grids.build(with_non0tab=True)
    return cks


def rand_dm(rng, nao, nocc, scale=1.0):
    c = rng.normal(size=(nao, nocc))
    # roughly orthonormalise so that densities are moderate
    q, _ = np.linalg.qr(c)
    return scale * q.dot(q.T)


def psd_dm(rng, mol, nocc=None, jitter=0.3):
    """A physically admissible (PSD, roughly normalised) but NOT converged density matrix."""
    s = mol.intor("int1e_ovlp")
    nao = s.shape[0]
    if nocc is None:
        nocc = max(1, mol.nelectron // 2)
    w, v = np.linalg.eigh(s)
    x = v / np.sqrt(w)  # orthonormal AOs
    c = rng.normal(size=(nao, nocc))
    q, _ = np.linalg.qr(c)
    c = x.dot(q)
    return c.dot(c.T)


def core_dm(mol, nocc=None):
    """Occupied orbitals of the core Hamiltonian: a physical, non-converged density matrix whose density
    has no nodal surfaces in the valence region (random one-electron orbitals do, and there tau/rho
    diverges so that the large-exponent guard of the NLDF plan rightly refuses)."""
    import scipy.linalg
    from pyscf import scf
    if nocc is None:
        nocc = max(1, mol.nelectron // 2)
    h1 = scf.hf.get_hcore(mol)
    s1 = mol.intor("int1e_ovlp")
    _, c = scipy.linalg.eigh(h1, s1)
    return c[:, :nocc].dot(c[:, :nocc].T)
