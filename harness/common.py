"""Shared plumbing: check lifecycle, evidence, known findings, TLC runner, trace batching."""
import fnmatch
import hashlib
import json
import os
import re
import shutil
import subprocess
import sys
import tempfile
import time

VERIF = os.path.dirname(os.path.dirname(os.path.abspath(__file__)))
SPEC = os.path.join(VERIF, "spec")
# CIDER_VERIF_OUT redirects everything a run writes (evidence, replay files, scratch) -- used by
# tools/run_mutants.py to run the checks against patched scratch worktrees (CIDER_REPO) without
# touching /repo or the evidence of the real tree
OUT = os.environ.get("CIDER_VERIF_OUT", VERIF)
EVID = os.environ.get("CIDER_VERIF_EVIDENCE_DIR") or os.path.join(OUT, "evidence")   # (check_sys writes to evidence_sys/)
SCRATCH = os.path.join(OUT, "build", "scratch")
REPLAY = os.path.join(OUT, "build", "replay")
REPO = os.environ.get("CIDER_REPO", "/repo")
PY = "/venv/bin/python"


class MachineryError(Exception):
    """Anything that is our fault (TLC crash, build failure, vacuous model): exit 2."""


def seed_from_env():
    try:
        return int(os.environ.get("VERIF_SEED", "0"))
    except ValueError:
        return 0


def ensure_built():
    r = subprocess.run([os.path.join(VERIF, "build.sh")], capture_output=True, text=True)
    if r.returncode != 0:
        sys.stderr.write(r.stdout + r.stderr)
        raise MachineryError("build.sh failed")


def scratch_dir(prefix):
    os.makedirs(SCRATCH, exist_ok=True)
    return tempfile.mkdtemp(prefix=prefix + ".", dir=SCRATCH)


# ----------------------------------------------------------------------------------------------
# TLC
# ----------------------------------------------------------------------------------------------
class TLCResult:
    def __init__(self):
        self.ok = False
        self.generated = 0
        self.distinct = 0
        self.depth = 0
        self.violated = []  # names of violated invariants / properties
        self.out = ""
        self.coverage = {}  # action name -> (count, distinct)
        self.wall = 0.0
        self.printed = []  # PrintT lines

    def __repr__(self):
        return "TLCResult(ok=%s gen=%d distinct=%d violated=%s)" % (
            self.ok, self.generated, self.distinct, self.violated)


_TLC_JAR = "/opt/veriftools/tla/tla2tools.jar:/opt/veriftools/tla/CommunityModules-deps.jar"


def run_tlc(module, cfg, workers=8, timeout=1800, env=None, coverage=False, extra=(),
            specdir=SPEC, deadlock=False, xss="256m", heap="8g", simulate=None):
    """Run TLC on spec/<module>.tla with config cfg (path or name in specdir)."""
    md = scratch_dir("tlc")
    cfgp = cfg if os.path.isabs(cfg) else os.path.join(specdir, cfg)
    cmd = ["java", "-XX:+UseParallelGC", "-XX:ParallelGCThreads=%d" % max(2, min(8, workers)),
           "-Xss" + xss, "-Xmx" + heap, "-cp", _TLC_JAR, "tlc2.TLC",
           "-workers", str(workers), "-metadir", md, "-noGenerateSpecTE", "-config", cfgp]
    if not deadlock:
        cmd.append("-deadlock")  # -deadlock DISABLES deadlock checking
    if coverage:
        cmd += ["-coverage", "1"]
    if simulate:
        cmd += ["-simulate", simulate]
    cmd += list(extra)
    cmd.append(os.path.join(specdir, module + ".tla"))
    e = dict(os.environ)
    e.pop("JAVA_TOOL_OPTIONS", None)
    if env:
        e.update({k: str(v) for k, v in env.items()})
    t0 = time.time()
    proc = subprocess.Popen(cmd, stdout=subprocess.PIPE, stderr=subprocess.STDOUT, text=True, env=e, cwd=specdir,
                            start_new_session=True)
    try:
        out, _ = proc.communicate(timeout=timeout)
        rc = proc.returncode
    except subprocess.TimeoutExpired:
        import signal
        try:
            os.killpg(proc.pid, signal.SIGKILL)
        except ProcessLookupError:
            pass
        out, _ = proc.communicate()
        rc = -9
    except BaseException:
        import signal
        try:
            os.killpg(proc.pid, signal.SIGKILL)
        except ProcessLookupError:
            pass
        raise
    finally:
        shutil.rmtree(md, ignore_errors=True)
    r = TLCResult()
    r.out = out
    r.wall = time.time() - t0
    r.rc = rc
    m = None
    for m in re.finditer(r"(\d+) states generated, (\d+) distinct states found", out):
        pass
    if m:
        r.generated, r.distinct = int(m.group(1)), int(m.group(2))
    m = re.search(r"The depth of the complete state graph search is (\d+)", out)
    if m:
        r.depth = int(m.group(1))
    for m in re.finditer(r"Invariant (\S+) is violated", out):
        r.violated.append(m.group(1))
    for m in re.finditer(r"The invariant of (\S+) is equal to FALSE", out):
        r.violated.append(m.group(1))
    for m in re.finditer(r"Action property (\S+) is violated", out):
        r.violated.append(m.group(1))
    for m in re.finditer(r"Temporal properties were violated", out):
        r.violated.append("<temporal>")
    if "The postcondition" in out and "false" in out.split("The postcondition", 1)[1][:200]:
        r.violated.append("<postcondition>")
    if re.search(r"Evaluating assumption .* failed|Assumption .* is false", out):
        r.violated.append("<assumption>")
    r.printed = re.findall(r"^(<<.*>>|\".*\"|\[.*\])$", out, flags=re.M)
    if coverage:
        for m in re.finditer(r"^<(\w+) line \d+, col \d+ to line \d+, col \d+ of module (\w+)(?: \([\d ]+\))?>: (\d+):(\d+)", out, flags=re.M):
            name = m.group(1)
            c = r.coverage.get(name, (0, 0))
            r.coverage[name] = (c[0] + int(m.group(4)), c[1] + int(m.group(3)))
    finished = "Model checking completed. No error has been found." in out or \
        (simulate and rc in (0,))
    r.ok = bool(finished) and not r.violated and rc == 0
    r.error = None
    if not r.ok and not r.violated:
        r.error = out[-3000:]
    return r


def tlc_or_die(*a, **k):
    r = run_tlc(*a, **k)
    if r.error:
        raise MachineryError("TLC failed:\n" + r.error)
    return r


def tla_str(s):
    return '"' + str(s).replace("\\", "\\\\").replace('"', '\\"') + '"'


def to_tla(v):
    """Python value -> TLA+ literal (ints, bools, strs, lists->sequences, tuples->sequences,
    dicts with str keys->records, sets->sets)."""
    if isinstance(v, bool):
        return "TRUE" if v else "FALSE"
    if isinstance(v, int):
        return str(v)
    if isinstance(v, str):
        return tla_str(v)
    if isinstance(v, (list, tuple)):
        return "<<" + ", ".join(to_tla(x) for x in v) + ">>"
    if isinstance(v, (set, frozenset)):
        return "{" + ", ".join(sorted(to_tla(x) for x in v)) + "}"
    if isinstance(v, dict):
        if not v:
            return "<<>>"
        if all(isinstance(k, str) and re.match(r"^[A-Za-z_][A-Za-z0-9_]*$", k) for k in v):
            return "[" + ", ".join("%s |-> %s" % (k, to_tla(x)) for k, x in v.items()) + "]"
        return "(" + " @@ ".join("(%s :> %s)" % (to_tla(k), to_tla(x)) for k, x in v.items()) + ")"
    if v is None:
        return "<<>>"
    if hasattr(v, "item"):
        return to_tla(v.item())
    raise TypeError("cannot render %r" % (v,))


def write_live_module(name, defs, directory, extends="Integers, Sequences, FiniteSets, TLC"):
    """Generate a TLA+ module of constant definitions extracted from the live code."""
    lines = ["---- MODULE %s ----" % name, "\\* GENERATED at run time from the live code in /repo -- do not edit",
             "EXTENDS " + extends]
    for k, v in defs.items():
        lines.append("%s == %s" % (k, v if isinstance(v, RawTLA) else to_tla(v)))
    lines.append("====")
    p = os.path.join(directory, name + ".tla")
    with open(p, "w") as f:
        f.write("\n".join(lines) + "\n")
    return p


class RawTLA(str):
    pass


def stage_spec(modules, extra_files=()):
    """Copy spec modules into a scratch directory (so generated Live_*.tla can sit beside them)."""
    d = scratch_dir("spec")
    for f in os.listdir(SPEC):
        if f.endswith(".tla") or f.endswith(".cfg"):
            shutil.copy(os.path.join(SPEC, f), d)
    return d


# ----------------------------------------------------------------------------------------------
# Known findings
# ----------------------------------------------------------------------------------------------
def load_findings():
    p = os.path.join(VERIF, "known_findings.json")
    if not os.path.exists(p):
        return []
    with open(p) as f:
        return json.load(f)["findings"]


# ----------------------------------------------------------------------------------------------
# Check lifecycle
# ----------------------------------------------------------------------------------------------
class Check:
    def __init__(self, pid, level, tier=None, seed=None):
        self.pid = pid
        self.level = level
        self.tier = tier or os.environ.get("VERIF_TIER", "quick")
        if self.tier not in ("quick", "thorough"):
            self.tier = "quick"
        self.seed = seed_from_env() if seed is None else seed
        self.t0 = time.time()
        self.evaluations = 0
        self.distinct = set()
        self.samples = []
        self.states = 0
        self.transitions = 0
        self.traces = 0
        self.violations = []  # dict(site=..., detail=...)
        self.assumptions = []
        self.rule = ""
        self.extra = {}
        self.tlc_runs = []
        self.notes = []
        self.exhaustive = False
        global _CURRENT_CHECK
        _CURRENT_CHECK = self

    # -- bookkeeping ----
    def count(self, key=None, n=1):
        self.evaluations += n
        if key is not None:
            self.distinct.add(key if isinstance(key, (str, int, tuple)) else json.dumps(key, sort_keys=True, default=str))

    def sample(self, s, cap=6):
        if len(self.samples) < cap:
            self.samples.append(s)

    def add_tlc(self, name, r, require_actions=()):
        """Record a TLC model-checking result. A violated invariant on the *model* is reported
        by the caller (it knows what it means); vacuity is a machinery error."""
        self.states += r.distinct
        self.transitions += r.generated
        self.tlc_runs.append({"model": name, "distinct_states": r.distinct, "states_generated": r.generated,
                              "depth": r.depth, "wall_s": round(r.wall, 2), "violated": r.violated})
        for a in require_actions:
            if r.coverage and r.coverage.get(a, (0, 0))[0] == 0:
                raise MachineryError("vacuity: action %s never taken in model %s" % (a, name))

    def violation(self, site, detail, replay=None):
        self.violations.append({"site": site, "detail": detail, "replay": replay})

    def log(self, msg):
        print("[%s %6.1fs] %s" % (self.pid, time.time() - self.t0, msg), flush=True)

    # -- finish ----
    def finish(self):
        os.makedirs(EVID, exist_ok=True)
        os.makedirs(REPLAY, exist_ok=True)
        known = [f for f in load_findings() if f.get("property") == self.pid and f.get("status") == "known"]
        new, kn = [], {}
        for v in self.violations:
            hit = None
            for f in known:
                if fnmatch.fnmatchcase(v["site"], f["site"]):
                    hit = f
                    break
            if hit:
                kn.setdefault(hit["id"], (hit, []))[1].append(v)
            else:
                new.append(v)
        for fid, (f, vs) in sorted(kn.items()):
            print("KNOWN-FINDING: property=%s %s [%s; %d occurrence(s) this run]" % (self.pid, f["text"], fid, len(vs)))
        rc = 0
        if new:
            rc = 1
            # group by site
            bysite = {}
            for v in new:
                bysite.setdefault(v["site"], []).append(v)
            for i, (site, vs) in enumerate(sorted(bysite.items())):
                rp = os.path.join(REPLAY, "%s_%s_%d.json" % (self.pid, self.tier, i))
                with open(rp, "w") as fh:
                    json.dump({"property": self.pid, "site": site, "seed": self.seed, "tier": self.tier,
                               "occurrences": [{"detail": v["detail"], "replay": v["replay"]} for v in vs[:20]]},
                              fh, indent=1, default=str)
                print("VIOLATION property=%s replay=%s" % (self.pid, rp))
                print("   site=%s  n=%d  first: %s" % (site, len(vs), json.dumps(vs[0]["detail"], default=str)[:600]))
        cov = {
            "evaluations": int(self.evaluations),
            "distinct_nontrivial": int(len(self.distinct)),
            "rule": self.rule,
            "samples": self.samples if self.samples else ["(none)"],
            "states": int(self.states),
            "transitions": int(self.transitions),
            "traces_validated_against_impl": int(self.traces),
            "tlc_runs": self.tlc_runs,
            "exhaustive": bool(self.exhaustive),
        }
        cov.update(self.extra)
        ev = {
            "property_id": self.pid, "tier": self.tier, "seed": int(self.seed), "level": self.level,
            "coverage": cov, "assumptions": self.assumptions, "wall_s": round(time.time() - self.t0, 2),
            "violations": len(new),
            "known_findings_seen": sorted(kn.keys()),
            "notes": self.notes,
        }
        with open(os.path.join(EVID, self.pid + ".json"), "w") as fh:
            json.dump(ev, fh, indent=1, default=str)
        self.log("done: evaluations=%d distinct=%d states=%d traces=%d violations=%d known=%d wall=%.1fs" % (
            self.evaluations, len(self.distinct), self.states, self.traces, len(new), len(kn), time.time() - self.t0))
        return rc


def fp(arr):
    """Fingerprint of an array's bytes."""
    import numpy as np
    a = np.ascontiguousarray(arr)
    return hashlib.sha1(a.tobytes() + str(a.shape).encode() + str(a.dtype).encode()).hexdigest()[:16]


class Interner:
    """Map arbitrary hashable fingerprints to small integers (TLC likes ints < 2^31)."""

    def __init__(self):
        self.d = {}

    def __call__(self, k):
        if k not in self.d:
            self.d[k] = len(self.d) + 1
        return self.d[k]


def run_workers(script, jobs, nproc=16, timeout=3600, env=None, threads=1, allow_crash=False):
    """Run `script` (a harness module path) over JSON job descriptions with a pool of
    single-threaded subprocesses; each worker reads jobs from a file and writes results NDJSON."""
    d = scratch_dir("pool")
    nproc = max(1, min(nproc, len(jobs)))
    chunks = [jobs[i::nproc] for i in range(nproc)]
    procs = []
    e = dict(os.environ)
    e.update({"OMP_NUM_THREADS": str(threads), "OPENBLAS_NUM_THREADS": "1", "MKL_NUM_THREADS": "1",
              "PYTHONHASHSEED": "0", "PYTHONPATH": os.path.join(VERIF, "harness") + ":" + e.get("PYTHONPATH", "")})
    if env:
        e.update(env)
    for i, ch in enumerate(chunks):
        jp = os.path.join(d, "jobs%d.json" % i)
        rp = os.path.join(d, "res%d.ndjson" % i)
        with open(jp, "w") as f:
            json.dump(ch, f)
        lp = open(os.path.join(d, "log%d.txt" % i), "w")
        procs.append((subprocess.Popen([PY, script, "--worker", jp, rp], env=e, stdout=lp, stderr=subprocess.STDOUT), rp, lp, i))
    results = []
    fail = None
    t0 = time.time()
    for p, rp, lp, i in procs:
        try:
            p.wait(timeout=max(1, timeout - (time.time() - t0)))
        except subprocess.TimeoutExpired:
            p.kill()
            fail = "worker %d timed out" % i
        lp.close()
        if p.returncode not in (0, None) and fail is None:
            with open(os.path.join(d, "log%d.txt" % i)) as f:
                msg = "worker %d rc=%s\n%s" % (i, p.returncode, f.read()[-3000:])
            if allow_crash and (p.returncode < 0 or p.returncode >= 128):
                # the interpreter was killed by a signal (memory corruption in the code under test)
                results.append({"worker_died": p.returncode, "jobs": chunks[i], "log": msg[-1500:]})
            elif (p.returncode < 0 or p.returncode >= 128) and _CURRENT_CHECK is not None:
                # same, for drivers that do not look at dead workers themselves: the interpreter of a worker was killed by a
                # signal while it exercised the code under test (heap corruption, segmentation fault in compiled code).  On
                # the unchanged tree no worker dies; this is a violation, not a failure of the machinery.
                done = set()
                if os.path.exists(rp):
                    with open(rp) as f:
                        for line in f:
                            try:
                                done.add(json.dumps(json.loads(line).get("id"), sort_keys=True, default=str))
                            except Exception:  # noqa: BLE001
                                pass
                lost = [j for j in chunks[i] if json.dumps(j.get("id") if isinstance(j, dict) else None, sort_keys=True, default=str) not in done]
                _CURRENT_CHECK.violation("worker-died:signal-%d" % (-p.returncode if p.returncode < 0 else p.returncode - 128),
                                         {"note": "a worker process was killed while running the code under test", "log": msg[-1200:],
                                          "first_unfinished_job": (lost[0] if lost else None)},
                                         replay={"job": lost[0] if lost else None})
            else:
                fail = msg
        if os.path.exists(rp):
            with open(rp) as f:
                for line in f:
                    line = line.strip()
                    if line:
                        results.append(json.loads(line))
    shutil.rmtree(d, ignore_errors=True)
    if fail:
        raise MachineryError(fail)
    return results


def worker_main(handler):
    """Entry for a worker process: handler(job)->result dict."""
    jp, rp = sys.argv[2], sys.argv[3]
    with open(jp) as f:
        jobs = json.load(f)
    with open(rp, "w") as out:
        for j in jobs:
            try:
                r = handler(j)
            except Exception as ex:  # machinery or impl exception: reported, classified by parent
                import traceback
                r = {"job": j, "crash": type(ex).__name__ + ": " + str(ex), "tb": traceback.format_exc()[-2000:],
                     "exc": type(ex).__name__, "cut_site": _raised_in_code_under_test(ex.__traceback__)}
            out.write(json.dumps(r, default=_jd) + "\n")
            out.flush()


def _jd(o):
    if hasattr(o, "tolist"):
        return o.tolist()
    if hasattr(o, "item"):
        return o.item()
    return str(o)


_CURRENT_CHECK = None


def handle_crash(ck, res):
    """A worker job ended with an exception.  Raised by the code under test on a call the harness makes (and that the
    unchanged tree accepts): a violation with its site.  Raised by the harness itself: machinery failure."""
    if res.get("cut_site"):
        ck.violation("uncaught:%s:%s" % (res.get("exc", "Exception"), res["cut_site"]),
                     {"msg": str(res.get("crash"))[:300], "tb": str(res.get("tb"))[-600:]}, replay={"job": res.get("job")})
        return True
    raise MachineryError("worker crashed: %s\n%s" % (res.get("crash"), res.get("tb")))


def _raised_in_code_under_test(tb):
    """True iff, below the deepest harness frame of the traceback, there is a frame of the repository:
    the code under test raised on a call the harness made (and that the unchanged tree accepts).  An
    exception whose innermost frames are the harness's own (a renamed attribute, a changed signature
    rejected at the call boundary) is a machinery failure instead."""
    import traceback
    frames = traceback.extract_tb(tb)
    hdir = os.path.join(VERIF, "harness") + os.sep
    last_h = max([i for i, f in enumerate(frames) if os.path.abspath(f.filename).startswith(hdir)], default=-1)
    repo = os.path.abspath(REPO) + os.sep
    for f in frames[last_h + 1:]:
        if os.path.abspath(f.filename).startswith(repo):
            return "%s:%s" % (os.path.relpath(os.path.abspath(f.filename), repo), frames[-1].name)
    return None


def main_wrapper(fn):
    """Run a check's main().  MachineryError -> exit 2.  An exception that escapes from the code under
    test during a step the harness performs (the unchanged tree performs all of them) is a violation
    of the property being replayed at that step: reported with its site, exit 1.  Anything else that
    is not ours to classify -> exit 2."""
    try:
        rc = fn()
    except MachineryError as e:
        sys.stderr.write("MACHINERY FAILURE: %s\n" % e)
        sys.exit(2)
    except Exception as e:  # noqa: BLE001
        import traceback
        tbs = traceback.format_exc()
        where = _raised_in_code_under_test(e.__traceback__)
        ck = _CURRENT_CHECK
        if where is None or ck is None or isinstance(e, (MemoryError, OSError, ImportError)):
            sys.stderr.write(tbs)
            sys.stderr.write("MACHINERY FAILURE: uncaught %s\n" % type(e).__name__)
            sys.exit(2)
        sys.stderr.write(tbs)
        ck.violation("uncaught:%s:%s" % (type(e).__name__, where),
                     {"exception": type(e).__name__ + ": " + str(e)[:300], "traceback": tbs[-2500:],
                      "note": "the code under test raised during a replay step that the unchanged tree performs"})
        ck.notes.append("run aborted by an exception escaping from the code under test; coverage below is partial")
        rc = ck.finish()
    sys.exit(rc)


# ----------------------------------------------------------------------------------------------
# Batched trace validation: one TLC invocation consumes many recorded traces/records
# ----------------------------------------------------------------------------------------------
def validate_records(module, cfg, records, nchunks=16, timeout=1800, idvar="i", max_rounds=4,
                     extra_env=None, max_rejections_per_chunk=12):
    """Split `records` (JSON-serialisable dicts, each with an 'id') into chunks; run the trace
    spec `module` on each chunk in parallel (TLC -workers 1, env TRACE_FILE).  A chunk whose
    run reports a violated invariant names the record (variable `idvar` in the last printed
    state is the 1-based index in the chunk); that record is reported and removed, and the rest
    of the chunk is re-validated (so one rejection does not leave the remainder unexamined).
    Returns dict(accepted=n, rejected=[(record_id, invariant_name)], drift=set(ids), states=n)."""
    from concurrent.futures import ThreadPoolExecutor
    d = scratch_dir("trace")
    nchunks = max(1, min(nchunks, len(records)))
    chunks = [records[k::nchunks] for k in range(nchunks)]
    res = {"accepted": 0, "rejected": [], "drift": set(), "states": 0, "generated": 0}

    def run_chunk(arg):
        k, chunk = arg
        out = {"accepted": 0, "rejected": [], "drift": set(), "states": 0, "generated": 0}
        rounds = 0
        while chunk and rounds <= max_rounds + len(out["rejected"]):
            if len(out["rejected"]) >= max_rejections_per_chunk:
                # a systematic rejection (every record of the chunk fails): enough witnesses; the rest is left unexamined
                out["unexamined"] = out.get("unexamined", 0) + len(chunk)
                break
            rounds += 1
            tf = os.path.join(d, "chunk%d_%d.json" % (k, rounds))
            with open(tf, "w") as f:   # keys starting with "_" are harness-side metadata, not for TLC
                json.dump([{k_: v_ for k_, v_ in rc.items() if not k_.startswith("_")} for rc in chunk], f, default=_jd)
            env = {"TRACE_FILE": tf}
            if extra_env:
                env.update(extra_env)
            r = run_tlc(module, cfg, workers=1, timeout=timeout, env=env, heap="3g")
            out["states"] += r.distinct
            out["generated"] += r.generated
            for m in re.finditer(r'<<"DRIFT", "?([^">]+)"?>>', r.out):
                out["drift"].add(m.group(1))
            if r.ok:
                out["accepted"] += len(chunk)
                return out
            if r.violated and r.violated != ["<postcondition>"]:
                # find index of the offending record in the last state of the error trace
                idx = None
                for mm in re.finditer(r"^(?:/\\ )?%s = (\d+)\s*$" % re.escape(idvar), r.out, flags=re.M):
                    idx = int(mm.group(1))
                if idx is None or not (1 <= idx <= len(chunk)):
                    raise MachineryError("cannot locate rejected record:\n" + r.out[-3000:])
                out["rejected"].append((chunk[idx - 1]["id"], r.violated[0]))
                out["accepted"] += idx - 1
                chunk = chunk[idx:]
                continue
            st = tlc_printed_values(r.out, "STUCK")
            if st and isinstance(st[-1], list) and len(st[-1]) == 2 and 1 <= st[-1][0] <= len(chunk):
                idx, lpos = st[-1]
                evs = chunk[idx - 1].get("events", [])
                evname = evs[lpos - 1]["ev"] if 1 <= lpos <= len(evs) else "<end>"
                out["rejected"].append((chunk[idx - 1]["id"], "stuck@%d:%s" % (lpos, evname)))
                out["accepted"] += idx - 1
                chunk = chunk[idx:]
                continue
            raise MachineryError("trace validation run failed (%s):\n%s" % (r.violated, r.out[-3000:]))
        return out

    try:
        with ThreadPoolExecutor(max_workers=nchunks) as ex:
            for o in ex.map(run_chunk, list(enumerate(chunks))):
                res["accepted"] += o["accepted"]
                res["rejected"] += o["rejected"]
                res["drift"] |= o["drift"]
                res["states"] += o["states"]
                res["generated"] += o["generated"]
                res["unexamined"] = res.get("unexamined", 0) + o.get("unexamined", 0)
    finally:
        shutil.rmtree(d, ignore_errors=True)
    return res


# ----------------------------------------------------------------------------------------------
# Parser for TLA+ values as printed by TLC (PrintT / error traces / simulation files)
# ----------------------------------------------------------------------------------------------
class _P:
    def __init__(self, s):
        self.s = s
        self.i = 0

    def ws(self):
        while self.i < len(self.s) and self.s[self.i] in " \t\r\n":
            self.i += 1

    def peek(self, k=1):
        return self.s[self.i:self.i + k]

    def eat(self, tok):
        self.ws()
        if self.s.startswith(tok, self.i):
            self.i += len(tok)
            return True
        return False

    def expect(self, tok):
        if not self.eat(tok):
            raise ValueError("expected %r at %d: %r" % (tok, self.i, self.s[self.i:self.i + 40]))

    def value(self):
        self.ws()
        if self.eat("<<"):
            out = []
            if self.eat(">>"):
                return out
            while True:
                out.append(self.value())
                if self.eat(">>"):
                    return out
                self.expect(",")
        if self.eat("{"):
            out = []
            if self.eat("}"):
                return set()
            while True:
                out.append(self.value())
                if self.eat("}"):
                    break
                self.expect(",")
            try:
                return set(_freeze(x) for x in out)
            except TypeError:
                return out
        if self.eat("["):
            d = {}
            while True:
                self.ws()
                m = re.match(r"[A-Za-z_][A-Za-z0-9_]*", self.s[self.i:])
                key = m.group(0)
                self.i += len(key)
                self.expect("|->")
                d[key] = self.value()
                if self.eat("]"):
                    return d
                self.expect(",")
        if self.eat("("):  # function literal (a :> b @@ c :> d)
            d = {}
            while True:
                k = self.value()
                self.expect(":>")
                d[_freeze(k)] = self.value()
                if self.eat(")"):
                    return d
                self.expect("@@")
        if self.peek() == '"':
            j = self.i + 1
            buf = []
            while self.s[j] != '"':
                if self.s[j] == "\\":
                    j += 1
                buf.append(self.s[j])
                j += 1
            self.i = j + 1
            return "".join(buf)
        m = re.match(r"-?\d+", self.s[self.i:])
        if m:
            self.i += len(m.group(0))
            return int(m.group(0))
        m = re.match(r"[A-Za-z_][A-Za-z0-9_]*", self.s[self.i:])
        if m:
            self.i += len(m.group(0))
            w = m.group(0)
            return {"TRUE": True, "FALSE": False}.get(w, w)
        raise ValueError("cannot parse at %d: %r" % (self.i, self.s[self.i:self.i + 40]))


def _freeze(x):
    if isinstance(x, list):
        return tuple(_freeze(y) for y in x)
    if isinstance(x, dict):
        return tuple(sorted((k, _freeze(v)) for k, v in x.items()))
    if isinstance(x, set):
        return frozenset(_freeze(y) for y in x)
    return x


def parse_tla(s):
    p = _P(s)
    v = p.value()
    p.ws()
    if p.i != len(p.s):
        raise ValueError("trailing text: %r" % p.s[p.i:p.i + 40])
    return v


def tlc_printed_values(out, marker):
    """All values printed with PrintT(<<marker, v>>) (handles multi-line output by bracket matching)."""
    vals = []
    key = re.compile(r'<<\s*"%s"\s*,' % re.escape(marker))
    i = 0
    while True:
        mm = key.search(out, i)
        if not mm:
            break
        j = mm.start()
        depth = 0
        k = j
        while k < len(out):
            if out.startswith("<<", k):
                depth += 1
                k += 2
                continue
            if out.startswith(">>", k):
                depth -= 1
                k += 2
                if depth == 0:
                    break
                continue
            if out[k] == '"':
                k += 1
                while out[k] != '"':
                    k += 2 if out[k] == "\\" else 1
            k += 1
        try:
            pv = parse_tla(out[j:k])
            vals.append(pv[1] if len(pv) == 2 else pv[1:])
        except Exception:
            pass
        i = k
    return vals
