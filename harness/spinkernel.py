"""POL-mode (spin) squared-exponential evaluator: closed-form numpy reference and input families that separate the
two pairings of the kernel  k((xa,xb),(ca,cb)) = e^{-d(xa,ca)-d(xb,cb)} + e^{-d(xa,cb)-d(xb,ca)},  d(x,c) = sum_j (x_j-c_j)^2 / (2 l_j^2).
Shared by C07 (spin labels are symmetric) and C11 (C evaluators equal the kernel sum)."""
import numpy as np


def reference(X, Xc, alpha, ls):
    """X: (2, n, N1) inputs, Xc: (2, nctrl, N1) control points -> f (n,), df (2, n, N1)"""
    ex = 0.5 / np.asarray(ls) ** 2

    def d(x, c):      # (n, nctrl)
        return (((x[:, None, :] - c[None, :, :]) ** 2) * ex).sum(-1)
    xa, xb, ca, cb = X[0], X[1], Xc[0], Xc[1]
    aabb = np.exp(-(d(xa, ca) + d(xb, cb))) * alpha
    abba = np.exp(-(d(xa, cb) + d(xb, ca))) * alpha
    f = (aabb + abba).sum(1)
    df = np.zeros_like(X)

    def g(w, x, c):   # d/dx of sum_t w[:,t] * exp(...) -> -2 ex (x - c) w
        return (-2 * ex * (x[:, None, :] - c[None, :, :]) * w[:, :, None]).sum(1)
    df[0] = g(aabb, xa, ca) + g(abba, xa, cb)
    df[1] = g(aabb, xb, cb) + g(abba, xb, ca)
    return f, df


def cases(rng, N1=4, nctrl=9, n=11):
    """(name, ls, Xc, alpha, X): broad and NARROW kernels; inputs near the control points in the orientation they were
    sampled in ('aligned') and with the spin labels exchanged ('swapped': only the exchange pairing is O(1))."""
    out = []
    for lname, lfac in (("broad", 1.0), ("narrow", 0.06), ("mixed", None)):
        ls = (0.6 + 0.1 * np.arange(N1)) * lfac if lfac else np.array([0.05, 0.9, 0.07, 0.6])[:N1]
        Xc = rng.uniform(0.05, 0.95, size=(2, nctrl, N1))
        alpha = rng.normal(size=nctrl)
        pick = rng.integers(0, nctrl, size=n)
        near = Xc[:, pick, :] + rng.normal(size=(2, n, N1)) * 0.4 * ls
        out.append((lname + ":aligned", ls, Xc, alpha, near))
        out.append((lname + ":swapped", ls, Xc, alpha, near[::-1].copy()))
        out.append((lname + ":generic", ls, Xc, alpha, rng.uniform(0.05, 0.95, size=(2, n, N1))))
    return out
