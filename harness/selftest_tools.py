"""setup self-test: the tools the checks need are present and the libraries load."""
import subprocess, sys, os
sys.path.insert(0, os.path.dirname(os.path.abspath(__file__)))
import cvload  # noqa
from common import run_tlc
import ciderpress.dft.plans  # noqa
import ciderpress.lib.fft_plan  # noqa
r = run_tlc("MC_FFTLayout", "MC_FFTLayout_tiny.cfg", workers=2, timeout=300)
assert r.ok and r.distinct > 10, r.out[-2000:]
print("tools ok: TLC %d states; C libraries load" % r.distinct)
