"""C13 -- uniform-electron-gas reference values match the computed features.
  M: FeatureAlgebra.tla: UEG vectors have NFeat entries and follow rho^(usp/3) (power 0 for
     normalised nonlocal features) for every configuration
  R: for every valid TLC state and several densities: the reported raw UEG vector equals values
     obtained INDEPENDENTLY -- semilocal by definition, NLDF by numerical quadrature of the documented
     kernel against a constant density, SDMX by quadrature with the UEG density matrix, fractional
     Laplacian by its momentum-space integral; the reported NORMALISED vector equals the raw vector
     pushed through the real FeatNormalizerList; get_vmap_heg_value"""
import cvload  # noqa: F401
import functools
import sys

import numpy as np
from scipy import integrate, special

import featalg
from common import Check, main_wrapper
from ciderpress.dft import settings as S
from ciderpress.dft import transform_data as td

CFC = 0.3 * (3 * np.pi ** 2) ** (2.0 / 3)


def doc_exponent(n, A, level_C_term=0.0):
    """docs/features/nldf.rst: a = pi (n/2)^(2/3) [A + B |grad n|^2/(8 n tau0) + C (tau/tau0 - 1)];
    for the uniform gas grad n = 0 and tau = tau0."""
    return np.pi * (n / 2.0) ** (2.0 / 3) * A


@functools.lru_cache(maxsize=None)
def radial(kind, a, b=0.0):
    """4 pi int r^2 k(r) dr for the documented kernels (a: Gaussian exponent, b: second parameter)."""
    f = {
        "se": lambda r: np.exp(-a * r * r),
        "r2": lambda r: r * r * np.exp(-a * r * r),
        "r4": lambda r: r ** 4 * np.exp(-a * r * r),
        "erf_rinv": lambda r: np.exp(-a * r * r) * (np.sqrt(np.pi) * special.erf(np.sqrt(b) * r) / (2 * np.sqrt(b) * r) if r > 0 else 1.0),
    }[kind]
    val, _ = integrate.quad(lambda r: 4 * np.pi * r * r * f(r), 0, 40.0 / np.sqrt(a), limit=300, epsabs=0, epsrel=1e-12)
    return val


def ref_nldf(n_cfg, rho):
    """Reference raw UEG values of the NLDF part of a spec configuration."""
    lvl = n_cfg["level"]
    theta = featalg.TH[n_cfg["theta_len"]]
    a0 = doc_exponent(rho, theta[0])
    mult = a0 if n_cfg["rho_mult"] == "expnt" else 1.0
    out = []
    if n_cfg["ver"] in ("j", "ij", "k"):
        for spec, plen in zip(n_cfg["jspecs"] if n_cfg["ver"] != "k" else ["se"] * len(n_cfg["jplens"]), n_cfg["jplens"]):
            p = featalg.JP[plen]
            ai = doc_exponent(rho, p[0])
            if n_cfg["ver"] == "k":
                damp = np.exp(-1.5 * a0 / ai)
                A = ai
            else:
                damp = 1.0
                A = ai + a0
            if spec == "se":
                val = radial("se", A)
            elif spec == "se_ar2":
                val = ai * radial("r2", A)
            elif spec == "se_a2r4":
                val = ai * ai * radial("r4", A)
            elif spec == "se_erf_rinv":
                val = radial("erf_rinv", A, ai * p[-1])
            out.append(rho * mult * damp * val)
    if n_cfg["ver"] in ("i", "ij"):
        for spec in n_cfg["l0"]:
            val = {"se": lambda: radial("se", a0), "se_r2": lambda: radial("r2", a0), "se_apr2": lambda: a0 * radial("r2", a0),
                   "se_ap": lambda: a0 * radial("se", a0), "se_ap2r2": lambda: a0 * a0 * radial("r2", a0),
                   "se_lapl": lambda: 4 * a0 * a0 * radial("r2", a0) - 2 * a0 * radial("se", a0)}[spec]()
            out.append(rho * mult * val)
        out += [0.0] * len(n_cfg["dots"])      # vector integrals vanish for a uniform density
    return np.array(out)


@functools.lru_cache(maxsize=None)
def sdmx_H(j, kind, ratio10=10):
    """-1/4 * H_j^{0} or H_j^{0d} (docs/features/sdmx.rst) for the UEG of density 1.
    rho^0(R) = int d^3u h(u;R) n_1(u) is evaluated in momentum space, where the UEG density matrix is
    the Fourier transform of the Fermi sphere: rho^0(R) = (1/pi^2) int_0^kF k^2 h~(k;R) dk, and the
    transform of the documented h (a difference of two Gaussians) is elementary.
    ratio10 != 10 (SDMXFullSettings, ratio r = ratio10/10): the fit matrices of SDMXFullPlan
    (1/2 [a+b] + 1/4 [a/r + r b] + 1/4 [a r + b/r]) integrate
         1/2 rho0(R)^2 + 1/2 rho0(R/sqrt r) rho0(sqrt r R)
    (and the same with d/dR of each factor for the 'd' kind); r = 1 is the documented feature."""
    n = 1.0
    kf = (3 * np.pi ** 2 * n) ** (1.0 / 3)
    c = (2 / np.pi) ** 1.5 * 4 / (4 - np.sqrt(2))
    sr = np.sqrt(ratio10 / 10.0)

    def I(x, beta):   # int_0^x t^2 exp(-beta t^2) dt
        return np.sqrt(np.pi) * special.erf(np.sqrt(beta) * x) / (4 * beta ** 1.5) - x * np.exp(-beta * x * x) / (2 * beta)

    def rho0(R):
        x = kf * R
        return c / (np.pi ** 2 * R ** 3) * ((np.pi / 2) ** 1.5 * I(x, 1.0 / 8) - (np.pi / 4) ** 1.5 * I(x, 1.0 / 16))

    def d_(fun, R):
        e = 1e-5 * R
        return (fun(R + e) - fun(R - e)) / (2 * e)
    if kind == "0":
        f = lambda R: 4 * np.pi * R ** (2 - j) * (0.5 * rho0(R) ** 2 + 0.5 * rho0(R / sr) * rho0(R * sr))
    else:
        f = lambda R: 4 * np.pi * R ** (4 - j) * (0.5 * d_(rho0, R) ** 2 + 0.5 * d_(lambda t: rho0(t / sr), R) * d_(lambda t: rho0(t * sr), R))
    tot = 0.0
    edges = [1e-6, 0.5, 2.0, 6.0, 20.0, 100.0, 1e3, 1e5]
    for lo, hi in zip(edges[:-1], edges[1:]):
        tot += integrate.quad(f, lo, hi, limit=200, epsabs=0, epsrel=1e-10)[0]
    return -0.25 * tot


def ref_sdmx(s_cfg, rho):
    if s_cfg["kind"] == "none":
        return np.array([])
    if s_cfg["kind"] == "Full":
        vals, nl1 = [], 0
        for e in s_cfg["full"]:
            pw, cnt = list(e["pows"]), list(e["cnt"])
            vals += [sdmx_H(j, "0", e["ratio10"]) * rho ** (1 + j / 3.0) for j in pw[: cnt[0]]]
            vals += [sdmx_H(j, "d", e["ratio10"]) * rho ** (1 + j / 3.0) for j in pw[: cnt[1]]]
            nl1 += cnt[2] + cnt[3]
        return np.array(vals + [0.0] * nl1)     # vector terms vanish for a uniform density
    s_cfg = featalg.sdmx_effective(s_cfg)
    pows = list(s_cfg["pows"])
    vals = [sdmx_H(j, "0") * rho ** (1 + j / 3.0) for j in pows]
    vals += [sdmx_H(j, "d") * rho ** (1 + j / 3.0) for j in pows[: s_cfg["nd"]]]
    vals += [0.0] * s_cfg["n1"]
    return np.array(vals)


def ref_fl(f_cfg, rho):
    if not f_cfg["present"]:
        return np.array([])
    kf = (3 * np.pi ** 2 * rho) ** (1.0 / 3)
    vals = []
    for s2 in f_cfg["s2"][: f_cfg["nk0"]]:
        s = 0.5 * s2
        # (-Delta)^s of the UEG density matrix at coincidence: (1/pi^2) int_0^kf k^(2+2s) dk
        vals.append(integrate.quad(lambda k: k ** (2 + 2 * s) / np.pi ** 2, 0, kf, epsabs=0, epsrel=1e-12)[0])
    vals += [0.0] * (len(f_cfg["dots"]) + len(f_cfg.get("lddots", [])) + f_cfg["ndd"])
    return np.array(vals)


def ref_sl(mode, rho):
    if mode == "nst":
        return np.array([rho, 0.0, CFC * rho ** (5.0 / 3)])
    if mode == "npa":
        return np.array([rho, 0.0, 1.0])
    return np.array([rho, 0.0])


def fam_of(cfg):
    if cfg["nldf"] != []:
        return "nldf-" + cfg["nldf"]["ver"]
    if cfg["sdmx"]["kind"] != "none":
        return "sdmx-" + cfg["sdmx"]["kind"]
    return "fl" if cfg["fl"]["present"] else "sl"


def main():
    ck = Check("C13", "exploration")
    rng = np.random.default_rng(ck.seed)
    quick = ck.tier == "quick"
    ck.rule = ("case = (valid FeatureAlgebra configuration enumerated by TLC, density in {0.01, 0.3, 1, 7}); raw UEG vector vs "
               "independent quadrature of the documented definitions; normalised UEG vector vs the raw vector pushed through the "
               "real normaliser list; distinct = (configuration, density); non-trivial = has a nonlocal feature")
    r, states = featalg.run_model(ck.tier, ck.seed)
    ck.add_tlc("FeatureAlgebra(live tables)", r)
    ck.log("model: %s" % r)
    rhos = (0.01, 0.3, 1.0, 7.0)
    nrep = 0
    cap = 3500 if quick else 10 ** 9
    # stratify: round-robin over families so that the cap does not starve any family
    byfam = {}
    for cfg, attr in states:
        if attr["valid"] and featalg.vk_cfg_is_modelled(cfg):
            byfam.setdefault(fam_of(cfg), []).append((cfg, attr))
    order = [(cfg, attr) for cfg, attr in states if attr["valid"] and cfg["sl"] != "npa" and featalg.vk_cfg_is_modelled(cfg)]
    for fam, lst in sorted(byfam.items()):
        rng.shuffle(lst)
    k = 0
    while len(order) < cap and any(k < len(lst) for lst in byfam.values()):
        for fam, lst in sorted(byfam.items()):
            if k < len(lst):
                order.append(lst[k])
        k += 1
    for cfg, attr in order[:cap]:
        status, st = featalg.realize(cfg)
        if status != "ok":
            continue
        nrep += 1
        fam = fam_of(cfg)
        nontrivial = attr["nfeat"] > len(ref_sl(cfg["sl"], 1.0))
        for rho in rhos:
            ck.count(key=(repr(cfg), rho) if nontrivial else None)
            try:
                rep = np.array(st.ueg_vector(rho), dtype=float)
            except NotImplementedError:
                continue
            except Exception as ex:
                ck.violation("ueg:%s:raises-%s" % (fam, type(ex).__name__), {"cfg": cfg, "msg": str(ex)[:200]}, replay={"cfg": cfg})
                break
            ref = np.concatenate([ref_sl(cfg["sl"], rho), ref_nldf(cfg["nldf"], rho) if cfg["nldf"] != [] else [],
                                  ref_fl(cfg["fl"], rho), ref_sdmx(cfg["sdmx"], rho)])
            if rep.shape != ref.shape:
                ck.violation("ueg:%s:length" % fam, {"cfg": cfg, "reported": len(rep), "expected": len(ref)}, replay={"cfg": cfg})
                break
            tol = 2e-4 if cfg["sdmx"]["kind"] != "none" else 1e-8   # shipped SDMX constants agree with the documented integrals to ~4e-5 only
            err = np.abs(rep - ref) / np.maximum(1e-12, np.abs(ref))
            if err.max(initial=0) > tol:
                i = int(np.argmax(err))
                loc = attr["loc"]
                part = "sl" if i < loc[1] else ("nldf" if i < loc[2] else ("fl" if i < loc[3] else "sdmx"))
                spec = ""
                if part == "nldf":
                    n_ = cfg["nldf"]
                    names = (list(n_["jspecs"]) if n_["ver"] in ("j", "ij") else ["se"] * len(n_["jplens"]) if n_["ver"] == "k" else []) + \
                        (list(n_["l0"]) + ["dot"] * len(n_["dots"]) if n_["ver"] in ("i", "ij") else [])
                    spec = ":" + names[i - loc[1]] + ":" + n_["rho_mult"]
                ck.violation("ueg:%s:raw-value:%s%s" % (fam, part, spec), {"cfg": cfg, "rho": rho, "i": i, "reported": float(rep[i]), "quadrature": float(ref[i])},
                             replay={"cfg": cfg})
                break
        # ---- normalised values
        if attr["norm_raises"]:
            continue
        try:
            st.assign_reasonable_normalizer()
        except Exception:
            continue
        for rho in rhos[1:3]:
            try:
                raw = np.array(st.ueg_vector(rho), dtype=float)
                rep = np.array(st.ueg_vector(rho, with_normalizers=True), dtype=float)
            except NotImplementedError:
                break
            X = raw[None, :, None].copy()
            comp = st.normalizers.get_normalized_feature_vector(X)[0, :, 0]
            ck.count(key=(repr(cfg), rho, "norm") if nontrivial else None)
            err = np.abs(rep - comp) / np.maximum(1e-12, np.abs(comp))
            if err.max(initial=0) > 1e-10:
                i = int(np.argmax(err))
                kind = featalg.norm_kind(st.normalizers[i])[0]
                ck.violation("ueg:normalised-value:%s:slmode=%s" % (kind, cfg["sl"]), {"cfg": cfg, "rho": rho, "i": i, "reported": float(rep[i]), "computed": float(comp[i])},
                             replay={"cfg": cfg})
                break
    ck.log("replayed %d states" % nrep)
    ck.extra["states_replayed"] = nrep
    ck.sample({"cfg": order[0][0], "ueg": [float(x) for x in np.array(featalg.realize(order[0][0])[1].ueg_vector(0.3), dtype=float)]})
    # ---- get_vmap_heg_value: the value a VMap(gamma) takes at the UEG feature value
    for g in (0.3, 1.0, 2.7):
        for heg in (0.5, 2.0, 8.0):
            m = td.VMap(0, g, scale=1.0, center=0.0)
            y = np.zeros(1)
            m.fill_feat_(y, np.array([[heg]]))
            ck.count(key=("heg", g, heg))
            if abs(y[0] - td.get_vmap_heg_value(heg, g)) > 1e-14:
                ck.violation("get_vmap_heg_value", {"gamma": g, "heg": heg})
    ck.assumptions = ["SDMX reference constants from the momentum-space closed form + 1-D quadrature (1e-10); the shipped constants for j=2 differ from it by 5e-6 (H0) and 4e-5 (H0d), so the SDMX tolerance is 2e-4",
                      "uniform-gas values of vector (l=1) features are zero by symmetry",
                      "SDMXFullSettings: ratio != 1 terms follow the form integrated by SDMXFullPlan's fit matrices (undocumented), "
                      "ratio = 1 terms the documented integrals; the four densities are queried on ONE settings object, so a reported value "
                      "must not depend on earlier queries"]
    return ck.finish()


if __name__ == "__main__":
    if len(sys.argv) > 2 and sys.argv[1] == "--replay":
        print(open(sys.argv[2]).read()[:3000])
        sys.exit(0)
    main_wrapper(main)
