"""C20 -- the FFT plan wrapper computes the DFT it advertises.
  M: spec/FFTLayout.tla exhaustively (symbolic memory; every plan config in bounds, two calls)
  T: every real plan is observed by integer-tag probing and validated by Trace_FFTLayout
  R: numeric verdicts (numpy.fft, roundtrip, repeat, shape rejection) are part of the record"""
import cvload  # noqa: F401  (must be first)
import ctypes
import os
import itertools
import random
import sys

import numpy as np

from common import handle_crash, Check, MachineryError, main_wrapper, run_tlc, run_workers, validate_records, worker_main
from ciderpress.lib.fft_plan import FFTWrapper, libfft


class PlanStruct(ctypes.Structure):
    _fields_ = [("is_initialized", ctypes.c_int), ("ndim", ctypes.c_int), ("dims", ctypes.POINTER(ctypes.c_int)),
                ("r2c", ctypes.c_int), ("ntransform", ctypes.c_int), ("fft_in_size", ctypes.c_size_t),
                ("fft_out_size", ctypes.c_size_t), ("fwd", ctypes.c_int), ("batch_first", ctypes.c_int),
                ("inplace", ctypes.c_int), ("stride", ctypes.c_int), ("idist", ctypes.c_int), ("odist", ctypes.c_int),
                ("in_", ctypes.c_void_p), ("out", ctypes.c_void_p), ("plan", ctypes.c_void_p)]


libfft.fftw_shim_trace_get.restype = ctypes.c_long
libfft.fftw_shim_alloc_size.restype = ctypes.c_long
libfft.fftw_shim_alloc_size.argtypes = [ctypes.c_void_p]


def shim_trace(which):
    n = libfft.fftw_shim_trace_get(ctypes.c_int(which), None, ctypes.c_long(0))
    buf = np.zeros(max(n, 1), dtype=np.int64)
    libfft.fftw_shim_trace_get(ctypes.c_int(which), buf.ctypes.data_as(ctypes.c_void_p), ctypes.c_long(n))
    return buf[:n].tolist()


def view(ptr, n, real):
    if real:
        return np.ctypeslib.as_array(ctypes.cast(ptr, ctypes.POINTER(ctypes.c_double)), shape=(n,))
    a = np.ctypeslib.as_array(ctypes.cast(ptr, ctypes.POINTER(ctypes.c_double)), shape=(2 * n,))
    return a.view(np.complex128)


def ref_dft(x, c):
    nd = len(c["dims"])
    axes = tuple(range(1, nd + 1)) if c["bf"] else tuple(range(0, nd))
    N = int(np.prod(c["dims"]))
    if c["r2c"]:
        if c["fwd"]:
            return np.fft.rfftn(x, axes=axes)
        return np.fft.irfftn(x, s=c["dims"], axes=axes) * N
    if c["fwd"]:
        return np.fft.fftn(x, axes=axes)
    return np.fft.ifftn(x, axes=axes) * N


def hermitian_input(rng, c, shape):
    """A half-spectrum that IS the rfftn of a real array (c2r is only defined on such input)."""
    nd = len(c["dims"])
    rshape = ([c["nt"]] + list(c["dims"])) if c["bf"] else (list(c["dims"]) + [c["nt"]])
    axes = tuple(range(1, nd + 1)) if c["bf"] else tuple(range(0, nd))
    return np.ascontiguousarray(np.fft.rfftn(rng.normal(size=rshape), axes=axes))


def observe(c, rid, rng):
    dims, nt = c["dims"], c["nt"]
    w = FFTWrapper(list(dims), ntransform=nt, fwd=c["fwd"], r2c=c["r2c"], inplace=c["inplace"], batch_first=c["bf"])
    if not hasattr(w, "_ptr") or not w._ptr:
        # a wrapper that builds its C plan lazily: one call on zeros forces it (the layout observation needs the plan)
        w.call(np.zeros(tuple(w.input_shape), dtype=np.float64 if (c["r2c"] and c["fwd"]) else np.complex128))
    p = ctypes.cast(w._ptr, ctypes.POINTER(PlanStruct)).contents
    in_real = c["r2c"] and c["fwd"]
    out_real = c["r2c"] and not c["fwd"]
    in_bytes = libfft.fftw_shim_alloc_size(p.in_)
    out_bytes = in_bytes if c["inplace"] else libfft.fftw_shim_alloc_size(p.out)
    if in_bytes < 0 or out_bytes < 0:
        raise MachineryError("shim does not know the plan buffers")
    in_alloc = in_bytes // (8 if in_real else 16)
    out_alloc = out_bytes // (8 if out_real else 16)
    plan = {"in_size": int(p.fft_in_size), "out_size": int(p.fft_out_size), "stride": int(p.stride),
            "idist": int(p.idist), "odist": int(p.odist), "in_alloc": int(in_alloc), "out_alloc": int(out_alloc)}
    ish, osh = tuple(w.input_shape), tuple(w.output_shape)
    nin, nout = int(np.prod(ish)), int(np.prod(osh))
    # ---- write map by tag probing: buffer pre-filled with -1, user element k carries tag k
    ib = view(p.in_, in_alloc, in_real)
    ib[:] = -1
    x = np.arange(nin, dtype=np.float64 if in_real else np.complex128).reshape(ish)
    if in_real:
        # FFTWrapper.call would reject a float array only by shape; write_fft_input reads doubles
        libfft.write_fft_input(w._ptr, x.ctypes.data_as(ctypes.c_void_p))
    else:
        libfft.write_fft_input(w._ptr, x.ctypes.data_as(ctypes.c_void_p))
    got = np.real(np.array(ib)).astype(np.int64)
    wmap = [-1] * nin
    dup = False
    for off, tag in enumerate(got.tolist()):
        if tag >= 0:
            if tag < nin and wmap[tag] == -1:
                wmap[tag] = off
            else:
                dup = True
    if dup:  # an element copied twice: expose as a non-injective map
        wmap = wmap + [wmap[0]]
    # ---- FFTW access maps from the shim (actual offsets it reads/writes)
    libfft.fftw_shim_trace(ctypes.c_int(1))
    libfft.execute_fft_plan(w._ptr)
    libfft.fftw_shim_trace(ctypes.c_int(0))
    fin, fout = shim_trace(0), shim_trace(1)
    # ---- read map: tag the output buffer with its own offsets, see where each lands
    ob = view(p.out, out_alloc, out_real)
    ob[:] = np.arange(out_alloc)
    y = np.full(osh, -1, dtype=np.float64 if out_real else np.complex128)
    libfft.read_fft_output(w._ptr, y.ctypes.data_as(ctypes.c_void_p))
    rmap = np.real(y).astype(np.int64).ravel().tolist()
    # ---- numeric verdicts through the public call
    tol = 1e-12 * max(1, int(np.prod(dims))) * 10
    def rand_in():
        if out_real:
            return hermitian_input(rng, c, ish)
        if in_real:
            return rng.normal(size=ish)
        return rng.normal(size=ish) + 1j * rng.normal(size=ish)
    num_ok = repeat_ok = True
    errs = []
    for _ in range(2):
        xin = rand_in()
        xin0 = xin.copy()
        yout = w.call(xin if not in_real else xin)
        ref = ref_dft(xin0.astype(np.complex128) if not in_real else xin0, c)
        scale = max(1.0, float(np.abs(ref).max()))
        e = float(np.abs(yout - ref).max()) / scale if yout.shape == ref.shape else float("inf")
        errs.append(e)
        num_ok &= bool(e <= tol)
        y2 = w.call(xin)
        repeat_ok &= bool(np.array_equal(yout, y2)) and bool(np.array_equal(xin, xin0))
    # forward∘backward = N x with the partner plan
    w2 = FFTWrapper(list(dims), ntransform=nt, fwd=not c["fwd"], r2c=c["r2c"], inplace=c["inplace"], batch_first=c["bf"])
    xin = rand_in()
    back = w2.call(w.call(xin) if not (c["r2c"] and c["fwd"]) else w.call(xin))
    N = int(np.prod(dims))
    roundtrip_ok = bool(back.shape == xin.shape and np.abs(back - N * xin).max() <= tol * N * max(1.0, np.abs(xin).max()))
    # wrongly shaped input must be rejected
    reject_ok = True
    bad_shapes = [tuple(reversed(ish)) if tuple(reversed(ish)) != ish else ish + (1,), ish[:-1] + (ish[-1] + 1,), (nin,)]
    for bs in bad_shapes:
        if tuple(bs) == ish:
            continue
        try:
            w.call(np.zeros(bs, dtype=np.float64 if in_real else np.complex128))
            reject_ok = False
        except ValueError:
            pass
    # value semantics (spec/ValueSemantics.tla): results held across later calls, caller arrays overwritten in place
    import valuesem
    vals = {"c1": rand_in(), "c2": rand_in(), "c3": rand_in()}
    vs = []
    for hk, h in enumerate(VS_HISTS):
        # a wrapper of its own per history, constructed from a MUTABLE dims list that the caller reuses afterwards
        # (ValueSemantics!OverwriteCtor): the plan must be the one for the dims given at construction
        dims_arg = list(dims)
        wv = FFTWrapper(dims_arg, ntransform=nt, fwd=c["fwd"], r2c=c["r2c"], inplace=c["inplace"], batch_first=c["bf"])
        other = {"c1": list(dims), "c2": list(reversed(dims)) if list(reversed(dims)) != list(dims) else [d + 1 for d in dims], "c3": [d + 2 for d in dims]}
        vs = valuesem.replay(h, vals, wv.call, lambda a: ref_dft(a.astype(np.complex128) if not in_real else a, c), tol=tol,
                             overwrite_ctor=lambda cn: dims_arg.__setitem__(slice(None), other[cn]))
        if vs:
            break
    return {"id": rid, "vs_ok": not vs, "vs_clause": vs[0][0] if vs else "",
            "cfg": {"dims": list(dims), "r2c": c["r2c"], "fwd": c["fwd"], "inplace": c["inplace"],
                               "bf": c["bf"], "nt": nt},
            "plan": plan, "w": wmap, "r": rmap, "fin": fin, "fout": fout,
            "in_shape": list(ish), "out_shape": list(osh),
            "num_ok": num_ok, "roundtrip_ok": roundtrip_ok, "repeat_ok": repeat_ok, "reject_ok": reject_ok,
            "max_rel_err": max(errs)}


VS_HISTS = []

# sizes at which the copies between caller arrays and plan buffers cross the block sizes such code is usually written with
# (the model's layout laws are uniform in the sizes; the implementation is sampled where a size-dependent path would switch):
# totals of 2^12..2^16 elements, their neighbours, and the r2c shapes whose HALF spectrum is such a total
# (no axis longer than 4096: the reference FFTW shim is a plain O(n^2) DFT along each axis)
LARGE_DIMS = [[4096], [4097], [64, 64], [63, 65], [128, 128], [256, 256], [16, 16, 16], [17, 16, 16], [32, 16, 16], [32, 32, 14],
              [8, 8, 8, 8], [16, 16, 30], [256, 16], [2, 2048], [64, 128]]


def observe_large(c, rng):
    """A large plan: the element maps are too long to validate one by one with TLC; what is checked is what they imply --
    every caller element reaches the plan's input exactly once, every returned element comes from a distinct place of the
    plan's output, the result equals numpy's DFT (twice, different data: a stale part of a buffer shows), and
    forward o backward = N x."""
    dims, nt = c["dims"], c["nt"]
    w = FFTWrapper(list(dims), ntransform=nt, fwd=c["fwd"], r2c=c["r2c"], inplace=c["inplace"], batch_first=c["bf"])
    in_real = c["r2c"] and c["fwd"]
    out_real = c["r2c"] and not c["fwd"]
    ish, osh = tuple(w.input_shape), tuple(w.output_shape)
    w.call(np.zeros(ish, dtype=np.float64 if in_real else np.complex128))
    p = ctypes.cast(w._ptr, ctypes.POINTER(PlanStruct)).contents
    in_bytes = libfft.fftw_shim_alloc_size(p.in_)
    out_bytes = in_bytes if c["inplace"] else libfft.fftw_shim_alloc_size(p.out)
    in_alloc = in_bytes // (8 if in_real else 16)
    out_alloc = out_bytes // (8 if out_real else 16)
    nin = int(np.prod(ish))
    ib = view(p.in_, in_alloc, in_real)
    ib[:] = -1
    x = np.arange(nin, dtype=np.float64 if in_real else np.complex128).reshape(ish)
    libfft.write_fft_input(w._ptr, x.ctypes.data_as(ctypes.c_void_p))
    got = np.real(np.array(ib)).astype(np.int64)
    tags = got[got >= 0]
    write_ok = bool(tags.size == nin and np.array_equal(np.sort(tags), np.arange(nin)))
    ob = view(p.out, out_alloc, out_real)
    ob[:] = np.arange(out_alloc)
    y = np.full(osh, -1, dtype=np.float64 if out_real else np.complex128)
    libfft.read_fft_output(w._ptr, y.ctypes.data_as(ctypes.c_void_p))
    r = np.real(y).astype(np.int64).ravel()
    read_ok = bool((r >= 0).all() and np.unique(r).size == r.size)
    tol = 1e-12 * max(1, int(np.prod(dims))) * 10

    def rand_in():
        if out_real:
            return hermitian_input(rng, c, ish)
        if in_real:
            return rng.normal(size=ish)
        return rng.normal(size=ish) + 1j * rng.normal(size=ish)
    num_ok, errs = True, []
    for _ in range(2):
        xin = rand_in()
        xin0 = xin.copy()
        yout = w.call(xin)
        ref = ref_dft(xin0.astype(np.complex128) if not in_real else xin0, c)
        e = float(np.abs(yout - ref).max()) / max(1.0, float(np.abs(ref).max())) if yout.shape == ref.shape else float("inf")
        errs.append(e)
        num_ok &= bool(e <= tol) and bool(np.array_equal(xin, xin0))
    w2 = FFTWrapper(list(dims), ntransform=nt, fwd=not c["fwd"], r2c=c["r2c"], inplace=c["inplace"], batch_first=c["bf"])
    xin = rand_in()
    back = w2.call(w.call(xin))
    N = int(np.prod(dims))
    roundtrip_ok = bool(back.shape == xin.shape and np.abs(back - N * xin).max() <= tol * N * max(1.0, np.abs(xin).max()))
    return {"cfg": c, "write_ok": write_ok, "read_ok": read_ok, "num_ok": num_ok, "roundtrip_ok": roundtrip_ok, "max_rel_err": max(errs)}


def observe_siblings(cfgs, rng):
    """Several wrappers ALIVE AT THE SAME TIME whose advertised array shapes coincide although their transforms differ (the batch
    index first or last, ntransform equal to a neighbouring dimension): every wrapper must still compute ITS transform -- evaluated
    after all of them were constructed, in construction order and in reverse."""
    ws = []
    for c in cfgs:
        ws.append((c, FFTWrapper(list(c["dims"]), ntransform=c["nt"], fwd=c["fwd"], r2c=c["r2c"], inplace=c["inplace"], batch_first=c["bf"])))
    out = []
    for order in (ws, ws[::-1]):
        for c, w in order:
            in_real = c["r2c"] and c["fwd"]
            out_real = c["r2c"] and not c["fwd"]
            ish = tuple(w.input_shape)
            if out_real:
                x = hermitian_input(rng, c, ish)
            elif in_real:
                x = rng.normal(size=ish)
            else:
                x = rng.normal(size=ish) + 1j * rng.normal(size=ish)
            x0 = x.copy()
            y = w.call(x)
            ref = ref_dft(x0.astype(np.complex128) if not in_real else x0, c)
            tol = 1e-11 * max(1, int(np.prod(c["dims"])))
            e = float(np.abs(y - ref).max()) / max(1.0, float(np.abs(ref).max())) if y.shape == ref.shape else float("inf")
            out.append({"cfg": c, "err": e, "ok": bool(e <= tol)})
    return out


def worker(job):
    if job.get("kind") == "siblings":
        rng = np.random.default_rng(job["seed"])
        return {"id": job["id"], "siblings": observe_siblings(job["plans"], rng)}
    if job.get("kind") == "large":
        rng = np.random.default_rng(job["seed"])
        return {"id": job["id"], "large": [observe_large(c, rng) for c in job["plans"]]}
    VS_HISTS[:] = job["vs_hists"]
    rng = np.random.default_rng(job["seed"])
    return {"id": job["id"], "recs": [observe(c, rid, rng) for rid, c in job["plans"]]}


def all_configs(maxdim, nts, four_d):
    dimsets = [d for n in (1, 2, 3) for d in itertools.product(range(1, maxdim + 1), repeat=n)]
    out = []
    for d in dimsets:
        for r2c, fwd, inplace, bf in itertools.product([False, True], repeat=4):
            for nt in nts:
                out.append({"dims": list(d), "r2c": r2c, "fwd": fwd, "inplace": inplace, "bf": bf, "nt": nt})
    if four_d:
        for d in itertools.product((2, 3), repeat=4):
            for r2c, fwd, inplace, bf in itertools.product([False, True], repeat=4):
                for nt in (1, 2):
                    out.append({"dims": list(d), "r2c": r2c, "fwd": fwd, "inplace": inplace, "bf": bf, "nt": nt})
    return out


def main():
    ck = Check("C20", "model_checking")
    rng_py = random.Random(ck.seed)
    ck.rule = ("plan = (dims, r2c, fwd, inplace, batch_first, ntransform); model: all plans with rank<=3, dims in 1..4 "
               "(quick) / 1..5 plus 4-D {2,3}^4 (thorough), nt<=3, two calls per plan; implementation: each plan observed "
               "by tag probing + numeric verdicts and validated by Trace_FFTLayout; a plan is non-trivial if some dim > 1")
    # ---- M
    cfgname = "MC_FFTLayout_small.cfg" if ck.tier == "quick" else "MC_FFTLayout_full.cfg"
    r = run_tlc("MC_FFTLayout", cfgname, workers=16, coverage=(ck.tier == "quick"), timeout=3000, heap="16g")
    if r.error:
        raise MachineryError("TLC: " + r.error)
    ck.add_tlc(cfgname, r, require_actions=("WriteInput", "Execute", "ReadOutput") if ck.tier == "quick" else ())
    ck.log("model: %s" % r)
    for v in r.violated:
        ck.violation("model:FFTLayout:" + v, {"tlc": r.out[-2500:]})
    ck.exhaustive = True
    # ---- T/R on the implementation
    if ck.tier == "quick":
        space = all_configs(5, (1, 2, 3), True)
    else:
        space = all_configs(7, (1, 2, 3, 5), True)
        rng_py.shuffle(space)
    np_rng = np.random.default_rng(ck.seed)
    import valuesem
    VS_HISTS[:] = valuesem.model_and_histories(ck, want=4 if ck.tier == "quick" else 20)
    # the plans are observed in worker processes: a plan whose C side writes outside its buffers (memory corruption in the
    # code under test) kills the worker, not the check, and is reported as a violation for the plans of that chunk
    indexed = [(k + 1, c) for k, c in enumerate(space)]
    nchunk = 64
    jobs = [{"id": j, "plans": indexed[j::nchunk], "seed": ck.seed + j, "vs_hists": list(VS_HISTS)} for j in range(nchunk)]
    large = [{"dims": list(d), "r2c": r2c, "fwd": fwd, "inplace": inplace, "bf": bf, "nt": nt}
             for d in LARGE_DIMS for r2c, fwd, inplace, bf in itertools.product([False, True], repeat=4)
             for nt in ((1, 2) if ck.tier == "quick" else (1, 2, 3, 4))]
    jobs += [{"id": nchunk + j, "kind": "large", "plans": large[j::16], "seed": ck.seed + 1000 + j} for j in range(16)]
    # families of plans with coinciding array shapes, all alive together
    fams = []
    for n in (2, 3, 4, 6):
        fams.append([{"dims": [n], "r2c": r2c, "fwd": fwd, "inplace": inplace, "bf": bf, "nt": n}
                     for r2c, fwd, inplace, bf in itertools.product([False, True], repeat=4)])
    for a, b, c_ in ((3, 4, 4), (2, 2, 3), (4, 3, 4), (2, 3, 2)):
        fams.append([{"dims": list(d), "r2c": r2c, "fwd": fwd, "inplace": inplace, "bf": bf, "nt": nt}
                     for d, nt in (((a, b), c_), ((b, c_), a), ((a, c_), b), ((c_, b), a), ((b, a), c_))
                     for r2c, fwd, inplace, bf in itertools.product([False, True], repeat=4)])
    jobs += [{"id": nchunk + 100 + j, "kind": "siblings", "plans": fam, "seed": ck.seed + 2000 + j} for j, fam in enumerate(fams)]
    recs = []
    nlarge = nsib = 0
    for res in run_workers(os.path.abspath(__file__), jobs, nproc=16, timeout=7000, allow_crash=True):
        if "worker_died" in res and any(job.get("kind") == "large" for job in res["jobs"]):
            cfgs = [c for job in res["jobs"] for c in job["plans"]]
            ck.violation("plan:large:process-died", {"returncode": res["worker_died"], "first_cfgs": cfgs[:3], "log": res["log"][-600:]}, replay={"cfg": cfgs[0]})
            continue
        if "worker_died" in res and any(job.get("kind") == "siblings" for job in res["jobs"]):
            ck.violation("plan:siblings:process-died", {"returncode": res["worker_died"], "log": res["log"][-600:]})
            continue
        if "siblings" in res:
            for o in res["siblings"]:
                c = o["cfg"]
                nsib += 1
                ck.count(key=("siblings", tuple(c["dims"]), c["r2c"], c["fwd"], c["inplace"], c["bf"], c["nt"]))
                if not o["ok"]:
                    ck.violation("plan:siblings:r2c=%d,fwd=%d,inplace=%d,bf=%d:another-live-wrapper-changes-the-transform" % (c["r2c"], c["fwd"], c["inplace"], c["bf"]),
                                 {"cfg": c, "max_rel_err": o["err"]}, replay={"cfg": c})
            continue
        if "large" in res:
            for o in res["large"]:
                c = o["cfg"]
                nlarge += 1
                ck.count(key=("large", tuple(c["dims"]), c["r2c"], c["fwd"], c["inplace"], c["bf"], c["nt"]))
                failed = [k for k in ("write_ok", "read_ok", "num_ok", "roundtrip_ok") if not o[k]]
                if failed:
                    ck.violation("plan:large:r2c=%d,fwd=%d,inplace=%d,bf=%d:%s" % (c["r2c"], c["fwd"], c["inplace"], c["bf"], failed[0]),
                                 {"cfg": c, "failed": failed, "max_rel_err": o["max_rel_err"]}, replay={"cfg": c})
            continue
        if "worker_died" in res:
            cfgs = [c for job in res["jobs"] for _, c in job["plans"]]
            ck.violation("plan:process-died", {"returncode": res["worker_died"], "n_plans_in_chunk": len(cfgs), "first_cfgs": cfgs[:3], "log": res["log"][-600:]},
                         replay={"cfg": cfgs[0] if cfgs else None})
            continue
        if "crash" in res:
            handle_crash(ck, res)
            continue
        recs += res["recs"]
    recs.sort(key=lambda r_: r_["id"])
    if not recs:
        if ck.violations:
            ck.notes.append("every worker process died while observing plans: no record could be validated")
            return ck.finish()
        raise MachineryError("no plan was observed")
    for rec in recs:
        c = rec["cfg"]
        ck.count(key=(tuple(c["dims"]), c["r2c"], c["fwd"], c["inplace"], c["bf"], c["nt"]) if max(c["dims"]) > 1 else None)
    for rec in recs[:3]:
        ck.sample({kk: rec[kk] for kk in ("cfg", "plan", "w", "fin", "max_rel_err")})
    ck.log("observed %d plans on the implementation, and %d large plans at block-size boundaries" % (len(recs), nlarge))
    ck.extra["sibling_plans"] = "%d evaluations of wrappers kept alive together in families with coinciding array shapes" % nsib
    ck.extra["large_plans"] = "%d plans with totals of 2^12..2^16 elements and their neighbours (%s): copy maps complete and injective, DFT equals numpy twice, round trip" % (nlarge, LARGE_DIMS)
    res = validate_records("Trace_FFTLayout", "Trace_FFTLayout.cfg", recs, nchunks=8 if ck.tier == "quick" else 16, timeout=1800 if ck.tier == "quick" else 10000)
    ck.traces += res["accepted"]
    ck.states += res["states"]
    ck.transitions += res["generated"]
    byid = {r_["id"]: r_ for r_ in recs}
    for rid, inv in res["rejected"]:
        rc = byid[rid]
        c = rc["cfg"]
        site = "plan:r2c=%d,fwd=%d,inplace=%d,bf=%d:%s" % (c["r2c"], c["fwd"], c["inplace"], c["bf"], inv)
        if inv == "ValueSemanticsOK":
            site += ":" + rc.get("vs_clause", "")
        ck.violation(site, {"invariant": inv, "cfg": c, "plan": rc["plan"], "max_rel_err": rc["max_rel_err"],
                            "verdicts": {k: rc[k] for k in ("num_ok", "roundtrip_ok", "repeat_ok", "reject_ok", "vs_ok")}},
                     replay={"cfg": c})
    if res["drift"]:
        ck.notes.append("model drift (layout differs from the transcription in FFTLayout.tla, results still right): %d plans, e.g. %s"
                        % (len(res["drift"]), [byid[int(x)]["cfg"] for x in list(res["drift"])[:3]]))
        ck.log(ck.notes[-1])
    ck.extra["max_rel_err_vs_numpy"] = max(r_["max_rel_err"] for r_ in recs)
    # ---- binding self-test: a corrupted observation must be rejected
    import copy
    bad = copy.deepcopy(next(r_ for r_ in recs if r_["cfg"]["r2c"] and r_["cfg"]["inplace"] and len(r_["w"]) > 3 and r_["cfg"]["dims"][-1] > 1))
    bad["w"][1], bad["w"][2] = bad["w"][2], bad["w"][1]
    st = validate_records("Trace_FFTLayout", "Trace_FFTLayout.cfg", [bad], nchunks=1)
    if not st["rejected"]:
        raise MachineryError("self-test: corrupted write map was accepted")
    ck.extra["selftest"] = "swapping two entries of an observed write map is rejected by %s" % st["rejected"][0][1]
    ck.assumptions = ["FFTW semantics = /verif/shim/fftw3.c (naive DFT honouring the documented advanced-interface layout, cross-checked against numpy.fft on every plan)",
                      "MKL backend and MPI plans are not built here and are not covered"]
    return ck.finish()


if __name__ == "__main__":
    if len(sys.argv) > 1 and sys.argv[1] == "--worker":
        worker_main(worker)
        sys.exit(0)
    if len(sys.argv) > 2 and sys.argv[1] == "--replay":
        import json
        with open(sys.argv[2]) as f:
            rp = json.load(f)
        for occ in rp["occurrences"][:3]:
            c = occ["replay"]["cfg"]
            print(observe(c, 1, np.random.default_rng(0)))
        sys.exit(0)
    main_wrapper(main)
