"""C17 -- analytic nuclear gradients equal the derivative of the SCF energy.
  M: spec/GradDispatch.tla: (RKS|UKS) x density fitting x feature family x grid response x
     interpolator -> forces | NotImplementedError, and the gradient class selected
  R: every row TLC emits is replayed: unsupported rows must raise NotImplementedError (and nothing
     else), supported rows run a converged SCF with a synthetic model and compare the analytic forces
     with Richardson finite differences of the total energy for chosen coordinates; sum rule"""
import cvload  # noqa: F401
import os
import sys

import numpy as np

import e2e
from common import handle_crash, Check, MachineryError, main_wrapper, run_tlc, run_workers, tlc_printed_values, worker_main

BOHR = 0.52917721092
FAM = {"sl": ("none", "none"), "nldf_j": ("j", "none"), "nldf_i": ("i", "none"), "nldf_ij": ("ij", "none"), "nldf_k": ("k", "none"),
       "sdmx": ("none", "SDMX"), "nldf_j+sdmx": ("j", "SDMX")}
GEOM = {"R": [["H", (0.0, 0.0, 0.0)], ["F", (0.0, 0.1, 0.92)]], # the doublet must be NON-degenerate: OH (2-Pi) flips between its two pi occupations and never converges to 1e-11
        # atom ORDER is part of the input: a light atom before and after the heavy one (per-atom work arrays are sized by the atom)
        "U": [["H", (0.0, 0.80, 0.60)], ["N", (0.0, 0.0, 0.0)], ["H", (0.07, -0.74, 0.66)]]}


def scf(row, shift_atom=None, shift=None, level=2, cheap=False):
    from pyscf import gto
    atoms = [[a, np.array(c, dtype=float)] for a, c in GEOM[row["spin"]]]
    if shift_atom is not None:
        atoms[shift_atom][1] = atoms[shift_atom][1] + shift
    mol = gto.M(atom=[[a, tuple(c)] for a, c in atoms], basis="sto-3g", verbose=0, unit="Angstrom", spin=1 if row["spin"] == "U" else 0)
    nldf, sdmx = FAM[row["fam"]]
    cfg = {"sl": "npa" if row.get("mgga", True) else "np", "nldf": nldf, "sdmx": sdmx, "plan": "gaussian", "interp": row["interp"],
           "eval": "rbf", "mode": "SEP", "mix": "xmix_c"}
    ks = e2e.make_session(cfg, mol, row["spin"] == "U", 11, level=level)
    if row.get("nlc"):
        ks.nlc = "vv10"
        ks.nlcgrids.level = 0
    if row["df"]:
        ks = ks.density_fit()
    ks.conv_tol = 1e-11
    ks.conv_tol_grad = 1e-7
    ks.max_cycle = 80
    if cheap:          # dispatch-only rows: the decision does not depend on the density
        ks.conv_tol = 1e-5
        ks.conv_tol_grad = 1e-3
    e = ks.kernel()
    return ks, e


def check_row(job):
    row = job["row"]
    exp = job["expect"]
    viol, n = [], 0
    tag = "%s:df=%d:%s:gr=%d:%s%s" % (row["spin"], row["df"], row["fam"], row["grid_response"], row["interp"], ":vv10" if row.get("nlc") else "")
    try:
        ks, e0 = scf(row, level=2 if job["coords"] else 0, cheap=not job["coords"])
    except Exception as ex:
        return {"id": job["id"], "viol": [{"site": "scf:%s:%s" % (type(ex).__name__, row["fam"]), "detail": {"row": row, "msg": str(ex)[:300]}}], "n": 0}
    if not ks.converged:
        return {"id": job["id"], "viol": [], "n": 0, "skipped": "scf not converged"}
    g = ks.nuc_grad_method()
    cls = [type(g).__module__.split(".")[-1], type(g).__name__]
    n += 1
    if cls != list(exp["cls"]):
        viol.append({"site": "dispatch:gradient-class", "detail": {"row": row, "impl": cls, "spec": exp["cls"]}})
    g.grid_response = row["grid_response"]
    try:
        f = g.kernel()
        got = "forces"
    except NotImplementedError:
        got = "NotImplementedError"
    except Exception as ex:
        got = "other:" + type(ex).__name__ + ":" + str(ex)[:120]
    if got != exp["kind"]:
        viol.append({"site": "dispatch:%s:%s:expected-%s" % (row["fam"], "grid-response" if row["grid_response"] else "fixed-grid", exp["kind"]),
                     "detail": {"row": row, "impl": got, "spec": exp["kind"]}})
        return {"id": job["id"], "viol": viol, "n": n}
    if got != "forces":
        return {"id": job["id"], "viol": viol, "n": n}
    if not np.all(np.isfinite(f)):
        viol.append({"site": "forces:non-finite:" + tag, "detail": {"row": row}})
        return {"id": job["id"], "viol": viol, "n": n}
    # ---- blocking: the forces must not depend on how many grid blocks the XC loops of the gradient code are cut into.
    # The gradient routines floor their memory budget at 2000 MB, so the number of blocks is not reachable through
    # max_memory; the integrator's own blksize argument is used instead (instance-level wrapper, minimum block size).
    ni = ks._numint
    from ciderpress.pyscf.numint import BLKSIZE
    saved = {}
    try:
        for nm in ("block_loop", "extra_block_loop"):
            if hasattr(ni, nm):
                orig = getattr(ni, nm)
                saved[nm] = orig
                setattr(ni, nm, (lambda o: (lambda *a, **k: o(*a, **dict(k, blksize=4 * BLKSIZE))))(orig))
        g2 = ks.nuc_grad_method()
        g2.grid_response = row["grid_response"]
        f_blk = g2.kernel()
        n += 1
        if not (np.all(np.isfinite(f_blk)) and np.abs(f_blk - f).max() <= 1e-9 * (1 + np.abs(f).max())):
            viol.append({"site": "forces:depend-on-blocking:%s:%s:%s" % (row["fam"], "grid-response" if row["grid_response"] else "fixed-grid", row["spin"]),
                         "detail": {"row": row, "max_abs_diff": float(np.abs(f_blk - f).max()), "one_block": f.tolist(), "many_blocks": f_blk.tolist()}})
    except Exception as ex:  # noqa: BLE001
        viol.append({"site": "forces:blocking:%s:%s" % (type(ex).__name__, tag), "detail": {"row": row, "msg": str(ex)[:200]}})
    finally:
        for nm in saved:
            try:
                delattr(ni, nm)
            except AttributeError:
                pass
    tol = 5e-6 if row["grid_response"] else 2e-4
    ssum = np.abs(f.sum(0)).max()
    n += 1
    if job["coords"] and ssum > (1e-7 if row["grid_response"] else 2e-4):
        viol.append({"site": "forces:sum-rule:%s%s" % ("grid-response" if row["grid_response"] else "fixed-grid", ":vv10" if row.get("nlc") else ""), "detail": {"row": row, "sum": f.sum(0).tolist()}})
    for atom, ax in job["coords"]:
        h = 2e-3

        def E(s):
            d = np.zeros(3)
            d[ax] = s
            return scf(row, atom, d)[1]
        f1 = (E(h) - E(-h)) / (2 * h)
        f2 = (E(2 * h) - E(-2 * h)) / (4 * h)
        fd = (4 * f1 - f2) / 3 * BOHR
        est = abs(f1 - f2) * BOHR
        n += 1
        if not (abs(fd - f[atom, ax]) <= tol + 5 * est):
            viol.append({"site": "forces:vs-fd:%s%s:%s:%s" % (row["fam"], "+vv10" if row.get("nlc") else "", "grid-response" if row["grid_response"] else "fixed-grid", row["spin"]),
                         "detail": {"row": row, "atom": atom, "axis": ax, "analytic": float(f[atom, ax]), "fd": float(fd), "est": float(est)}})
    return {"id": job["id"], "viol": viol, "n": n}


def main():
    ck = Check("C17", "exploration")
    rng = np.random.default_rng(ck.seed)
    quick = ck.tier == "quick"
    ck.rule = ("row = (RKS|UKS, density fitting, feature family, grid response, interpolator) emitted by TLC from GradDispatch.tla; every row: "
               "gradient class and forces/NotImplementedError as the model says; supported rows (quick: a stratified third; thorough: all): "
               "converged SCF (conv_tol 1e-11) with a synthetic model on HF (R) / bent NH2 (U, non-degenerate doublet), analytic forces vs Richardson FD of the SCF energy "
               "for 1 (quick) / all (thorough) coordinates, sum rule")
    r = run_tlc("GradDispatch", "MC_GradDispatch.cfg", workers=4, timeout=600)
    if r.error:
        raise MachineryError("TLC: " + r.error)
    ck.add_tlc("GradDispatch", r)
    ck.exhaustive = True
    for v in r.violated:
        ck.violation("model:GradDispatch:" + v, {})
    rows = tlc_printed_values(r.out, "GRADROW")
    uniq = {repr(sorted(a.items())): (a, b) for a, b in rows}
    rows = sorted(uniq.values(), key=lambda t: repr(sorted(t[0].items())))
    ck.log("model: %s, %d rows" % (r, len(rows)))
    if len(rows) < 40:
        raise MachineryError("rows not emitted")
    jobs = []
    # quick: finite-difference forces for one row of EVERY (spin, grid response, family) triple -- the three dimensions that
    # select different code in rks_grad / uks_grad -- with density fitting and interpolator rotating over the triples
    fdrows, seen3 = set(), {}
    if quick:
        for k, (row, exp) in enumerate(rows):
            if exp["kind"] == "forces":
                seen3.setdefault((row["spin"], row["grid_response"], row["fam"], row["nlc"]), []).append(k)
        for t, (key3, ks_) in enumerate(sorted(seen3.items(), key=repr)):
            fdrows.add(ks_[(t + ck.seed) % len(ks_)])
    for k, (row, exp) in enumerate(rows):
        coords = []
        if exp["kind"] == "forces":
            if quick:
                if k in fdrows:
                    coords = [(1, int(rng.integers(1, 3)))]
            else:
                coords = [(a, x) for a in (0, 1) for x in (1, 2)]
        jobs.append({"id": k, "row": row, "expect": exp, "coords": coords})
    nfd = sum(1 for j in jobs if j["coords"])
    ck.log("replaying %d rows (%d with finite-difference forces)" % (len(jobs), nfd))
    for res in run_workers(os.path.abspath(__file__), jobs, nproc=16, timeout=7000):
        if "crash" in res:
            handle_crash(ck, res)
            continue
        job = jobs[res["id"]]
        ck.evaluations += res["n"]
        ck.count(key=res["id"], n=0)
        for v in res["viol"]:
            ck.violation(v["site"], v["detail"], replay={"job": job})
        if res.get("skipped"):
            if job["coords"]:
                raise MachineryError("finite-difference row %d (%s) was skipped: %s -- the check would be vacuous for it" % (res["id"], job["row"], res["skipped"]))
            ck.notes.append("row %d skipped: %s" % (res["id"], res["skipped"]))
    ck.traces = len(jobs)
    ck.extra["rows_with_fd_forces"] = nfd
    ck.sample({"row": rows[0][0], "expected": rows[0][1]})
    ck.assumptions = ["tolerances: 5e-6 Eh/Bohr with grid response (sum rule 1e-7), 2e-4 without (probed errors 1e-7 / 7e-6 on HF/STO-3G)",
                      "level-2 grids (fixed-grid error grows to 4e-4 at level 1), STO-3G; fractional-Laplacian functionals cannot be constructed in this tree"]
    return ck.finish()


if __name__ == "__main__":
    if len(sys.argv) > 1 and sys.argv[1] == "--worker":
        worker_main(check_row)
        sys.exit(0)
    if len(sys.argv) > 2 and sys.argv[1] == "--replay":
        import json
        rp = json.load(open(sys.argv[2]))
        for occ in rp["occurrences"][:2]:
            print(check_row(occ["replay"]["job"]))
        sys.exit(0)
    main_wrapper(main)
