"""C05 -- every reverse-mode operator is the exact adjoint of its forward operator.
  M: spec/Pipeline.tla: forward / backward stage sequences of the NLDF pipeline for every version,
     interpolator kind and channel count; backward = reversed transposed forward (outer chain),
     transposed multiset with equal offsets (inner on-site / spline branches)
  T: the stage calls of real generators during get_features / get_potential are recorded and validated
     by Trace_Pipeline (a stage dropped, reordered or given another offset in one direction only is
     rejected without any tolerance)
  R: dot test <A x, y> = <x, B y> per stage and for the composed pipeline on real generators over
     molecules (1-3 atoms), versions, plans, interpolators, lmax, thread counts; unit-vector probes on
     boundary rows; SDMX: get_vxc_ is the transpose of the feature Jacobian"""
import cvload  # noqa: F401
import contextlib
import copy
import functools
import os
import sys

import numpy as np

import models as M
from common import handle_crash, Check, MachineryError, main_wrapper, run_tlc, run_workers, validate_records, worker_main

TOL = 2e-11


@contextlib.contextmanager
def stage_recorder(log):
    from ciderpress.dft.grids_indexer import AtomicGridsIndexer
    from ciderpress.dft.lcao_convolutions import ATCBasis, ConvolutionCollection, ConvolutionCollectionK
    from ciderpress.dft.lcao_interpolation import LCAOInterpolator, LCAOInterpolatorDirect
    from ciderpress.dft.plans import NLDFAuxiliaryPlan
    state = {"in_project": 0}
    undo = []

    def wrap(cls, name, describe, project=False, inner=False):
        orig = cls.__dict__[name]

        @functools.wraps(orig)
        def w(self, *a, **k):
            top = state["in_project"] == 0
            ev = describe(self, a, k)
            if ev is not None and (inner or top):
                ev["level"] = "inner" if state["in_project"] > 0 else "outer"
                if inner or (top and not project) or project:
                    log.append(ev)
            if project:
                state["in_project"] += 1
            try:
                return orig(self, *a, **k)
            finally:
                if project:
                    state["in_project"] -= 1
        setattr(cls, name, w)
        undo.append((cls, name, orig))

    def ev(name, d, cnt=0, o1=0, o2=0):
        return {"name": name, "dir": "fwd" if d else "bwd", "cnt": int(cnt), "o1": int(o1), "o2": int(o2)}
    wrap(AtomicGridsIndexer, "reduce_angc_ylm_", lambda s, a, k: ev("angc_ylm", k.get("a2y", a[2] if len(a) > 2 else True)) if state["in_project"] == 0 else None)
    wrap(ATCBasis, "convert_rad2orb_", lambda s, a, k: ev("rad_orb", k.get("rad2orb", a[4] if len(a) > 4 else True)) if state["in_project"] == 0 else None)
    wrap(NLDFAuxiliaryPlan, "get_transformed_interpolation_terms",
         lambda s, a, k: ev("coef_transform_theta" if k.get("i", -1) == -1 else "coef_transform_feat", k.get("fwd", True)))
    wrap(ConvolutionCollection, "multiply_atc_integrals", lambda s, a, k: ev("atc", k.get("fwd", True)))
    wrap(ConvolutionCollectionK, "multiply_atc_integrals", lambda s, a, k: ev("atc", k.get("fwd", True)))
    for cls in (LCAOInterpolator, LCAOInterpolatorDirect):
        wrap(cls, "project_orb2grid", lambda s, a, k: ev("project", True), project=True)
        wrap(cls, "project_grid2orb", lambda s, a, k: ev("project", False), project=True)
    wrap(LCAOInterpolator, "conv2spline", lambda s, a, k: ev("spline", True), inner=True)
    wrap(LCAOInterpolator, "spline2conv", lambda s, a, k: ev("spline", False), inner=True)
    wrap(LCAOInterpolator, "interpolate_fwd", lambda s, a, k: ev("interp", True), inner=True)
    wrap(LCAOInterpolator, "interpolate_bwd", lambda s, a, k: ev("interp", False), inner=True)
    wrap(LCAOInterpolatorDirect, "_run_onsite_orb2grid",
         lambda s, a, k: ev("onsite_atco" if a[0] is s.atco else "onsite_l1atco", a[6], a[3], a[4], a[5]), inner=True)
    wrap(LCAOInterpolatorDirect, "_run_onsite_lp1", lambda s, a, k: ev("lp1", a[1], s._n1), inner=True)
    try:
        yield
    finally:
        for cls, name, orig in reversed(undo):
            setattr(cls, name, orig)


def dot(a, b):
    return float(np.vdot(a, b))


def adj_err(ax, y, x, by):
    l, r = dot(ax, y), dot(x, by)
    return abs(l - r) / (np.linalg.norm(ax) * np.linalg.norm(y) + np.linalg.norm(x) * np.linalg.norm(by) + 1e-300)


def build_generator(job):
    from pyscf.dft import numint as pni
    from ciderpress.pyscf.gen_cider_grid import CiderGrids
    from ciderpress.pyscf.nldf_convolutions import PySCFNLDFInitializer
    mol = M.make_mol(job["mol"])
    grids = CiderGrids(mol, lmax=job["lmax"])
    grids.atom_grid = tuple(job["atom_grid"])
    grids.build()
    if job.get("prune_thr"):
        # density pruning (pyscf small_rho_cutoff): the sorted grid becomes a STRICT subset of the atom-ordered grid, so the
        # scatter/gather through idx_map leaves atom-ordered rows that no sorted point maps to
        ao0 = pni.eval_ao(mol, grids.coords, deriv=0)
        rho0 = pni.eval_rho(mol, ao0, 2 * M.core_dm(mol), xctype="LDA")
        n_before = grids.grids_indexer.idx_map.size
        grids.prune_by_density_(rho0, job["prune_thr"])
        if not grids.grids_indexer.idx_map.size < n_before and job["mol"] in ("He", "H2", "H2O"):
            # (the three molecules of the quick tier are known to lose points at these thresholds; the small grids of the
            # additional thorough molecules may not: those generators then simply run unpruned)
            raise MachineryError("density pruning removed no point (threshold %g)" % job["prune_thr"])
    nl = M.nldf_settings(job["ver"], job["level"], "one", rich=job["rich"])
    init = PySCFNLDFInitializer(nl, plan_type=job["plan"], interpolator_type=job["interp"], aux_lambd=job.get("lambd", 1.8))
    gen = init.initialize_nldf_generator(mol, grids.grids_indexer, 1)
    gen.interpolator.set_coords(grids.coords)
    return mol, grids, nl, gen


def check_generator(job):
    import ctypes
    rng = np.random.default_rng(job["seed"])
    viol, n = [], 0
    tag = "%s:%s:%s:%s:%s" % (job["ver"], job["level"], job["plan"], job["interp"], job["mol"])
    try:
        mol, grids, nl, gen = build_generator(job)
    except MachineryError:
        raise
    except Exception as ex:
        return {"id": job["id"], "viol": [{"site": "build:%s:%s" % (type(ex).__name__, job["interp"]), "detail": {"job": job, "msg": str(ex)[:300]}}], "n": 0, "rec": None}
    gi = gen.grids_indexer
    plan, ccl, itp = gen.plan, gen.ccl, gen.interpolator
    nalpha = plan.nalpha
    ngr = gi.ngrids

    def test(name, ax, y, x, by):
        nonlocal n
        n += 1
        e = adj_err(ax, y, x, by)
        # stages that go through the (ill-conditioned) interpolation-coefficient solve amplify round-off
        tol = 1e-8 if name.startswith(("coef_transform", "pipeline")) else TOL
        if not e <= tol:
            viol.append({"site": "dot-test:%s:%s" % (name, tag.split(":")[0] + ":" + job["interp"]), "detail": {"job": job, "rel": e}})
    def test_scaled(name, fa, fb, x, y):
        """the identity holds for ALL inputs: the same vectors scaled by exact powers of two down to the size of response /
        difference vectors (an absolute threshold anywhere in a step breaks linearity there)"""
        for sx, sy in ((2.0 ** -40, 1.0), (1.0, 2.0 ** -40), (2.0 ** -60, 2.0 ** -60)):
            xs, ys = x * sx, y * sy
            test("%s:scaled" % name, fa(xs), ys, xs, fb(ys))
    # ---- S1 angular grid <-> harmonics (with stride > nalpha and an offset, as the wrappers accept)
    for stride, off in ((nalpha, 0), (nalpha + 3, 2)):
        x = np.zeros((ngr, stride))
        x[:, off:off + nalpha] = rng.normal(size=(ngr, nalpha))
        y = rng.normal(size=(gi.nrad, gi.nlm, nalpha))
        ax = gi.empty_rlmq(nalpha)
        gi.reduce_angc_ylm_(ax, x.copy(), a2y=True, offset=off)
        by = np.zeros((ngr, stride))
        gi.reduce_angc_ylm_(y.copy(), by, a2y=False, offset=off)
        test("angc_ylm:stride=%s" % ("nalpha" if off == 0 else "wider"), ax, y, x[:, off:off + nalpha], by[:, off:off + nalpha])
        if off == 0:
            def fa1(xx):
                o = gi.empty_rlmq(nalpha)
                gi.reduce_angc_ylm_(o, xx.copy(), a2y=True, offset=0)
                return o

            def fb1(yy):
                o = np.zeros((ngr, nalpha))
                gi.reduce_angc_ylm_(yy.copy(), o, a2y=False, offset=0)
                return o
            test_scaled("angc_ylm", fa1, fb1, x, y)
    # ---- S2 radial grid <-> orbital basis
    atco = ccl.atco_inp
    x = rng.normal(size=(gi.nrad, gi.nlm, nalpha))
    y = rng.normal(size=(atco.nao, nalpha))
    ax = np.zeros((atco.nao, nalpha))
    atco.convert_rad2orb_(x.copy(), ax, gi, gi.rad_arr, rad2orb=True, offset=0)
    by = np.zeros_like(x)
    atco.convert_rad2orb_(by, y.copy(), gi, gi.rad_arr, rad2orb=False, offset=0)
    test("rad_orb", ax, y, x, by)

    def fa2(xx):
        o = np.zeros((atco.nao, nalpha))
        atco.convert_rad2orb_(xx.copy(), o, gi, gi.rad_arr, rad2orb=True, offset=0)
        return o

    def fb2(yy):
        o = np.zeros((gi.nrad, gi.nlm, nalpha))
        atco.convert_rad2orb_(o, yy.copy(), gi, gi.rad_arr, rad2orb=False, offset=0)
        return o
    test_scaled("rad_orb", fa2, fb2, x, y)
    # the orbital-side array may be WIDER than the block that is converted (stride > nalpha) and the block may start at an
    # offset, also at offset 0 (the on-site interpolation converts the l=0 block of an array that also holds the l=1 blocks)
    for stride, off in ((nalpha + 3, 0), (nalpha + 3, 2), (2 * nalpha, nalpha)):
        yw = rng.normal(size=(atco.nao, stride))
        axw = np.zeros((atco.nao, stride))
        atco.convert_rad2orb_(x.copy(), axw, gi, gi.rad_arr, rad2orb=True, offset=off)
        byw = np.zeros_like(x)
        atco.convert_rad2orb_(byw, yw.copy(), gi, gi.rad_arr, rad2orb=False, offset=off)
        test("rad_orb:stride=wider,offset=%s" % ("0" if off == 0 else "positive"), axw[:, off:off + nalpha], yw[:, off:off + nalpha], x, byw)
        outside = np.delete(axw, np.s_[off:off + nalpha], axis=1)
        n += 1
        if np.abs(outside).max(initial=0.0) != 0.0 or np.abs(axw[:, off:off + nalpha] - ax).max() > 1e-12 * (1 + np.abs(ax).max()):
            viol.append({"site": "rad_orb:wider-array:%s" % (tag.split(":")[0] + ":" + job["interp"]),
                         "detail": {"job": job, "stride": stride, "offset": off, "written_outside_the_block": float(np.abs(outside).max(initial=0.0)),
                                    "block_differs_from_dense_call": float(np.abs(axw[:, off:off + nalpha] - ax).max())}})
    # ---- S3 interpolation-coefficient transforms
    for i in range(-1, nl.num_feat_param_sets if job["ver"] != "i" else 0):
        x = rng.normal(size=(7, nalpha))
        y = rng.normal(size=(7, nalpha))
        ax = plan.get_transformed_interpolation_terms(x.copy(), i=i, fwd=True, inplace=False)
        by = plan.get_transformed_interpolation_terms(y.copy(), i=i, fwd=False, inplace=False)
        test("coef_transform:i=%s" % ("theta" if i == -1 else "feat"), ax, y, x, by)
    # ---- S4 convolution integrals
    x = rng.normal(size=(ccl.atco_inp.nao, ccl.nalpha))
    y = rng.normal(size=(ccl.atco_out.nao, ccl.nalpha if getattr(ccl, 'is_vk', False) else ccl.nbeta))
    ax = ccl.multiply_atc_integrals(np.ascontiguousarray(x), fwd=True)
    by = ccl.multiply_atc_integrals(np.ascontiguousarray(y), fwd=False)
    test("atc", ax, y, x, by)
    test_scaled("atc", lambda xx: ccl.multiply_atc_integrals(np.ascontiguousarray(xx), fwd=True),
                lambda yy: ccl.multiply_atc_integrals(np.ascontiguousarray(yy), fwd=False), x, y)
    # ---- S5 orbital basis <-> grid (incl. on-site and l+1 terms), random + unit-vector probes
    ng_out = grids.coords.shape[0]
    x = rng.normal(size=(ccl.atco_out.nao, itp.num_in))
    y = rng.normal(size=(ng_out, itp.num_out))
    y[gi.idx_map.size:] = 0.0          # padding rows are not part of the operator's range
    ax = itp.project_orb2grid(np.ascontiguousarray(x))
    by = itp.project_grid2orb(np.ascontiguousarray(y))
    test("project", ax, y, x, by)
    test_scaled("project", lambda xx: itp.project_orb2grid(np.ascontiguousarray(xx)), lambda yy: itp.project_grid2orb(np.ascontiguousarray(yy)), x, y)
    for (r, c) in ((0, 0), (ccl.atco_out.nao - 1, itp.num_in - 1), (ccl.atco_out.nao // 2, itp.num_in // 2)):
        ex = np.zeros_like(x)
        ex[r, c] = 1.0
        col = itp.project_orb2grid(ex)                      # column (r,c) of A
        for (g, q) in ((0, 0), (gi.idx_map.size - 1, itp.num_out - 1), (gi.idx_map.size // 3, itp.num_out // 2)):
            ey = np.zeros_like(y)
            ey[g, q] = 1.0
            row = itp.project_grid2orb(ey)                  # row (g,q) of B^T
            n += 1
            if abs(col[g, q] - row[r, c]) > 1e-11 * (abs(col[g, q]) + abs(row[r, c])) + 1e-14:
                viol.append({"site": "unit-probe:project:%s" % (tag.split(":")[0] + ":" + job["interp"]),
                             "detail": {"job": job, "A": float(col[g, q]), "Bt": float(row[r, c]), "idx": [r, c, g, q]}})
    # ---- S6 composed pipeline
    x = rng.normal(size=(ngr, nalpha))
    y = rng.normal(size=(ng_out, itp.num_out))
    y[gi.idx_map.size:] = 0.0
    ax = gen._perform_fwd_convolution(x.copy()).copy()
    by = gen._perform_bwd_convolution(y.copy()).copy()
    test("pipeline", ax, y, x, by)
    test_scaled("pipeline", lambda xx: gen._perform_fwd_convolution(xx.copy()).copy(), lambda yy: gen._perform_bwd_convolution(yy.copy()).copy(), x, y)
    # ---- recorded stage sequences during real feature / potential evaluation
    from pyscf.dft import numint as pni
    ao = pni.eval_ao(mol, grids.coords, deriv=1)
    P = 2 * M.core_dm(mol)
    r = pni.eval_rho(mol, ao, P, xctype="MGGA", with_lapl=False)
    rho = np.zeros((5 if job["level"] == "MGGA" else 4, r.shape[1]))
    rho[:4] = r[:4]
    if job["level"] == "MGGA":
        rho[4] = r[-1]
    flog, blog = [], []
    with stage_recorder(flog):
        feat = gen.get_features(rho.copy())
    with stage_recorder(blog):
        gen.get_potential(rng.normal(size=feat.shape))
    rec = {"id": "g%d" % job["id"], "cfg": {"ver": job["ver"], "onsite": job["interp"] == "onsite_direct", "n0": int(itp._n0), "n1": int(itp._n1)},
           "outer_fwd": [e for e in flog if e["level"] == "outer"], "outer_bwd": [e for e in blog if e["level"] == "outer"],
           "inner_fwd": [e for e in flog if e["level"] == "inner"], "inner_bwd": [e for e in blog if e["level"] == "inner"],
           "dot_ok": not viol, "_job": job}
    for lst in ("outer_fwd", "outer_bwd", "inner_fwd", "inner_bwd"):
        rec[lst] = [{k: v for k, v in e.items() if k != "level"} for e in rec[lst]]
    return {"id": job["id"], "viol": viol, "n": n, "rec": rec}


def sdmx_adjoint(job):
    """SDMX: get_vxc_ applied to dE/dfeat equals the derivative of sum(feat * w) w.r.t. the density matrix"""
    from ciderpress.pyscf.sdmx import PySCFSDMXInitializer
    from pyscf import dft
    rng = np.random.default_rng(job["seed"])
    viol, n = [], 0
    # basis layout is part of the quantifier: segmented (sto-3g), generally contracted shells with NCTR > 1
    # (cc-pvdz) and polarisation functions (6-31g*) take different branches of the shell loops in fast_sdmx.c
    mol = M.make_mol(job["mol"], basis=job.get("basis", "sto-3g"))
    g = dft.Grids(mol)
    g.atom_grid = (12, 26)
    g.build()
    for kind in ("SDMX", "G", "1", "G1", "Full"):
        sd = M.sdmx_settings(kind)
        gen = PySCFSDMXInitializer(sd, lowmem=False).initialize_sdmx_generator(mol, 1)
        P = 2 * M.psd_dm(rng, mol, nocc=max(1, mol.nelectron // 2))
        coords = g.coords[:200]
        wv = rng.normal(size=(sd.nfeat, coords.shape[0]))

        def F(D):
            f = gen.get_features(D, mol, coords)
            f = f if f.ndim == 2 else f[0]
            return float((f * wv).sum())
        f0 = gen.get_features(P, mol, coords)
        vmat = np.zeros((mol.nao, mol.nao))
        gen.get_vxc_(vmat, wv.copy())
        vmat = vmat + vmat.T
        d = rng.normal(size=P.shape)
        d = 0.5 * (d + d.T)
        h = 1e-4
        f1 = (F(P + h * d) - F(P - h * d)) / (2 * h)
        f2 = (F(P + 2 * h * d) - F(P - 2 * h * d)) / (4 * h)
        fd = (4 * f1 - f2) / 3
        ana = float((vmat * d).sum())
        n += 1
        # the convention of get_vxc_ (half / hermitian sum) is fixed by C01; here: proportionality with factor 1 or 1/2
        if not (abs(fd - ana) <= 1e-6 * (1 + abs(fd)) or abs(fd - 0.5 * ana) <= 1e-6 * (1 + abs(fd))):
            viol.append({"site": "sdmx:vxc-not-transpose-of-feature-jacobian:%s:%s" % (kind, job.get("basis", "sto-3g")), "detail": {"fd": fd, "analytic": ana}})
        # the forward contraction is a linear operator on the FULL matrix (hermi=0 input, response densities): the features are
        # quadratic in the density matrix, so J x = [f(P+x) - f(P-x)] / 2 exactly, and <J x, w> = c <x, B w> must hold with the
        # SAME constant c for symmetric, non-symmetric and antisymmetric directions x (B w = get_vxc_(0, w), not symmetrised)
        B = np.zeros((mol.nao, mol.nao))
        gen.get_features(P, mol, coords)
        gen.get_vxc_(B, wv.copy())

        def Jx(x):
            fp = gen.get_features(P + x, mol, coords)
            fm = gen.get_features(P - x, mol, coords)
            return float(((fp - fm) * 0.5 * wv).sum())
        xs = rng.normal(size=P.shape)
        sym, anti = 0.5 * (xs + xs.T), 0.5 * (xs - xs.T)
        lhs_s, rhs_s = Jx(sym), float((sym * B).sum())
        n += 1
        if abs(rhs_s) > 1e-8 * (1 + abs(lhs_s)):
            c = lhs_s / rhs_s
            for nm, x in (("non-symmetric", xs), ("antisymmetric", anti)):
                lhs, rhs = Jx(x), c * float((x * B).sum())
                n += 1
                if abs(lhs - rhs) > 1e-9 * (abs(lhs_s) + abs(lhs) + abs(rhs)):
                    viol.append({"site": "sdmx:adjoint-on-%s-matrices:%s:%s" % (nm, kind, job.get("basis", "sto-3g")),
                                 "detail": {"<Jx,w>": lhs, "c<x,Bw>": rhs, "c": c}})
    return {"id": job["id"], "viol": viol, "n": n, "rec": None}


def worker(job):
    if job.get("sdmx"):
        return sdmx_adjoint(job)
    return check_generator(job)


def main():
    ck = Check("C05", "model_checking")
    rng = np.random.default_rng(ck.seed)
    quick = ck.tier == "quick"
    ck.rule = ("generator = (molecule with 1-3 atoms, NLDF version, level, plan, interpolator, lmax, rich spec list); each: dot tests for "
               "six stages (two stride/offset layouts for the angular stage), unit-vector probes of the projection on boundary rows, "
               "composed pipeline, recorded stage sequences validated by Trace_Pipeline; thread counts 1 and 3")
    r = run_tlc("Pipeline", "MC_Pipeline.cfg", workers=4, timeout=600, coverage=True)
    if r.error:
        raise MachineryError("TLC: " + r.error)
    ck.add_tlc("Pipeline", r)
    ck.exhaustive = True
    for v in r.violated:
        ck.violation("model:Pipeline:" + v, {})
    jobs = []
    k = 0
    mols = [("He", (14, 26)), ("H2", (12, 26)), ("H2O", (10, 14))]
    if not quick:      # more atom / basis layouts, and both plan classes for every combination
        mols += [("HF", (10, 14)), ("LiH", (12, 14)), ("NH2", (8, 14)), ("H2O_ghost", (8, 14))]
    for ver in ("j", "i", "ij", "k"):
        for interp in ("onsite_direct", "onsite_spline", "train_gen"):
            for mi, (mol, ag) in enumerate(mols):
                for plan in (("gaussian" if k % 2 else "spline"),) if quick else ("gaussian", "spline"):
                    jobs.append({"id": k, "ver": ver, "level": "MGGA" if k % 3 else "GGA", "plan": plan, "interp": interp,
                                 "mol": mol, "atom_grid": ag, "lmax": (10, 6, 3, 8)[k % 4], "rich": ver in ("i", "j") and k % 2 == 0, "seed": ck.seed + k,
                                 "prune_thr": (0, 1e-3, 0, 1e-1, 1e-2)[k % 5]})
                    k += 1
    for mname, basis in (("H2O", "sto-3g"), ("H2O", "cc-pvdz"), ("HF", "6-31g*"), ("H2", "aug-cc-pvdz")):
        jobs.append({"id": k, "sdmx": True, "mol": mname, "basis": basis, "seed": ck.seed + k})
        k += 1
    recs = []
    for threads in ((1, 3) if not quick else (1,)):
        for res in run_workers(os.path.abspath(__file__), jobs, nproc=16, timeout=7000, threads=threads):
            if "crash" in res:
                handle_crash(ck, res)
                continue
            ck.evaluations += res["n"]
            ck.count(key=(res["id"], threads), n=0)
            for v in res["viol"]:
                ck.violation(v["site"], v["detail"], replay={"job": jobs[res["id"]]})
            if res["rec"] is not None and threads == 1:
                recs.append(res["rec"])
    if quick:
        # one generator again with 3 threads
        for res in run_workers(os.path.abspath(__file__), jobs[:6], nproc=6, timeout=3000, threads=3):
            if "crash" in res:
                handle_crash(ck, res)
                continue
            ck.evaluations += res["n"]
            ck.count(key=(res["id"], 3), n=0)
            for v in res["viol"]:
                ck.violation(v["site"] + ":threads=3", v["detail"], replay={"job": jobs[res["id"]]})
    ck.log("model: %s; %d generators checked" % (r, len(recs)))
    res = validate_records("Trace_Pipeline", "Trace_Pipeline.cfg", recs, nchunks=4)
    ck.traces += res["accepted"]
    ck.states += res["states"]
    ck.transitions += res["generated"]
    byid = {r_["id"]: r_ for r_ in recs}
    for rid, inv in res["rejected"]:
        if inv == "NumericOK":
            continue     # already reported by the dot test itself
        j = byid[rid]["_job"]
        ck.violation("trace:%s:%s:%s" % (inv, j["ver"], j["interp"]), {"job": j, "outer_fwd": byid[rid]["outer_fwd"], "outer_bwd": byid[rid]["outer_bwd"],
                                                                       "inner_fwd": byid[rid]["inner_fwd"], "inner_bwd": byid[rid]["inner_bwd"]}, replay={"job": j})
    if res["drift"]:
        ck.notes.append("model drift: forward stage sequence differs from Pipeline.tla for %d generators: %s" % (len(res["drift"]), sorted(res["drift"])[:5]))
        ck.log(ck.notes[-1])
    if recs:
        ck.sample({"cfg": recs[0]["cfg"], "outer_fwd": [e["name"] + ":" + e["dir"] for e in recs[0]["outer_fwd"]],
                   "inner_fwd": [[e["name"], e["cnt"], e["o1"], e["o2"]] for e in recs[0]["inner_fwd"]]})
        bad = copy.deepcopy(next(r_ for r_ in recs if r_["inner_bwd"]))
        bad["id"] = "selftest"
        bad["dot_ok"] = True
        for e in bad["inner_bwd"]:
            if e["name"].startswith("onsite"):
                e["o2"] += 1
                break
        else:
            bad["inner_bwd"] = bad["inner_bwd"][1:]
        st = validate_records("Trace_Pipeline", "Trace_Pipeline.cfg", [bad], nchunks=1)
        if not st["rejected"]:
            raise MachineryError("self-test: altered backward stage accepted")
        ck.extra["selftest"] = "changing one offset / dropping one stage of a recorded backward pass is rejected (%s)" % st["rejected"][0][1]
    ck.assumptions = ["dot-test tolerance 2e-11 relative to |Ax||y| + |x||By|", "padding rows of the sorted grid are outside the operator's range"]
    return ck.finish()


if __name__ == "__main__":
    if len(sys.argv) > 1 and sys.argv[1] == "--worker":
        worker_main(worker)
        sys.exit(0)
    if len(sys.argv) > 2 and sys.argv[1] == "--replay":
        import json
        rp = json.load(open(sys.argv[2]))
        for occ in rp["occurrences"][:2]:
            out = worker(occ["replay"]["job"])
            print(out["viol"])
        sys.exit(0)
    main_wrapper(main)
