"""Catalogue of the registered feature-map classes with example constructor arguments."""
import cvload  # noqa: F401
import inspect

import numpy as np

from ciderpress.dft import transform_data as td

INDEX_ARGS = ("i", "j", "k", "l", "i_n", "i_s", "i_alpha")


def all_map_classes():
    return list(td.ALL_CLASSES)


def example_args(cls, rng, nraw=4, distinct=True, gamma_one=False, defaults=False):
    """(args, kwargs) for a constructor call; index arguments drawn from range(nraw)."""
    sig = inspect.signature(cls.__init__)
    names = [p for p in sig.parameters if p != "self"]
    idx_names = [p for p in names if p in INDEX_ARGS]
    if distinct and len(idx_names) <= nraw:
        idxs = list(rng.permutation(nraw)[: len(idx_names)])
    else:
        idxs = list(rng.integers(0, nraw, size=len(idx_names)))
    kw = {}
    it = iter(idxs)
    for p in names:
        if p in INDEX_ARGS:
            kw[p] = int(next(it))
        elif p.startswith("gamma"):
            kw[p] = 1.0 if gamma_one else float(np.round(rng.uniform(0.2, 2.5), 3))
        elif p == "scale":
            if not defaults:
                kw[p] = float(np.round(rng.uniform(0.5, 2.0), 3))
        elif p == "center":
            if not defaults:
                kw[p] = float(np.round(rng.uniform(-0.5, 0.5), 3))
        elif p in ("c", "B", "C"):
            kw[p] = float(np.round(rng.uniform(0.3, 1.5), 3))
        elif p == "bounds":
            pass
        else:
            raise ValueError("unknown constructor argument %s of %s" % (p, cls.__name__))
    return kw


def make(cls, rng, **opts):
    return cls(**example_args(cls, rng, **opts))
