"""C07 -- spin-polarised and unpolarised evaluations agree; spin labels are symmetric.
  M: spec/CiderPress.tla configuration lattice (spin-relevant dimensions) + spec/SpinFactors.tla:
     per layer, the power of nspin the code applies equals the homogeneity degree the identity
     E[n_up, n_dn] = (E[2 n_up] + E[2 n_dn]) / 2 demands
  R: identities at every layer separately (so a compensating pair of errors is still caught):
     semilocal plan, NLDF generator, SDMX generator, baselines, mapped model, and end to end
     nr_rks(D) vs nr_uks(D/2, D/2), channel swap, separability for exchange-like models"""
import cvload  # noqa: F401
import os
import sys

import numpy as np

import e2e
import models as M
from common import handle_crash, Check, MachineryError, main_wrapper, run_tlc, run_workers, worker_main

TOL = 2e-10


def rel(a, b):
    a, b = np.asarray(a, dtype=float), np.asarray(b, dtype=float)
    if a.shape != b.shape:
        return float("inf")
    return float(np.abs(a - b).max() / (1e-300 + max(1.0, np.abs(b).max()))) if a.size else 0.0


def layer_checks(job):
    """semilocal plan / NLDF generator / SDMX generator / baselines / mapped model, nspin=1 vs duplicated nspin=2"""
    from pyscf.dft import numint as pni
    from ciderpress.dft import baselines
    from ciderpress.dft.plans import SemilocalPlan
    from ciderpress.dft.settings import SemilocalSettings
    from ciderpress.pyscf.gen_cider_grid import CiderGrids
    from ciderpress.pyscf.nldf_convolutions import PySCFNLDFInitializer
    from ciderpress.pyscf.sdmx import PySCFSDMXInitializer
    rng = np.random.default_rng(job["seed"])
    viol, n = [], 0
    mol = M.make_mol("H2O")
    grids = CiderGrids(mol)
    grids.level = 0
    grids.build()
    ao = pni.eval_ao(mol, grids.coords, deriv=1)
    P = 2 * M.psd_dm(rng, mol, nocc=5)
    r = pni.eval_rho(mol, ao, P, xctype="MGGA", with_lapl=False)
    rho = np.zeros((5, r.shape[1]))
    rho[:4] = r[:4]
    rho[4] = r[-1]
    # ---- semilocal plan
    for mode in ("nst", "npa", "ns", "np"):
        p1 = SemilocalPlan(SemilocalSettings(mode), 1)
        p2 = SemilocalPlan(SemilocalSettings(mode), 2)
        f1 = p1.get_feat(rho[None].copy())
        f2 = p2.get_feat(np.stack([rho / 2, rho / 2]))
        n += 1
        # points astride the 1e-10 cutoff of the reduced variables belong to C08; the 1e-16 regularisers in
        # s^2 / alpha make the identity hold to ~1e-9 relative at rho ~ 1e-6, hence rho > 1e-4 and 1e-8
        ok = rho[0] > 1e-4
        err = max(rel(f2[0][:, ok], f1[0][:, ok]), rel(f2[1][:, ok], f1[0][:, ok]))
        if err > 1e-8:
            viol.append({"site": "layer:semilocal-plan:%s" % mode, "detail": {"err": err}})
    # ---- NLDF generator
    for ver in ("j", "i", "ij", "k"):
        for level in ("MGGA", "GGA"):
            for plan in ("gaussian", "spline"):
                nl = M.nldf_settings(ver, level, "one", rich=(ver in ("i", "j")))
                init = PySCFNLDFInitializer(nl, plan_type=plan)
                g1 = init.initialize_nldf_generator(mol, grids.grids_indexer, 1)
                g2 = init.initialize_nldf_generator(mol, grids.grids_indexer, 2)
                for g in (g1, g2):
                    g.interpolator.set_coords(grids.coords)
                rr = rho if level == "MGGA" else rho[:4]
                f1 = g1.get_features(rr.copy())
                fa = g2.get_features(rr / 2, spin=0)
                fb = g2.get_features(rr / 2, spin=1)
                n += 1
                sel = rho[0] > 1e-6
                # (1e-8: the two plans reach the same features through differently scaled interpolation solves; seed 4 drew 1.5e-9,
                # a wrong spin factor is O(1))
                if rel(fa[:, sel], f1[:, sel]) > 1e-8 or rel(fb[:, sel], f1[:, sel]) > 1e-8:
                    bad = int(np.argmax([rel(fa[i, sel], f1[i, sel]) for i in range(f1.shape[0])]))
                    kind = "dot" if (ver in ("i", "ij") and bad >= f1.shape[0] - len(nl.l1_feat_dots)) else "l0"
                    viol.append({"site": "layer:nldf-generator:%s:%s:%s" % (ver, level, kind), "detail": {"plan": plan, "feature": bad, "err": rel(fa[:, sel], f1[:, sel])}})
    # ---- SDMX generator
    for kind in ("SDMX", "G", "1", "G1", "Full"):
        sd = M.sdmx_settings(kind)
        i1 = PySCFSDMXInitializer(sd, lowmem=False).initialize_sdmx_generator(mol, 1)
        i2 = PySCFSDMXInitializer(sd, lowmem=False).initialize_sdmx_generator(mol, 2)
        f1 = i1.get_features(P, mol, grids.coords)
        f2 = i2.get_features(np.stack([P / 2, P / 2]), mol, grids.coords)
        n += 1
        f1 = f1 if f1.ndim == 2 else f1[0]
        if rel(f2[0], f1) > 1e-9 or rel(f2[1], f1) > 1e-9:
            viol.append({"site": "layer:sdmx-generator:%s" % kind, "detail": {"err": rel(f2[0], f1)}})
    # ---- native baselines on normalised features
    X1 = np.empty((1, 5, 30))
    X1[0, 0] = np.exp(rng.uniform(-4, 1, 30))
    X1[0, 1:3] = rng.uniform(0.05, 2, (2, 30))
    X1[0, 3:] = rng.uniform(0.2, 2, (2, 30))
    X2 = np.concatenate([X1, X1], axis=0)
    for nm in ("lda_x", "gga_x_pbe", "gga_x_chachiyo", "nlda_x_damp", "gga_c_pbe"):
        fn = getattr(baselines, nm)
        e1, d1 = fn(X1.copy())
        e2, d2 = fn(X2.copy())
        n += 1
        if rel(e2, e1) > TOL or rel(d2[0] + d2[1], d1[0]) > 1e-9:
            viol.append({"site": "layer:baseline:%s" % nm, "detail": {"err_e": rel(e2, e1), "err_d": rel(d2[0] + d2[1], d1[0])}})
    # ---- native baselines: genuinely polarised input, exchanged channels
    Xp = np.concatenate([X1, X1], axis=0)
    Xp[1, 0] *= rng.uniform(0.3, 0.9, 30)
    Xp[1, 1:] = Xp[1, 1:] * rng.uniform(0.5, 1.5, (4, 30))
    for nm in ("lda_x", "gga_x_pbe", "gga_x_chachiyo", "nlda_x_damp", "gga_c_pbe"):
        fn = getattr(baselines, nm)
        ea, da = fn(Xp.copy())
        eb, db = fn(Xp[::-1].copy())
        n += 1
        ea, eb = np.asarray(ea), np.asarray(eb)
        sw = (ea.ndim == 2)
        if rel(eb[::-1] if sw else eb, ea) > TOL or rel(np.asarray(db)[::-1], np.asarray(da)) > 1e-9:
            viol.append({"site": "layer:baseline-spin-swap:%s" % nm, "detail": {"err_e": rel(eb[::-1] if sw else eb, ea)}})
    # ---- libxc-backed baselines (every code of the live tables, incl. same-spin / opposite-spin splits)
    npt = 40
    rho = np.asfortranarray(np.exp(rng.uniform(-3, 1, (2, npt))))
    g = rng.normal(size=(2, 3, npt)) * rho[:, None] ** (4.0 / 3)
    sig = np.asfortranarray(np.stack([(g[0] * g[0]).sum(0), (g[0] * g[1]).sum(0), (g[1] * g[1]).sum(0)]))
    tau = np.asfortranarray(sig[::2] / (8 * rho) + rng.uniform(0.1, 2.0, (2, npt)) * rho ** (5.0 / 3))
    codes = []
    for tab in ("LDA_CODES", "GGA_CODES", "MGGA_CODES", "SS_GGA_CODES", "OS_GGA_CODES"):
        codes += sorted(getattr(baselines, tab, {}).keys())
    res = {}
    for code in codes:
        def call(r, s_, t_):
            out = baselines.get_libxc_baseline(code, (np.asfortranarray(r), np.asfortranarray(s_), np.asfortranarray(t_)))
            return [np.asarray(x) for x in out]
        a = call(rho, sig, tau)
        b = call(rho[::-1], sig[::-1], tau[::-1])
        res[code] = a
        n += 1
        bad = rel(b[0], a[0]) > TOL
        for xa, xb in zip(a[1:], b[1:]):
            bad = bad or rel(xb[::-1], xa) > 1e-9
        if bad:
            viol.append({"site": "layer:libxc-baseline-spin-swap:%s" % code, "detail": {"err_e": rel(b[0], a[0])}})
        # closed shell through both paths
        tot = rho[0] + rho[1]
        gt = g[0] + g[1]
        st = (gt * gt).sum(0)
        tt = tau[0] + tau[1]
        u = call(tot[None], st[None], tt[None])
        d = call(np.stack([tot, tot]) / 2, np.stack([st, st, st]) / 4, np.stack([tt, tt]) / 2)
        n += 1
        if rel(d[0], u[0]) > TOL:
            viol.append({"site": "layer:libxc-baseline-closed-shell:%s" % code, "detail": {"err_e": rel(d[0], u[0])}})
    for os_code in getattr(baselines, "OS_GGA_CODES", {}):
        ss_code, tot_code = "SS_" + os_code[3:], os_code[3:]
        if ss_code in res and tot_code in res:
            n += 1
            if rel(res[os_code][0] + res[ss_code][0], res[tot_code][0]) > TOL:
                viol.append({"site": "layer:libxc-baseline-ss+os=total:%s" % tot_code, "detail": {}})
    # ---- POL-mode evaluator (the spin-symmetrised squared-exponential kernel): exchanging the spin labels of the INPUT
    # leaves the value unchanged and swaps the derivative blocks; broad and narrow length scales, inputs near the
    # control points in their own orientation and with the labels exchanged (only one of the two pairings is O(1) then)
    import spinkernel
    from ciderpress.dft.xc_evaluator import SpinRBFEvaluator
    from ciderpress.models.kernel_plans.kernel_tools import get_rbf_kernel
    for name, ls, Xc, alpha, X in spinkernel.cases(rng, N1=4):
        ev = SpinRBFEvaluator(get_rbf_kernel(slice(0, 4), ls, scale=1.0), Xc, alpha)
        f, df = ev(X.copy())
        fs, dfs = ev(X[::-1].copy())
        rf, rdf = spinkernel.reference(X, Xc, ev._alpha, ls)
        n += 2
        sc = 1 + max(np.abs(rf).max(), np.abs(f).max())
        if not (np.abs(f - fs).max() <= 1e-12 * sc and np.abs(df - dfs[::-1]).max() <= 1e-11 * (1 + np.abs(rdf).max())):
            viol.append({"site": "layer:pol-evaluator-spin-swap:%s" % name.split(":")[0], "detail": {"case": name, "err_f": float(np.abs(f - fs).max()), "scale": float(sc)}})
        if not (np.abs(f - rf).max() <= 1e-12 * sc and np.abs(fs - rf).max() <= 1e-12 * sc):
            viol.append({"site": "layer:pol-evaluator-vs-kernel-sum:%s" % name.split(":")[0], "detail": {"case": name, "err": float(max(np.abs(f - rf).max(), np.abs(fs - rf).max()))}})
    return {"viol": viol, "n": n}


def e2e_check(job):
    cfg, seed = job["cfg"], job["seed"]
    rng = np.random.default_rng(seed)
    mol = M.make_mol("H2O", basis=job.get("basis", "sto-3g"))      # basis layout (segmented / generally contracted) is a dimension
    viol, n = [], 0
    tag = "%s:%s:%s:%s:%s:%s" % (cfg["sl"], cfg["nldf"], cfg["sdmx"], cfg["eval"], cfg["mode"], cfg["mix"])
    try:
        kr = e2e.make_session(cfg, mol, False, seed)
        ku = e2e.make_session(cfg, mol, True, seed)
    except Exception as ex:
        return {"viol": [{"site": "session:%s" % type(ex).__name__, "detail": {"cfg": cfg, "msg": str(ex)[:300]}}], "n": 0}
    D = 2 * M.psd_dm(rng, mol, nocc=5)
    Da = M.psd_dm(rng, mol, nocc=5)
    Db = 0.9 * M.psd_dm(rng, mol, nocc=4)
    nr, er, vr = kr._numint.nr_rks(mol, kr.grids, kr.xc, D)
    nu, eu, vu = ku._numint.nr_uks(mol, ku.grids, ku.xc, np.stack([D / 2, D / 2]))
    n += 1
    sc = 1 + np.abs(vr).max()
    # scale of the energy comparison: E_xc is a quadrature sum of point contributions of the size of the local exchange energy;
    # a random model makes the NET energy small (-0.6 Ha of contributions summing |.| to ~8 Ha), and the round-off of the two paths
    # (1.5e-12 relative per point, coherent in the core) is relative to the contributions, not to the net
    from pyscf.dft import numint as pni
    ao0 = pni.eval_ao(mol, kr.grids.coords)
    rho0 = np.maximum(pni.eval_rho(mol, ao0, D + Da + Db), 0)
    esc = 0.7386 * float(np.dot(kr.grids.weights, rho0 ** (4.0 / 3)))
    # the same for the matrix elements: sums over the grid of |phi_i phi_j| times a local potential of the size of the LDA one
    sc = sc + float((np.abs(ao0).T @ ((kr.grids.weights * rho0 ** (1.0 / 3))[:, None] * np.abs(ao0))).max())
    if abs(eu - er) > TOL * (1 + abs(er) + esc) or np.abs(vu[0] - vr).max() > 1e-9 * sc or np.abs(vu[1] - vr).max() > 1e-9 * sc:
        viol.append({"site": "e2e:rks-vs-uks-halves:" + tag, "detail": {"cfg": cfg, "dE": float(eu - er), "dv_a": float(np.abs(vu[0] - vr).max()),
                                                                         "dv_b": float(np.abs(vu[1] - vr).max())}})
    if abs(nu[0] + nu[1] - nr) > 1e-10 * (1 + abs(nr)):
        viol.append({"site": "e2e:nelec-rks-vs-uks", "detail": {"cfg": cfg}})
    # ---- the public route ks.to_uks() SHARES the integrator object: an unpolarised evaluation followed by a polarised one on
    # the same integrator (and back) must still agree with the fresh objects above
    try:
        ks2 = kr.to_uks()
        shared = ks2._numint is kr._numint
        nu2, eu2, vu2 = ks2._numint.nr_uks(mol, kr.grids, kr.xc, np.stack([D / 2, D / 2]))
        nr2, er2, vr2 = kr._numint.nr_rks(mol, kr.grids, kr.xc, D)
        n += 1
        if abs(eu2 - er) > TOL * (1 + abs(er) + esc) or np.abs(vu2[0] - vr).max() > 1e-9 * sc or abs(er2 - er) > TOL * (1 + abs(er) + esc) or np.abs(vr2 - vr).max() > 1e-9 * sc:
            viol.append({"site": "e2e:rks-then-uks-on-shared-integrator:" + tag, "detail": {"cfg": cfg, "shared": bool(shared), "dE_uks": float(eu2 - er), "dE_rks_again": float(er2 - er)}})
    except NotImplementedError:
        pass
    # ---- exchange of the spin labels
    n1, e1, v1 = ku._numint.nr_uks(mol, ku.grids, ku.xc, np.stack([Da, Db]))
    n2, e2, v2 = ku._numint.nr_uks(mol, ku.grids, ku.xc, np.stack([Db, Da]))
    n += 1
    sc = 1 + np.abs(v1).max()
    if abs(e1 - e2) > TOL * (1 + abs(e1) + esc) or np.abs(v1[0] - v2[1]).max() > 1e-9 * sc or np.abs(v1[1] - v2[0]).max() > 1e-9 * sc:
        viol.append({"site": "e2e:spin-swap:" + tag, "detail": {"cfg": cfg, "dE": float(e1 - e2), "dv": float(np.abs(v1[0] - v2[1]).max())}})
    # ---- separable (exchange-like) models: E[na, nb] = (E[2 na] + E[2 nb]) / 2
    if cfg["mode"] == "SEP" and cfg["mix"] in ("pure", "xmix"):
        ea = kr._numint.nr_rks(mol, kr.grids, kr.xc, 2 * Da)[1]
        eb = kr._numint.nr_rks(mol, kr.grids, kr.xc, 2 * Db)[1]
        n += 1
        if abs(e1 - 0.5 * (ea + eb)) > TOL * (1 + abs(e1) + esc):
            viol.append({"site": "e2e:separability:" + tag, "detail": {"cfg": cfg, "E_uks": float(e1), "half_sum": float(0.5 * (ea + eb))}})
    return {"viol": viol, "n": n}


def worker(job):
    out = layer_checks(job) if job.get("layers") else e2e_check(job)
    out["id"] = job["id"]
    return out


def main():
    ck = Check("C07", "exploration")
    rng = np.random.default_rng(ck.seed)
    quick = ck.tier == "quick"
    ck.rule = ("case = session configuration from CiderPress.tla (spin-relevant dimensions) replayed as restricted vs unrestricted "
               "calculations on the same random density matrices, plus per-layer identities for every semilocal mode, NLDF version x "
               "level x plan, SDMX kind and native baseline; non-trivial = has a nonlocal family")
    rs = run_tlc("SpinFactors", "MC_SpinFactors.cfg", workers=2, timeout=300)
    if rs.error:
        raise MachineryError("TLC: " + rs.error)
    ck.add_tlc("SpinFactors", rs)
    for v in rs.violated:
        ck.violation("model:SpinFactors:" + v, {})
    r, sessions = e2e.session_configs()
    ck.add_tlc("CiderPress", r)
    ck.exhaustive = True
    cfgs = [s[0] for s in sessions if s[0]["plan"] == "gaussian" or s[0]["nldf"] != "none"]
    keys = ("sl", "nldf", "sdmx", "plan", "eval", "mode", "mix")
    chosen, ncov, nall = e2e.pairwise_cover(cfgs, rng, 90 if quick else 900, keys)
    ck.extra["pairwise_pairs_covered"] = "%d of %d" % (ncov, nall)
    jobs = [{"id": 0, "layers": True, "seed": ck.seed}]
    for k, c in enumerate(chosen):
        c = dict(c, base=(("lda", "gga", "ssos")[k % 3] if c["mix"] == "libxc2" else ("lda", "gga", "damp" if (c["sl"] == "npa" and c["nldf"] != "none") else "gga", "chachiyo")[k % 4]))
        jobs.append({"id": k + 1, "cfg": c, "seed": ck.seed * 1000 + k, "basis": "cc-pvdz" if k % 4 == 1 else "sto-3g"})
    ck.log("model: %s; replaying %d configurations + layer identities" % (r, len(chosen)))
    for res in run_workers(os.path.abspath(__file__), jobs, nproc=16, timeout=7000):
        if "crash" in res:
            handle_crash(ck, res)
            continue
        job = jobs[res["id"]]
        ck.evaluations += res["n"]
        if "cfg" in job:
            c = job["cfg"]
            ck.count(key=res["id"] if (c["nldf"] != "none" or c["sdmx"] != "none") else None, n=0)
            if len(ck.samples) < 3:
                ck.sample({"cfg": c})
        else:
            ck.count(key="layers", n=0)
        for v in res["viol"]:
            ck.violation(v["site"], v["detail"], replay={"job": job})
    ck.traces = len(chosen)
    ck.assumptions = ["tolerance 2e-10 relative on energies, 1e-9 on matrices/features (identical arithmetic up to powers of two and summation order)"]
    return ck.finish()


if __name__ == "__main__":
    if len(sys.argv) > 1 and sys.argv[1] == "--worker":
        worker_main(worker)
        sys.exit(0)
    if len(sys.argv) > 2 and sys.argv[1] == "--replay":
        import json
        rp = json.load(open(sys.argv[2]))
        for occ in rp["occurrences"][:2]:
            print(worker(occ["replay"]["job"]))
        sys.exit(0)
    main_wrapper(main)
