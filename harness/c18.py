"""C18 -- bookkeeping is consistent, bad input is rejected, C calls stay within buffers.
  M: spec/FeatureAlgebra.tla over the live tables (every configuration in bounds, valid and invalid)
  R: every TLC state is one constructor call on the real classes (same accept/reject, counts,
     offsets, USP list, normaliser list, UEG vector length); plan-argument lattice; generators
     produce NFeat features; ctypes entry points called on canary-framed arrays"""
import cvload  # noqa: F401
import os
import sys

import numpy as np

import featalg
from common import Check, MachineryError, main_wrapper, run_tlc, tlc_printed_values
from ciderpress.dft import settings as S


def check_state(ck, cfg, attr):
    if not featalg.vk_cfg_is_modelled(cfg):
        return
    fam = "nldf-" + cfg["nldf"]["ver"] if cfg["nldf"] != [] else ("sdmx-" + cfg["sdmx"]["kind"] if cfg["sdmx"]["kind"] != "none" else ("fl" if cfg["fl"]["present"] else "sl"))
    status, st = featalg.realize(cfg)
    key = None
    if status == "rejected":
        if attr["valid"]:
            ck.violation("settings:%s:valid-config-rejected" % fam, {"cfg": cfg, "exc": st}, replay={"cfg": cfg})
        ck.count(key=("rej", repr(cfg)))
        return
    if not attr["valid"]:
        why = "sdmx-count" if (cfg["sdmx"]["kind"] != "none") else ("fl" if cfg["fl"]["present"] else "other")
        ck.violation("settings:%s:invalid-config-accepted:%s" % (fam, why), {"cfg": cfg}, replay={"cfg": cfg})
        ck.count(key=("acc", repr(cfg)))
        return
    pr = featalg.project(st)
    ck.count(key=("ok", repr(cfg)))
    for k in ("nfeat", "loc"):
        if pr[k] != attr[k]:
            ck.violation("settings:%s:%s-differs" % (fam, k), {"cfg": cfg, "impl": pr[k], "spec": attr[k]}, replay={"cfg": cfg})
            return
    if len(pr["usps"]) != attr["nfeat"] or any(abs(a - b) > 1e-12 for a, b in zip(pr["usps"], attr["usps"])):
        ck.violation("settings:%s:usps-differ" % fam, {"cfg": cfg, "impl": pr["usps"], "spec": attr["usps"]}, replay={"cfg": cfg})
    # UEG vector length
    try:
        n_ueg = len(st.ueg_vector(0.7))
        if n_ueg != attr["nfeat"]:
            ck.violation("settings:%s:ueg-length" % fam, {"cfg": cfg, "len": n_ueg, "nfeat": attr["nfeat"]}, replay={"cfg": cfg})
    except NotImplementedError:
        pass
    except Exception as ex:
        lvl = cfg["nldf"]["level"] + "+" + cfg["nldf"]["rho_mult"] if cfg["nldf"] != [] else "-"
        ck.violation("settings:%s:ueg_vector-raises-%s:%s" % (fam, type(ex).__name__, lvl), {"cfg": cfg, "msg": str(ex)[:200]}, replay={"cfg": cfg})
        return
    # recommended normalisers
    try:
        st.assign_reasonable_normalizer()
        raised = False
    except NotImplementedError:
        raised = True
    except Exception as ex:
        ck.violation("settings:%s:assign_normalizer-raises-%s" % (fam, type(ex).__name__), {"cfg": cfg, "msg": str(ex)[:200]}, replay={"cfg": cfg})
        return
    if raised != attr["norm_raises"]:
        ck.violation("settings:%s:normalizer-raise-mismatch" % fam, {"cfg": cfg, "impl_raised": raised, "spec": attr["norm_raises"]}, replay={"cfg": cfg})
        return
    if raised:
        return
    norms = st.normalizers
    if norms.nfeat != attr["nfeat"]:
        ck.violation("settings:%s:normalizer-list-length" % fam, {"cfg": cfg, "len": norms.nfeat}, replay={"cfg": cfg})
        return
    kinds = [featalg.norm_kind(norms[i]) for i in range(norms.nfeat)]
    lo, hi = attr["loc"][1], attr["loc"][2]
    lastzero = cfg["nldf"] != [] and cfg["nldf"].get("lastzero")
    if lastzero:
        # with a vanishing tau / gradient coefficient the inhomogeneity factor is identically 1, so WHICH normaliser class is
        # recommended is an implementation choice; what must hold is that every normaliser cancels the declared power
        usps = list(st.get_feat_usps())
        tot = [float(usps[i] + (norms[i].get_usp() if norms[i] is not None else 0.0)) for i in range(norms.nfeat)]
        if any(abs(t) > 1e-12 for t in tot[lo:hi]):
            ck.violation("settings:%s:normaliser-does-not-cancel-declared-power:zero-last-theta" % fam, {"cfg": cfg, "residual_powers": tot[lo:hi]}, replay={"cfg": cfg})
    elif kinds[lo:hi] != attr["nldf_norms"]:
        ck.violation("settings:%s:nldf-normalizer-kinds" % fam, {"cfg": cfg, "impl": kinds[lo:hi], "spec": attr["nldf_norms"]}, replay={"cfg": cfg})
    lo, hi = attr["loc"][3], attr["loc"][4]
    if kinds[lo:hi] != attr["sdmx_norms"]:
        ck.violation("settings:%s:sdmx-normalizer-kinds" % fam, {"cfg": cfg, "impl": kinds[lo:hi], "spec": attr["sdmx_norms"]}, replay={"cfg": cfg})
    # normaliser powers cancel the feature powers on every nonlocal feature (real objects)
    tot = st.get_feat_usps(with_normalizers=True)
    for i in list(range(attr["loc"][1], attr["loc"][2])) + list(range(attr["loc"][3], attr["loc"][4])):
        if abs(tot[i]) > 1e-12:
            ck.violation("settings:%s:normalised-power-nonzero" % fam, {"cfg": cfg, "i": i, "power": float(tot[i])}, replay={"cfg": cfg})
            break
    # settings queries are pure: asking again, in another order, on the object that has already been queried above gives
    # exactly what a fresh object gives (memoised tables that are edited in place, stale caches)
    qs = (("usps", lambda o: [float(x) for x in o.get_feat_usps()]), ("ueg@0.3", lambda o: [float(x) for x in o.ueg_vector(0.3)]),
          ("nfeat", lambda o: int(o.nfeat)), ("ueg@2", lambda o: [float(x) for x in o.ueg_vector(2.0)]),
          ("norms", lambda o: [featalg.norm_kind(n) for n in (o.nldf_settings.get_reasonable_normalizer() if o.nldf_settings is not None and not o.nldf_settings.is_empty else [])]
           + [featalg.norm_kind(n) for n in (o.sdmx_settings.get_reasonable_normalizer() if o.sdmx_settings is not None and not o.sdmx_settings.is_empty else [])]))

    def snap(o, order):
        out = {}
        for k in order:
            try:
                out[qs[k][0]] = qs[k][1](o)
            except Exception as ex:
                out[qs[k][0]] = "raise:" + type(ex).__name__
        return out
    fresh = featalg.realize(cfg)[1]
    a = snap(fresh, range(len(qs)))
    b = snap(st, reversed(range(len(qs))))
    c = snap(st, range(len(qs)))
    for other, nm in ((b, "used-object-reversed-order"), (c, "used-object-third-pass")):
        bad = [k for k in a if a[k] != other[k]]
        if bad:
            ck.violation("settings:%s:query-not-pure:%s" % (fam, bad[0]), {"cfg": cfg, "which": nm, "fresh": a[bad[0]], "used": other[bad[0]]}, replay={"cfg": cfg})
            break


PLANVAL = {"alpha0": {"neg": -0.1, "zero": 0.0, "pos": 0.01}, "lambd": {"lt1": 0.9, "eq1": 1.0, "gt1": 1.8},
           "nalpha": {"negint": -3, "zero": 0, "posint": 12, "float": 12.0},
           "rhocut": {"neg": -1e-10, "zero": 0.0, "pos": 1e-10}, "expcut": {"neg": -1e-10, "zero": 0.0, "pos": 1e-10}}


def check_plan_args(ck, out):
    from ciderpress.dft.plans import NLDFGaussianPlan, NLDFSplinePlan
    vals = tlc_printed_values(out, "PLANARG")
    if len(vals) < 1000:
        raise MachineryError("plan-argument lattice not emitted (%d)" % len(vals))
    nl = S.NLDFSettingsVJ("MGGA", [1.0, 0.0, 0.03125], "one", ["se"], [[2.0, 0.0, 0.04]])
    for pa, valid in vals:
        for cls in (NLDFGaussianPlan, NLDFSplinePlan):
            kw = dict(coef_order=pa["coef_order"], alpha_formula=pa["alpha_formula"], rhocut=PLANVAL["rhocut"][pa["rhocut"]],
                      expcut=PLANVAL["expcut"][pa["expcut"]])
            if cls is NLDFSplinePlan:
                kw["spline_size"] = 40
            try:
                cls(nl, pa["nspin"], PLANVAL["alpha0"][pa["alpha0"]], PLANVAL["lambd"][pa["lambd"]], PLANVAL["nalpha"][pa["nalpha"]], **kw)
                ok = True
            except ValueError:
                ok = False
            except Exception as ex:
                ok = "crash:" + type(ex).__name__
            ck.count(key=("plan", cls.__name__, repr(pa)))
            if ok is not valid:
                bad = [k for k in ("alpha0", "lambd", "nalpha", "nspin", "rhocut", "expcut", "coef_order", "alpha_formula")
                       if not {"alpha0": pa[k] == "pos", "lambd": pa[k] == "gt1", "nalpha": pa[k] == "posint", "nspin": pa[k] in (1, 2),
                               "rhocut": pa[k] != "neg", "expcut": pa[k] != "neg", "coef_order": pa[k] in ("gq", "qg"),
                               "alpha_formula": pa[k] in ("etb", "zexp")}[k]]
                ck.violation("plan:%s:args:%s:%s" % (cls.__name__, "accepted-invalid" if ok is True else ("rejected-valid" if ok is False else ok), "+".join(bad) or "-"),
                             {"args": pa, "spec_valid": valid, "impl": ok})


def check_generated_counts(ck, rng):
    """The number of features the generators actually produce equals NFeat; large-exponent guard."""
    import models as M
    from pyscf.dft import numint as pni
    from ciderpress.pyscf.nldf_convolutions import PySCFNLDFInitializer
    from ciderpress.pyscf.sdmx import PySCFSDMXInitializer
    from ciderpress.pyscf.gen_cider_grid import CiderGrids
    mol = M.make_mol("H2")
    grids = CiderGrids(mol)
    grids.atom_grid = (12, 26)
    grids.build()
    ao = pni.eval_ao(mol, grids.coords, deriv=1)
    # a physical (node-free) density: a random orbital of H2 may be the antibonding one, whose nodal plane makes tau / rho
    # diverge -- the large-exponent guard then rightly refuses the point
    P = M.core_dm(mol) * 2
    r = pni.eval_rho(mol, ao, P, xctype="MGGA", with_lapl=False)
    rho5 = np.zeros((5, r.shape[1]))
    rho5[:4] = r[:4]
    rho5[4] = r[-1]
    for ver in ("j", "i", "ij", "k"):
        for level in ("MGGA", "GGA"):
            for rich in (False, True):
                if rich and ver in ("ij", "k"):
                    continue
                nl = M.nldf_settings(ver, level, "one", rich)
                gen = PySCFNLDFInitializer(nl).initialize_nldf_generator(mol, grids.grids_indexer, 1)
                gen.interpolator.set_coords(grids.coords)
                rho = rho5 if level == "MGGA" else rho5[:4].copy()
                f = gen.get_features(rho.copy())
                ck.count(key=("gen", ver, level, rich))
                if f.shape[0] != nl.nfeat or f.shape[1] != grids.weights.size:
                    ck.violation("generator:nldf-%s:feature-count" % ver, {"produced": list(f.shape), "nfeat": nl.nfeat})
                if not np.all(np.isfinite(f)):
                    ck.violation("generator:nldf-%s:non-finite" % ver, {})
    for kind in ("SDMX", "G", "1", "G1", "Full"):
        sd = M.sdmx_settings(kind)
        gen = PySCFSDMXInitializer(sd, lowmem=False).initialize_sdmx_generator(mol, 1)
        f = gen.get_features(P, mol, grids.coords)
        ck.count(key=("sdmxgen", kind))
        if f.shape[-2] != sd.nfeat:
            ck.violation("generator:sdmx-%s:feature-count" % kind, {"produced": list(f.shape), "nfeat": sd.nfeat})
    # large exponent guard: shrink the ladder so that the exponent at the nucleus exceeds alpha_max
    nl = M.nldf_settings("j", "MGGA", "one")
    from ciderpress.dft.plans import NLDFGaussianPlan
    for raise_flag in (True, False):
        plan = NLDFGaussianPlan(nl, 1, 1e-3, 1.8, 6, raise_large_expnt_error=raise_flag)
        rho_t = (np.array([5.0, 1e-12]), np.array([0.1, 0.0]), np.array([3.0, 0.0]))
        try:
            plan.eval_feat_exp(rho_t, i=-1)
            raised = False
        except RuntimeError:
            raised = True
        ck.count(key=("guard", raise_flag))
        if raised != raise_flag:
            ck.violation("plan:large-exponent-guard", {"raise_flag": raise_flag, "raised": raised, "alpha_max": float(plan.alphas.max())})


def plan_guard(ck):
    """spec/PlanGuard.tla: every way a plan object can come to be (direct / derived with new()) x the guard flags; the
    outcome of an evaluation with an exponent above the interpolation range must be in the admissible set."""
    import models as M
    from ciderpress.dft.plans import NLDFGaussianPlan, NLDFSplinePlan
    r = run_tlc("PlanGuard", "MC_PlanGuard.cfg", workers=2, timeout=300)
    if r.error:
        raise MachineryError("TLC PlanGuard: " + r.error)
    ck.add_tlc("PlanGuard", r)
    for v in r.violated:
        ck.violation("model:PlanGuard:" + v, {})
    cases = tlc_printed_values(r.out, "GUARDCASE")
    if len(cases) < 100:
        raise MachineryError("PlanGuard emitted %d cases" % len(cases))
    nl = M.nldf_settings("j", "MGGA", "one")
    CLS = {"gaussian": NLDFGaussianPlan, "spline": NLDFSplinePlan}
    B = {"T": True, "F": False}
    RHOCUT = 1e-8

    def rho_tuple(nspin, where):
        """per-channel (rho, sigma, tau): two ordinary points and one OFFENDING point whose exponent is far above the
        largest interpolation exponent; the offending point's TOTAL density is 1e4 / 1.6 / 0.5 x rhocut"""
        tot = {"dense": 1e4 * RHOCUT, "window": 1.6 * RHOCUT, "below": 0.3 * RHOCUT}[where]
        rho_t = np.array([0.3, 0.05, tot])
        sig_t = 0.1 * rho_t ** (8.0 / 3)
        tau_t = 0.3 * 2.871 * rho_t ** (5.0 / 3) + sig_t / (8 * rho_t)
        tau_t[-1] = 1e4 * rho_t[-1]                     # tau / rho = 1e4: exponent ~ 1e3 >> alpha_max
        return (rho_t / nspin, sig_t / nspin ** 2, tau_t / nspin)

    def construct(cls, nspin, **kw):
        return cls(nl, nspin, 0.003, 1.8, 18, rhocut=RHOCUT, **kw)      # exponents 0.003 .. 65.6

    def evaluate(plan, rt):
        try:
            out = plan.get_interpolation_arguments(tuple(x.copy() for x in rt), i=-1)
        except RuntimeError:
            return "raises", None
        return "value", [np.asarray(o, dtype=float) for o in (out if isinstance(out, (tuple, list)) else [out])]
    same = lambda a, b: a is not None and b is not None and len(a) == len(b) and all(x.shape == y.shape and np.array_equal(x, y, equal_nan=True) for x, y in zip(a, b))
    refs = {}
    for c, adm in cases:
        cls = CLS[c["cls"]]
        nspin, where = int(c["nspin"]), c["where"]
        rt = rho_tuple(nspin, where)
        bkw = {}
        if c["bsmooth"] == "T":
            bkw["use_smooth_expnt_cutoff"] = True
        if c["braise"] != "unset":
            bkw["raise_large_expnt_error"] = B[c["braise"]]
        tag = "%s:nspin=%d:%s:base(smooth=%s,raise=%s):%s" % (c["cls"], nspin, where, c["bsmooth"], c["braise"],
                                                               ("new(smooth=%s,raise=%s)" % (c["ksmooth"], c["kraise"])) if c["derive"] else "direct")
        ck.count(key=tag)
        try:
            plan = construct(cls, nspin, **bkw)
            if c["derive"]:
                kkw = {}
                if c["ksmooth"] != "unset":
                    kkw["use_smooth_expnt_cutoff"] = B[c["ksmooth"]]
                if c["kraise"] != "unset":
                    kkw["raise_large_expnt_error"] = B[c["kraise"]]
                plan = plan.new(**kkw)
            kind, val = evaluate(plan, rt)
        except Exception as ex:  # noqa: BLE001
            ck.violation("plan-guard:%s:%s" % (type(ex).__name__, tag), {"case": c, "msg": str(ex)[:200]})
            continue
        if kind == "value":
            if where == "below":
                kind = "masked"
            else:
                # classify against plans constructed DIRECTLY with the same class: the smooth one and the unguarded one
                key = (c["cls"], nspin, where)
                if key not in refs:
                    refs[key] = (evaluate(construct(cls, nspin, use_smooth_expnt_cutoff=True), rt)[1],
                                 evaluate(construct(cls, nspin, raise_large_expnt_error=False), rt)[1])
                cap, raw = refs[key]
                kinds = {k_ for k_, ref in (("capped", cap), ("unguarded", raw)) if same(val, ref)} or {"unguarded(other)"}
                # (for the spline plan the damped and the clamped exponent index coincide: the outcome is then either)
                kind = sorted(kinds & set(adm))[0] if kinds & set(adm) else sorted(kinds)[-1]
        elif where == "below":
            kind = "raises-at-a-masked-point"
        if kind not in set(adm):
            ck.violation("plan-guard:%s:nspin=%d:%s:%s-not-admissible" % ("derived" if c["derive"] else "direct", nspin, where, kind.split("(")[0]),
                         {"case": c, "outcome": kind, "admissible": sorted(adm), "how": tag}, replay={"case": c})


def canary_tests(ck, rng):
    """ctypes entry points on canary-framed arrays: guard zones must stay intact."""
    import ctypes
    from ciderpress.dft.plans import NLDFGaussianPlan, NLDFSplinePlan
    import models as M
    G = 64
    SENT = 1.2345e300

    def framed(shape):
        n = int(np.prod(shape))
        base = np.full(n + 2 * G, SENT)
        return base, base[G:G + n].reshape(shape)

    def intact(base, n):
        return bool(np.all(base[:G] == SENT) and np.all(base[G + n:] == SENT))
    for ver, level in (("j", "MGGA"), ("i", "MGGA"), ("k", "GGA"), ("ij", "GGA")):
        nl = M.nldf_settings(ver, level, "one")
        for cls in (NLDFGaussianPlan, NLDFSplinePlan):
            for order in ("gq", "qg"):
                for ngrids in (0, 1, 7, 33):
                    kw = {"spline_size": 30} if cls is NLDFSplinePlan else {}
                    plan = cls(nl, 1, 0.01, 1.8, 9, coef_order=order, **kw)
                    a = np.ascontiguousarray(rng.uniform(0.02, 3.0, ngrids))
                    for i in range(-1, nl.num_feat_param_sets):
                        shape = (ngrids, plan.nalpha) if order == "gq" else (plan.nalpha, ngrids)
                        vb, v = framed(shape)
                        db, dv = framed(shape)
                        v[...] = 7.0
                        dv[...] = 7.0
                        try:
                            p, dp = plan.get_interpolation_coefficients(a, i=i, vbuf=v, dbuf=dv)
                        except Exception as ex:
                            ck.violation("canary:%s:%s:exception-%s" % (cls.__name__, ver, type(ex).__name__), {"i": i, "ngrids": ngrids, "msg": str(ex)[:200]})
                            continue
                        n = int(np.prod(shape))
                        ck.count(key=("canary", cls.__name__, ver, order, ngrids, i))
                        if not (intact(vb, n) and intact(db, n)):
                            ck.violation("canary:%s:%s:%s:guard-zone-overwritten" % (cls.__name__, ver, order), {"i": i, "ngrids": ngrids})
                        if n and (not np.all(np.isfinite(p)) or not np.all(np.isfinite(dp))):
                            ck.violation("canary:%s:%s:%s:non-finite" % (cls.__name__, ver, order), {"i": i, "ngrids": ngrids})


def level_consistency(ck, rng):
    """The parameter list of a feature is laid out by exponent level: [a0, grad_mul, extras...] at GGA level, [a0, grad_mul,
    tau_mul, extras...] at MGGA level.  A GGA-level plan and the MGGA-level plan with tau_mul = 0 and the SAME extras describe
    the same kernels, so their interpolation coefficients at given exponents must be identical, for every spec (incl. the one
    with an extra argument), both plan classes and both coefficient orders: an extra argument looked up at the wrong position
    (or not handed to the C routine at all, which then reads past a zero-length array) shows as a difference."""
    from ciderpress.dft.plans import NLDFGaussianPlan, NLDFSplinePlan
    from ciderpress.dft.settings import ALLOWED_J_SPECS, NLDFSettingsVIJ, NLDFSettingsVJ, NLDFSettingsVK
    specs = list(ALLOWED_J_SPECS) + ["se_erf_rinv"]

    def params(level, k, spec):
        p = [1.3 + 0.4 * k, 0.01 * (k + 1)] + ([0.0] if level == "MGGA" else [])
        if spec == "se_erf_rinv":
            p.append(0.7 + 0.9 * k)
        return p
    a = np.ascontiguousarray(rng.uniform(0.02, 3.0, 23))
    for ver in ("j", "ij", "k"):
        plans = {}
        for level in ("GGA", "MGGA"):
            th = [1.0, 0.02] + ([0.0] if level == "MGGA" else [])
            ps = [params(level, k, sp) for k, sp in enumerate(specs)]
            if ver == "j":
                nl = NLDFSettingsVJ(level, th, "one", specs, ps)
            elif ver == "ij":
                nl = NLDFSettingsVIJ(level, th, "one", ["se", "se_r2"], ["se_grad"], [(0, 0), (-1, 0)], specs, ps)
            else:
                nl = NLDFSettingsVK(level, th, "one", [p[:3 if level == "MGGA" else 2] for p in ps[:2]], "exponential")
            plans[level] = nl
        for cls in (NLDFGaussianPlan, NLDFSplinePlan):
            for order in ("gq", "qg"):
                kw = {"spline_size": 40} if cls is NLDFSplinePlan else {}
                try:
                    pg = cls(plans["GGA"], 1, 0.01, 1.8, 11, coef_order=order, **kw)
                    pm = cls(plans["MGGA"], 1, 0.01, 1.8, 11, coef_order=order, **kw)
                except Exception as ex:
                    ck.violation("level-consistency:%s:%s:construct-%s" % (cls.__name__, ver, type(ex).__name__), {"msg": str(ex)[:200]})
                    continue
                for i in range(-1, plans["GGA"].num_feat_param_sets):
                    ck.count(key=("levels", ver, cls.__name__, order, i))
                    cg, dg = pg.get_interpolation_coefficients(a, i=i)
                    cm, dm_ = pm.get_interpolation_coefficients(a, i=i)
                    err = max(float(np.abs(cg - cm).max()), float(np.abs(dg - dm_).max())) / (1.0 + float(np.abs(cm).max()))
                    if not err <= 1e-13:
                        spec = "theta" if i < 0 else (specs[i] if ver != "k" else "k")
                        ck.violation("level-consistency:%s:%s:%s:GGA-level-coefficients-differ-from-MGGA-with-tau_mul=0" % (cls.__name__, ver, spec),
                                     {"order": order, "i": i, "rel_err": err})


def subprocess_guards(ck):
    """Inputs that could corrupt memory are tried in a child process: they must be refused with a
    Python exception (or succeed), never kill the interpreter."""
    import subprocess
    code = ("import cvload\nfrom pyscf import gto\nfrom ciderpress.pyscf.gen_cider_grid import CiderGrids\n"
            "mol = gto.M(atom='He 0 0 0', basis='sto-3g', verbose=0)\n"
            "try:\n    g = CiderGrids(mol, lmax=%d); g.atom_grid=(4,14); g.build(); print('BUILT')\n"
            "except (ValueError, AssertionError) as e:\n    print('REJECTED')\n")
    for lmax in (0, -1, 1):
        p = subprocess.run([sys.executable, "-c", code % lmax], capture_output=True, text=True, timeout=300,
                           env=dict(os.environ, MALLOC_CHECK_="3", MALLOC_PERTURB_="165"))
        ck.count(key=("lmax-guard", lmax))
        if p.returncode != 0 or ("BUILT" not in p.stdout and "REJECTED" not in p.stdout):
            ck.violation("grids:lmax=%d:process-died" % lmax, {"returncode": p.returncode, "stderr": p.stderr[-300:]})
        if lmax >= 1 and "BUILT" not in p.stdout:
            ck.violation("grids:lmax=%d:valid-rejected" % lmax, {"stdout": p.stdout[-200:]})
    # angular cut-offs of grid and generator: (grid lmax, requested generator lmax).  A request above the grid's must be refused;
    # an accepted generator must keep every shell of its auxiliary bases within the harmonics the grid tabulates (the C
    # contraction routines index (nrad, nlm, nalpha) buffers with the basis' l) and produce finite features of the right count
    gcode = ("import cvload, numpy as np\nfrom pyscf import gto\nfrom pyscf.dft import numint as pni\nimport models as M\n"
             "from ciderpress.pyscf.gen_cider_grid import CiderGrids\nfrom ciderpress.pyscf.nldf_convolutions import PySCFNLDFInitializer\n"
             "mol = M.make_mol('H2O')\ng = CiderGrids(mol, lmax=%d); g.atom_grid=(10,26); g.build()\n"
             "nl = M.nldf_settings('%s', 'MGGA', 'one')\nkw = {} if %d < 0 else {'lmax': %d}\n"
             "try:\n    gen = PySCFNLDFInitializer(nl, **kw).initialize_nldf_generator(mol, g.grids_indexer, 1)\n"
             "except ValueError:\n    print('REJECTED'); raise SystemExit(0)\n"
             "gen.interpolator.set_coords(g.coords)\n"
             "lb = max(int(gen.ccl.atco_inp.bas[:, 1].max()), int(gen.ccl.atco_out.bas[:, 1].max()))\n"
             "ao = pni.eval_ao(mol, g.coords, deriv=1); r = pni.eval_rho(mol, ao, 2 * M.core_dm(mol), xctype='MGGA', with_lapl=False)\n"
             "rho = np.zeros((5, r.shape[1])); rho[:4] = r[:4]; rho[4] = r[-1]\n"
             "f = gen.get_features(rho)\nprint('BASISL', lb, 'NF', f.shape[0], 'FIN', int(np.isfinite(f).all()), 'EXPECT', nl.nfeat)\n")
    for glmax, req, ver in ((6, -1, "j"), (6, 4, "i"), (10, 8, "j"), (10, -1, "k"), (4, 6, "j"), (3, -1, "ij"), (8, 8, "i")):
        p = subprocess.run([sys.executable, "-c", gcode % (glmax, ver, req, req)], capture_output=True, text=True, timeout=600,
                           env=dict(os.environ, MALLOC_CHECK_="3", MALLOC_PERTURB_="165", OMP_NUM_THREADS="1"))
        ck.count(key=("lmax-lattice", glmax, req, ver))
        tag = "grid-lmax=%d:generator-lmax=%s:%s" % (glmax, "default" if req < 0 else req, ver)
        if p.returncode != 0:
            ck.violation("generator-lmax:%s:process-died" % tag, {"returncode": p.returncode, "stderr": p.stderr[-300:]})
            continue
        out = p.stdout.strip().splitlines()[-1] if p.stdout.strip() else ""
        if req > glmax:
            if "REJECTED" not in out:
                ck.violation("generator-lmax:%s:request-above-grid-accepted" % tag, {"stdout": out})
            continue
        if "REJECTED" in out or not out.startswith("BASISL"):
            ck.violation("generator-lmax:%s:valid-request-refused" % tag, {"stdout": out, "stderr": p.stderr[-200:]})
            continue
        tok = out.split()
        lb, nf, fin, exp = int(tok[1]), int(tok[3]), int(tok[5]), int(tok[7])
        want = glmax if req < 0 else req
        if lb > want or nf != exp or not fin:
            ck.violation("generator-lmax:%s:auxiliary-basis-exceeds-the-angular-cut-off" % tag,
                         {"basis_lmax": lb, "cut_off": want, "nfeat": nf, "expected_nfeat": exp, "finite": bool(fin)})


def main():
    ck = Check("C18", "model_checking")
    rng = np.random.default_rng(ck.seed)
    ck.rule = ("state = one configuration of FeatureSettings (semilocal mode x NLDF version/level/rho_mult/spec lists/dot pairs/"
               "parameter-list lengths incl. invalid values x SDMX variant x fractional Laplacian), enumerated by TLC; each state "
               "is replayed as one constructor call and compared field by field; plus the plan-argument lattice (8 argument "
               "classes, 2 plan classes), generator feature counts, canary-framed ctypes calls. distinct = configuration")
    r, states = featalg.run_model(ck.tier, ck.seed)
    ck.add_tlc("FeatureAlgebra(live tables)", r)
    ck.exhaustive = True
    ck.log("model: %s, %d configurations" % (r, len(states)))
    for v in r.violated:
        if v != "<assumption>":   # declared-vs-derived powers belong to C03
            ck.violation("model:FeatureAlgebra:" + v, {"tlc": r.out[-1500:] if len(r.out) < 10 ** 7 else ""})
    for cfg, attr in states:
        check_state(ck, cfg, attr)
    ck.traces = len(states)
    ck.sample({"cfg": states[len(states) // 3][0], "attr": states[len(states) // 3][1]})
    ck.log("replayed %d states" % len(states))
    # plan-argument lattice: a second tiny TLC run emitting the lattice
    import os, shutil
    from common import stage_spec, run_tlc, write_live_module, RawTLA, to_tla
    d = stage_spec([])
    try:
        write_live_module("Live_FeatureAlgebra", {
            "LiveSpecUspsDef": RawTLA("(" + " @@ ".join("%s :> %d" % (to_tla(k), v) for k, v in S.SPEC_USPS.items()) + ")"),
            "LiveRhoMultUspsDef": RawTLA("(" + " @@ ".join("%s :> %d" % (to_tla(k), v) for k, v in S.RHO_MULT_USPS.items()) + ")")}, d)
        with open(os.path.join(d, "pa.cfg"), "w") as f:
            f.write("SPECIFICATION Spec\nCONSTANTS\n LiveSpecUsps <- LiveSpecUspsDef\n LiveRhoMultUsps <- LiveRhoMultUspsDef\n"
                    " Families <- NoFamilies\nINVARIANT EmitPlanArgs\n")
        with open(os.path.join(d, "MC_FeatureAlgebra.tla"), "a") as f:
            pass
        txt = open(os.path.join(d, "MC_FeatureAlgebra.tla")).read().replace("====", "NoFamilies == <<>>\n====")
        open(os.path.join(d, "MC_FeatureAlgebra.tla"), "w").write(txt)
        r2 = run_tlc("MC_FeatureAlgebra", os.path.join(d, "pa.cfg"), workers=2, specdir=d, timeout=600)
    finally:
        shutil.rmtree(d, ignore_errors=True)
    if r2.error:
        raise MachineryError("TLC(plan args): " + r2.error)
    check_plan_args(ck, r2.out)
    check_generated_counts(ck, rng)
    plan_guard(ck)
    canary_tests(ck, rng)
    level_consistency(ck, rng)
    subprocess_guards(ck)
    ck.assumptions = ["canary frames detect out-of-bounds WRITES only (stray reads show up only as wrong results elsewhere)",
                      "VK settings take no spec list in this tree: only all-'se' states bind for version k",
                      "SDMXFullSettings is exercised through the generator count only"]
    return ck.finish()


if __name__ == "__main__":
    if len(sys.argv) > 2 and sys.argv[1] == "--replay":
        import json
        rp = json.load(open(sys.argv[2]))
        for occ in rp["occurrences"][:3]:
            if occ.get("replay"):
                print(featalg.realize(occ["replay"]["cfg"]))
        sys.exit(0)
    main_wrapper(main)
