"""C15 -- covariance kernels are valid and their gradients match their values.
  M: spec/KernelAlgebra.tla on live leaf tables: composition trees (sum, product, integer power,
     free-constant scaling, input transformation) over every leaf kernel the repository tests
     define, theta layout = concatenation in argument order
  R: each tree TLC visits is built from the real classes: len(theta) and gradient slices match the
     model's layout; K(X,X) symmetric PSD; k(X,Y)=k(Y,X)^T; diag; composition algebra vs children;
     spin-block exchange symmetry; finite differences of theta- and input-gradients; X with
     coincident and far-apart points; DFTKernel POL combination"""
import cvload  # noqa: F401
import importlib
import os
import shutil
import sys

import numpy as np

from common import (handle_crash, Check, MachineryError, RawTLA, main_wrapper, run_tlc, run_workers, stage_spec, tlc_printed_values, to_tla,
                    worker_main, write_live_module)
from ciderpress.models import kernels as K

NFEAT = 4


def harvest_leaves():
    """(name -> (class, args, kwargs)) from the repository's own kernel test cases + a few more."""
    tk = importlib.import_module("ciderpress.models.tests.test_kernels")
    leaves = {}
    for name in sorted(dir(tk)):
        obj = getattr(tk, name)
        if isinstance(obj, type) and issubclass(obj, tk.ParentTest) and getattr(obj, "Kernel", None) is not None:
            if obj.Nfeat != NFEAT:
                continue
            leaves[name.replace("Test", "T")] = (obj.Kernel, list(obj.args), dict(obj.kwargs))
    leaves["RBFaniso"] = (K.DiffRBF, [], {"length_scale": np.array([0.5, 0.8, 1.1, 0.7])})
    leaves["RBFfixed"] = (K.DiffRBF, [], {"length_scale": np.array([0.5, 0.8, 1.1, 0.7]), "length_scale_bounds": "fixed"})
    leaves["Const"] = (K.DiffConstantKernel, [1.7], {})
    leaves["White"] = (K.DiffWhiteKernel, [0.3], {})
    leaves["Antisym"] = (K.DiffAntisymRBF, [], {"length_scale": np.array([0.6, 0.9, 1.2])})
    leaves["PartialRBF"] = (K.PartialRBF, [], {"length_scale": np.array([0.7, 0.9]), "start": 2})
    # additive kernels at EVERY order the feature count allows (the repository's tests stop at 2-3): the gradient of the
    # order-n term comes from a Newton-identity recursion that only shows its normalisation from order 4 on
    ls4 = np.array([0.5, 0.8, 1.1, 0.7])
    for order in (1, 4):
        sc = list(np.linspace(0.3, 1.0, order + 1))
        leaves["ARBFo%d" % order] = (K.DiffARBF, [], {"order": order, "length_scale": ls4.copy(), "scale": list(sc)})
        leaves["ARBFV2o%d" % order] = (K.DiffARBFV2, [], {"order": order, "length_scale": ls4.copy(), "scale": list(sc)})
        leaves["AddRQo%d" % order] = (K.DiffAddRQ, [], {"order": order, "alpha": 1.7, "length_scale": ls4.copy(), "scale": list(sc)})
        leaves["AddLLRBFo%d" % order] = (K.DiffAddLLRBF, [], {"order": order, "alpha": 1.7, "length_scale": ls4.copy(), "scale": list(sc)})
    # fixed hyper-parameters are excluded from theta and from the gradient: each block of the additive kernels fixed in turn
    # (F36: with the length scale fixed the scale derivatives were written one block too far)
    sc3 = [0.3, 0.6, 1.0]
    for nm, cls, extra in (("ARBF", K.DiffARBF, {}), ("ARBFV2", K.DiffARBFV2, {}), ("AddRQ", K.DiffAddRQ, {"alpha": 1.7}),
                           ("AddLLRBF", K.DiffAddLLRBF, {"alpha": 1.7})):
        leaves[nm + "fixL"] = (cls, [], dict(extra, order=2, length_scale=ls4.copy(), scale=list(sc3), length_scale_bounds="fixed"))
        leaves[nm + "fixS"] = (cls, [], dict(extra, order=2, length_scale=ls4.copy(), scale=list(sc3), scale_bounds="fixed"))
    leaves["ARBFV2isofixL"] = (K.DiffARBFV2, [], {"order": 3, "length_scale": 0.8, "scale": [0.3, 0.5, 0.8, 1.0], "length_scale_bounds": "fixed"})
    leaves["AddRQisofixL"] = (K.DiffAddRQ, [], {"order": 3, "alpha": 1.7, "length_scale": 0.8, "scale": [0.3, 0.5, 0.8, 1.0], "length_scale_bounds": "fixed"})
    leaves["SubsetARBFo4"] = (K.SubsetARBF, [[3, 0, 2, 1]], {"order": 4, "length_scale": ls4.copy(), "scale": list(np.linspace(0.3, 1.0, 5))})
    return leaves


LEAVES = None


def leaf_kernel(name):
    global LEAVES
    if LEAVES is None:
        LEAVES = harvest_leaves()
    import copy
    cls, a, kw = LEAVES[name]
    return cls(*copy.deepcopy(a), **copy.deepcopy(kw))   # no shared sub-kernel objects between leaves


def build(t):
    op = t["op"]
    if op == "leaf":
        return leaf_kernel(t["id"])
    if op == "sum":
        return build(t["a"]) + build(t["b"])
    if op == "prod":
        return build(t["a"]) * build(t["b"])
    if op == "pow":
        return K.DiffExponentiation(build(t["a"]), t["n"])
    if op == "scale":
        return K.DiffConstantKernel(1.3) * build(t["a"])
    if op == "transform":
        rng = np.random.default_rng(3)
        M = np.eye(NFEAT) + 0.2 * rng.normal(size=(NFEAT, NFEAT))
        # the optional standardisation arguments in all four combinations (a driver-side dimension, fixed per subtree so that
        # the object under test and its fresh reference are built alike)
        import zlib
        v = zlib.crc32(repr(t["a"]).encode()) % 4
        return K.DiffTransform(build(t["a"]), M, std=np.array([1.0, 2.0, 0.5, 1.5]) if v in (0, 1) else None,
                               avg=np.array([0.1, 0.0, 0.2, 0.3]) if v in (0, 2) else None)
    raise ValueError(op)


def leaves_of(t):
    if t["op"] == "leaf":
        return [t["id"]]
    out = leaves_of(t["a"])
    if "b" in t:
        out += leaves_of(t["b"])
    return out


def has_grad(k, X):
    try:
        k(X, eval_gradient=True)
        return True
    except (NotImplementedError, ValueError):
        return False


def check_tree(ck, t, layout, ntheta, rng, vs_hists=()):
    ids = leaves_of(t)
    tag = t["op"] + ":" + "+".join(ids)
    try:
        k = build(t)
    except Exception as ex:
        ck.violation("build:%s:%s" % (t["op"], type(ex).__name__), {"tree": t, "msg": str(ex)[:200]}, replay={"tree": t})
        return
    ck.count(key=repr(t))
    X = rng.uniform(0.0, 1.0, size=(14, NFEAT))
    X[3] = X[2]                       # coincident points
    X[5] = X[4] + 1e-9
    X[11] = X[10] + 3.0               # far apart (several length scales)
    X[12] = X[10] + 90.0              # so far that squared-exponential factors underflow to exactly 0.0
    X[13] = 0.0                       # the origin (a linear kernel is exactly 0 there)
    Y = rng.uniform(0.0, 1.0, size=(9, NFEAT))
    white = any(i == "White" for i in ids)
    # ---- theta layout
    if len(k.theta) != ntheta:
        ck.violation("theta-length:%s" % tag, {"tree": t, "impl": len(k.theta), "spec": ntheta}, replay={"tree": t})
        return
    try:
        KXX = k(X)
        KXY = k(X, Y)
        KYX = k(Y, X)
    except Exception as ex:
        ck.violation("call:%s:%s" % (tag, type(ex).__name__), {"tree": t, "msg": str(ex)[:200]}, replay={"tree": t})
        return
    sc = 1 + np.abs(KXX).max()
    if not np.all(np.isfinite(KXX)):
        ck.violation("non-finite:%s" % tag, {"tree": t}, replay={"tree": t})
        return
    if np.abs(KXX - KXX.T).max() > 1e-12 * sc:
        ck.violation("not-symmetric:%s" % tag, {"tree": t}, replay={"tree": t})
    w = np.linalg.eigvalsh(0.5 * (KXX + KXX.T))
    if w.min() < -1e-9 * max(1.0, np.abs(w).max()):
        ck.violation("not-psd:%s" % tag, {"tree": t, "min_eig": float(w.min()), "max_eig": float(w.max())}, replay={"tree": t})
    if not white and np.abs(KXY - KYX.T).max() > 1e-12 * (1 + np.abs(KXY).max()):
        ck.violation("kxy-not-kyx-transpose:%s" % tag, {"tree": t}, replay={"tree": t})
    try:
        dg = k.diag(X)
        if np.abs(dg - np.diag(KXX)).max() > 1e-11 * sc:
            ck.violation("diag-mismatch:%s" % tag, {"tree": t}, replay={"tree": t})
    except NotImplementedError:
        pass
    # ---- composition algebra against the children evaluated on their own
    if t["op"] in ("sum", "prod", "pow", "scale"):
        ka = build(t["a"])(X, Y)
        if t["op"] in ("sum", "prod"):
            kb = build(t["b"])(X, Y)
            ref = ka + kb if t["op"] == "sum" else ka * kb
        elif t["op"] == "pow":
            ref = ka ** t["n"]
        else:
            ref = 1.3 * ka
        if np.abs(ref - KXY).max() > 1e-12 * (1 + np.abs(ref).max()):
            ck.violation("algebra:%s" % tag, {"tree": t}, replay={"tree": t})
    # ---- hyper-parameter gradient: shape and finite differences
    if has_grad(k, X):
        K0, dK = k(X, eval_gradient=True)
        if not np.all(np.isfinite(dK)):
            ck.violation("theta-gradient-non-finite:%s" % tag, {"tree": t, "n_bad": int((~np.isfinite(dK)).sum())}, replay={"tree": t})
        elif dK.shape != (X.shape[0], X.shape[0], ntheta):
            ck.violation("theta-gradient-shape:%s" % tag, {"tree": t, "shape": list(dK.shape), "ntheta": ntheta}, replay={"tree": t})
        else:
            th = k.theta.copy()
            h = 1e-4

            def Kth(tt):
                k.theta = tt
                out = k(X)
                k.theta = th
                return out
            for i in range(ntheta):
                e = np.zeros_like(th)
                e[i] = 1.0
                f1 = (Kth(th + h * e) - Kth(th - h * e)) / (2 * h)
                f2 = (Kth(th + 2 * h * e) - Kth(th - 2 * h * e)) / (4 * h)
                g = (4 * f1 - f2) / 3
                excess = np.abs(g - dK[:, :, i]) - 20 * np.abs(f1 - f2) - 1e-7 * (1 + np.abs(g).max()) - 1e-14 * np.abs(KXX).max() / h
                if excess.max() > 0:
                    which = None
                    pos = 0
                    for nm, cnt in layout:
                        if pos <= i < pos + cnt:
                            which = nm
                        pos += cnt
                    ck.violation("theta-gradient-vs-fd:%s:slot-of-%s" % (tag, which), {"tree": t, "i": i, "excess": float(excess.max())},
                                 replay={"tree": t})
                    break
    # ---- input gradient
    try:
        kk, dk = k.k_and_deriv(X, Y)
    except NotImplementedError:
        kk = None
    except Exception as ex:
        ck.violation("k_and_deriv:%s:%s" % (tag, type(ex).__name__), {"tree": t, "msg": str(ex)[:200]}, replay={"tree": t})
        kk = None
    if kk is not None:
        if np.abs(kk - KXY).max() > 1e-11 * (1 + np.abs(KXY).max()):
            ck.violation("k_and_deriv-value:%s" % tag, {"tree": t}, replay={"tree": t})
        if not np.all(np.isfinite(dk)):
            # where the kernel value is exactly zero (underflow, orthogonal / zero rows) its derivative is zero, not 0/0
            ck.violation("input-gradient-non-finite:%s" % tag, {"tree": t, "n_bad": int((~np.isfinite(dk)).sum()),
                                                                 "kernel_values_at_bad_entries": [float(x) for x in kk[~np.isfinite(dk).all(axis=2)][:4]]},
                         replay={"tree": t})
            dk = np.where(np.isfinite(dk), dk, 0.0)
        h = 1e-4
        for j in range(NFEAT):
            e = np.zeros(NFEAT)
            e[j] = 1.0
            f1 = (k(X + h * e, Y) - k(X - h * e, Y)) / (2 * h)
            f2 = (k(X + 2 * h * e, Y) - k(X - 2 * h * e, Y)) / (4 * h)
            g = (4 * f1 - f2) / 3
            excess = np.abs(g - dk[:, :, j]) - 20 * np.abs(f1 - f2) - 1e-7 * (1 + np.abs(g).max()) - 1e-14 * np.abs(KXY).max() / h
            if excess.max() > 0:
                ck.violation("input-gradient-vs-fd:%s" % tag, {"tree": t, "j": j, "excess": float(excess.max())}, replay={"tree": t})
                break
    # ---- kernel objects are functions of the VALUES of their arguments (spec/ValueSemantics.tla): the caller reuses and
    # overwrites its arrays between calls (work arrays, in-place finite-difference steps, equal-shape slices in a loop)
    if vs_hists:
        import valuesem
        vals = {"c1": Y, "c2": rng.uniform(0.0, 1.0, size=Y.shape), "c3": rng.uniform(0.0, 1.0, size=Y.shape)}
        fresh = build(t)
        callables = [("k(X,.)", lambda A: k(X, A), lambda A: fresh(X, A)), ("k(.,X)", lambda A: k(A, X), lambda A: fresh(A, X))]
        if kk is not None:
            callables.append(("k_and_deriv(X,.)", lambda A: k.k_and_deriv(X, A), lambda A: fresh.k_and_deriv(X, A)))
            callables.append(("k_and_deriv(.,X)", lambda A: k.k_and_deriv(A, X), lambda A: fresh.k_and_deriv(A, X)))
        for cname, call, fcall in callables:
            bad = None
            for h in vs_hists:
                ck.count()
                bad = valuesem.replay(h, vals, call, fcall, tol=1e-11)
                if bad:
                    ck.violation("value-semantics:%s:%s:%s" % (cname, bad[0][0], tag), {"tree": t, "history": h, "step": bad[0][1], "op": bad[0][2]},
                                 replay={"tree": t})
                    break
            if bad:
                break
    # ---- declared spin symmetry: exchanging the alpha and beta feature blocks leaves k unchanged
    if t["op"] == "leaf" and hasattr(k, "alpha_ind"):
        Xs, Ys = X.copy(), Y.copy()
        Xs[:, k.alpha_ind], Xs[:, k.beta_ind] = X[:, k.beta_ind], X[:, k.alpha_ind]
        if np.abs(k(Xs, Y) - KXY).max() > 1e-12 * (1 + np.abs(KXY).max()):
            ck.violation("spin-exchange:%s" % tag, {"tree": t}, replay={"tree": t})


def dftkernel_checks(ck, rng):
    """DFTKernel: POL combination k_aa k_bb + k_ab k_ba is symmetric under exchange of spin blocks; SEP sums spins"""
    from ciderpress.dft import baselines
    from ciderpress.dft.transform_data import FeatureList, UMap
    from ciderpress.models.dft_kernel import DFTKernel
    from ciderpress.models.kernel_plans.kernel_tools import get_rbf_kernel
    fl = FeatureList([UMap(i, 0.3 + 0.1 * i) for i in range(1, 4)])
    kern = get_rbf_kernel(slice(0, 3), np.array([0.6, 0.8, 1.1]), scale=1.2)
    n = 8
    for mode in ("SEP", "NPOL", "POL"):
        dk = DFTKernel(kern, fl, mode, baselines.lda_x, baselines.zero_xc)
        for nspin in (1, 2):
            X0T = rng.uniform(0.1, 2.0, size=(nspin, 4, n))
            ck.count(key=("dftkernel", mode, nspin))
            try:
                X1 = dk.get_descriptors(X0T)
                X1s = dk.get_descriptors(X0T[::-1])
            except Exception as ex:
                ck.violation("dftkernel:%s:get_descriptors:%s" % (mode, type(ex).__name__), {"nspin": nspin, "msg": str(ex)[:200]})
                continue
            if mode == "NPOL" and nspin == 2 and np.abs(X1 - X1s).max() > 1e-13:
                ck.violation("dftkernel:NPOL:not-spin-symmetric", {})
        # ---- covariance of the control points (what MOLGP factorises): symmetric PSD, equal to the kernel between the same
        # points (get_k), for POL equal to the closed form k_aa k_bb + k_ab k_ba and invariant under exchange of the spin
        # labels of ALL control points; spin-POLARISED control points (the two channels differ)
        for nctrl in (2, 7):
            X0Tc = rng.uniform(0.1, 2.0, size=(2, 4, nctrl))
            ck.count(key=("dftkernel-kctrl", mode, nctrl))
            try:
                dk.set_control_points([X0Tc], reduce=False)
                Kmm = np.array(dk.get_kctrl())
                Kx = np.array(dk.get_k(X0Tc))
                dk.set_control_points([X0Tc[::-1].copy()], reduce=False)
                Kswap = np.array(dk.get_kctrl())
            except Exception as ex:
                ck.violation("dftkernel:%s:kctrl:%s" % (mode, type(ex).__name__), {"msg": str(ex)[:200]})
                continue
            sc = 1 + np.abs(Kmm).max()
            if np.abs(Kmm - Kmm.T).max() > 1e-12 * sc:
                ck.violation("dftkernel:%s:kctrl-not-symmetric" % mode, {"nctrl": nctrl, "asym": float(np.abs(Kmm - Kmm.T).max())})
                continue
            w = np.linalg.eigvalsh(0.5 * (Kmm + Kmm.T))
            if w.min() < -1e-9 * max(1.0, np.abs(w).max()):
                ck.violation("dftkernel:%s:kctrl-not-psd" % mode, {"nctrl": nctrl, "min_eig": float(w.min())})
            # ---- kernel between samples and control points: input derivative against finite differences of get_k
            dk.set_control_points([X0Tc], reduce=False)
            for nspin_s in (1, 2):
                X0Ts = rng.uniform(0.2, 1.8, size=(nspin_s, 4, 5))
                ck.count(key=("dftkernel-kderiv", mode, nctrl, nspin_s))
                try:
                    k0, dk0 = dk.get_k_and_deriv(X0Ts.copy())
                except Exception as ex:
                    ck.violation("dftkernel:%s:get_k_and_deriv:%s" % (mode, type(ex).__name__), {"nspin": nspin_s, "msg": str(ex)[:200]})
                    continue
                kref = np.array(dk.get_k(X0Ts.copy()))
                if np.abs(np.array(k0) - kref).max() > 1e-12 * (1 + np.abs(kref).max()):
                    ck.violation("dftkernel:%s:get_k_and_deriv-value-differs-from-get_k" % mode, {"nspin": nspin_s})
                h = 1e-5
                worst = 0.0
                for s_ in range(nspin_s):
                    for i_ in range(4):
                        D = np.zeros_like(X0Ts)
                        D[s_, i_] = 1.0
                        f1 = (np.array(dk.get_k(X0Ts + h * D)) - np.array(dk.get_k(X0Ts - h * D))) / (2 * h)
                        f2 = (np.array(dk.get_k(X0Ts + 2 * h * D)) - np.array(dk.get_k(X0Ts - 2 * h * D))) / (4 * h)
                        g = (4 * f1 - f2) / 3          # (nctrl, [nspin,] nsamp): derivative of every kernel entry w.r.t. feature (s_, i_) of ITS sample
                        an = np.array(dk0)[:, s_, i_, :]          # (nctrl, nsamp)
                        gg = g[:, s_, :] if g.ndim == 3 else g
                        worst = max(worst, float((np.abs(an - gg) - 20 * np.abs(f1 - f2).reshape(g.shape)[(slice(None), s_) if g.ndim == 3 else slice(None)] - 1e-7 * (1 + np.abs(gg).max())).max()))
                if worst > 0:
                    ck.violation("dftkernel:%s:get_k_and_deriv-vs-fd" % mode, {"nspin": nspin_s, "nctrl": nctrl, "excess": worst})
            # ---- control-point reduction keeps a SUBSET of the candidate points (pivoted Cholesky selection)
            if nctrl == 7:
                try:
                    dk.set_control_points([X0Tc, X0Tc + 1e-9], reduce=True)          # near-duplicates must be dropped
                    red = np.array(dk.X1ctrl)
                    full = dk.X0Tlist_to_X1array([X0Tc, X0Tc + 1e-9])
                    pts_r = red.reshape(2, -1, red.shape[-1]).transpose(1, 0, 2).reshape(red.shape[-2], -1) if mode == "POL" else red
                    pts_f = np.array(full).reshape(2, -1, red.shape[-1]).transpose(1, 0, 2).reshape(np.array(full).shape[-2], -1) if mode == "POL" else np.array(full)
                    inset = all(np.any(np.all(np.abs(pts_f - p_) < 1e-14, axis=1)) for p_ in pts_r)
                    if not inset or not (0 < len(pts_r) <= len(pts_f) // 2 + 1):
                        ck.violation("dftkernel:%s:control-point-reduction" % mode, {"kept": int(len(pts_r)), "candidates": int(len(pts_f)), "subset": bool(inset)})
                    Kr = np.array(dk.get_kctrl())
                    w_ = np.linalg.eigvalsh(0.5 * (Kr + Kr.T))
                    if w_.min() <= 0:
                        ck.violation("dftkernel:%s:reduced-covariance-not-positive-definite" % mode, {"min_eig": float(w_.min())})
                except Exception as ex:
                    ck.violation("dftkernel:%s:control-point-reduction:%s" % (mode, type(ex).__name__), {"msg": str(ex)[:200]})
                dk.set_control_points([X0Tc], reduce=False)
            if mode == "POL":
                X1c = dk.get_descriptors(X0Tc).reshape(2, nctrl, -1)
                kaa, kbb, kab, kba = kern(X1c[0], X1c[0]), kern(X1c[1], X1c[1]), kern(X1c[0], X1c[1]), kern(X1c[1], X1c[0])
                ref = kaa * kbb + kab * kba
                if np.abs(Kmm - ref).max() > 1e-12 * sc:
                    ck.violation("dftkernel:POL:kctrl-differs-from-closed-form", {"nctrl": nctrl, "err": float(np.abs(Kmm - ref).max())})
                if np.abs(Kmm - Kswap).max() > 1e-12 * sc:
                    ck.violation("dftkernel:POL:kctrl-not-invariant-under-spin-exchange", {"nctrl": nctrl})
                if Kx.shape == Kmm.shape and np.abs(Kx - Kmm.T).max() > 1e-12 * sc:
                    ck.violation("dftkernel:POL:kctrl-differs-from-get_k-at-the-control-points", {"nctrl": nctrl, "err": float(np.abs(Kx - Kmm.T).max())})


def worker(job):
    ck = Check("C15", "exploration")
    rng = np.random.default_rng(job["seed"])
    for n, (t, layout, ntheta) in enumerate(job["trees"]):
        vs = job.get("vs_hists", ()) if (t["op"] not in ("sum", "prod") or n % 4 == 0) else ()
        check_tree(ck, t, layout, ntheta, rng, vs_hists=vs)
    return {"violations": ck.violations, "evaluations": ck.evaluations, "distinct": sorted(ck.distinct)}


def reentry_histories(ck, rng):
    """ReentryGuard.tla: histories of outer calls (some refused with an exception raised inside the wrapped method) replayed
    on the real feature-subset / spin-symmetrised kernels; every successful call must equal a FRESH object's."""
    r = run_tlc("ReentryGuard", "MC_ReentryGuard.cfg", workers=2, timeout=300)
    if r.error:
        raise MachineryError("TLC ReentryGuard: " + r.error)
    ck.add_tlc("ReentryGuard", r)
    for v in r.violated:
        ck.violation("model:ReentryGuard:" + v, {})
    rb = run_tlc("ReentryGuard", "MC_ReentryGuard_bug.cfg", workers=1, timeout=300)
    if "SelectedOnce" not in rb.violated and "IdleUnlocked" not in rb.violated:
        raise MachineryError("negative control ReentryGuard: a guard kept on the error path violates nothing (%s)" % rb.violated)
    hists = sorted({tuple(tuple(op) for op in h) for h in tlc_printed_values(r.out, "RG_HIST")})
    if len(hists) < 100:
        raise MachineryError("ReentryGuard printed %d histories" % len(hists))
    hists = [h for h in hists if any(o == "refused" for _, o in h) and h[-1][1] == "ok"] + [h for h in hists if all(o == "ok" for _, o in h)][:5]
    ls2 = np.array([0.6, 0.9])
    makers = {
        "SubsetRBFiso": lambda: K.SubsetRBF([2, 0], length_scale=0.7),
        "SubsetRBFaniso": lambda: K.SubsetRBF([2, 0], length_scale=ls2.copy()),
        "SubsetRBFslice": lambda: K.SubsetRBF(slice(1, 3), length_scale=ls2.copy()),
        "SubsetARBF": lambda: K.SubsetARBF([3, 0, 2], order=2, length_scale=np.array([0.5, 0.8, 1.1]), scale=[0.3, 0.6, 1.0]),
        "SubsetAddRQ": lambda: K.SubsetAddRQ([3, 1], order=2, alpha=1.7, length_scale=ls2.copy(), scale=[0.3, 0.6, 1.0]),
        "SpinSymRBFiso": lambda: K.SpinSymRBF([0, 1], [2, 3], length_scale=0.8),
        "SpinSymRBFaniso": lambda: K.SpinSymRBF([0, 1], [2, 3], length_scale=ls2.copy()),
        "SpinSymARBF": lambda: K.SpinSymARBF([0, 1], [2, 3], order=2, length_scale=ls2.copy(), scale=[0.3, 0.6, 1.0]),
        # compositions: the refused call leaves through one guarded child (possibly before the other child was entered)
        "Sum(SubsetRBFiso,SpinSymRBF)": lambda: K.SubsetRBF([2, 0], length_scale=0.7) + K.SpinSymRBF([0, 1], [2, 3], length_scale=0.8),
        "Prod(Const,SubsetRBFiso)*SubsetARBF": lambda: (K.DiffConstantKernel(1.3) * K.SubsetRBF([1, 3], length_scale=0.9))
        * K.SubsetARBF([3, 0, 2], order=2, length_scale=np.array([0.5, 0.8, 1.1]), scale=[0.3, 0.6, 1.0]),
    }
    X, Y = rng.uniform(size=(5, NFEAT)), rng.uniform(size=(3, NFEAT))
    bad = rng.uniform(size=(3, 1))          # too few columns: the column selection / the base kernel refuses it

    def ok_op(k, m):
        if m == "call":
            return [k(X.copy(), Y.copy())]
        if m == "diag":
            return [k.diag(X.copy())]
        return list(k.k_and_deriv(X.copy(), Y.copy()))

    def refused_op(k, m, variant):
        if m == "call":
            return k(X.copy(), Y.copy(), eval_gradient=True) if variant else k(X.copy(), bad.copy())
        if m == "diag":
            return k.diag(bad.copy())
        return k.k_and_deriv(X.copy(), bad.copy())
    for name, mk in makers.items():
        try:
            ref = {m: ok_op(mk(), m) for m in ("call", "diag", "k_and_deriv")}
        except Exception as ex:
            raise MachineryError("ReentryGuard replay: reference for %s failed: %r" % (name, ex))
        for hi, h in enumerate(hists):
            k = mk()
            ck.count(key=("reentry", name, h))
            for step, (m, outcome) in enumerate(h):
                if outcome == "refused":
                    try:
                        refused_op(k, m, (hi + step) % 2)
                    except Exception:
                        pass
                    continue
                try:
                    got = ok_op(k, m)
                except Exception as ex:
                    ck.violation("reentry:%s:%s-raises-after-refused-call" % (name, m), {"history": [list(o) for o in h], "step": step, "msg": repr(ex)[:200]},
                                 {"kernel": name, "history": [list(o) for o in h]})
                    break
                err = max(float(np.abs(a - b).max()) if a.shape == b.shape else np.inf for a, b in zip(got, ref[m]))
                if not err <= 1e-12:
                    ck.violation("reentry:%s:%s-differs-from-fresh-object" % (name, m), {"history": [list(o) for o in h], "step": step, "err": err},
                                 {"kernel": name, "history": [list(o) for o in h]})
                    break
    ck.log("ReentryGuard: %d histories x %d kernels replayed" % (len(hists), len(makers)))


def main():
    ck = Check("C15", "exploration")
    rng = np.random.default_rng(ck.seed)
    quick = ck.tier == "quick"
    ck.rule = ("case = kernel composition tree (depth <=1 over all leaves; depth 2 over 6 representative leaves) enumerated by TLC from "
               "KernelAlgebra.tla with live hyper-parameter counts; each tree is built and checked: theta layout, symmetry, PSD, "
               "k(X,Y)=k(Y,X)^T, diag, composition algebra, theta- and input-gradient finite differences, spin exchange")
    leaves = harvest_leaves()
    X = rng.uniform(size=(5, NFEAT))
    lt = {}
    for nm in leaves:
        try:
            lt[nm] = len(leaf_kernel(nm).theta)
        except Exception as ex:
            ck.violation("leaf:%s:constructor-%s" % (nm, type(ex).__name__), {"msg": str(ex)[:200]})
    small = [nm for nm in ("RBFaniso", "RBFfixed", "Const", "TDiffARBF", "TSubsetRBF", "TSpinSymRBF") if nm in lt]
    d = stage_spec([])
    try:
        write_live_module("Live_KernelAlgebra", {
            "LiveLeafTheta": RawTLA("(" + " @@ ".join("%s :> %d" % (to_tla(k_), v) for k_, v in lt.items()) + ")"),
            "LiveSmall": set(small)}, d)
        with open(os.path.join(d, "MC_KernelAlgebra.tla"), "w") as f:
            f.write("---- MODULE MC_KernelAlgebra ----\nEXTENDS KernelAlgebra, Live_KernelAlgebra\n====\n")
        with open(os.path.join(d, "ka.cfg"), "w") as f:
            f.write("SPECIFICATION Spec\nCONSTANTS\n LeafTheta <- LiveLeafTheta\n SmallLeaves <- LiveSmall\n MaxDepth = 2\n"
                    "INVARIANT LayoutTiles\nINVARIANT DepthBounded\nINVARIANT AllPSD\nINVARIANT Emit\n")
        r = run_tlc("MC_KernelAlgebra", os.path.join(d, "ka.cfg"), workers=8, specdir=d, timeout=1800)
    finally:
        shutil.rmtree(d, ignore_errors=True)
    if r.error:
        raise MachineryError("TLC: " + r.error)
    ck.add_tlc("KernelAlgebra(live leaves)", r)
    ck.exhaustive = True
    for v in r.violated:
        ck.violation("model:KernelAlgebra:" + v, {})
    trees = tlc_printed_values(r.out, "TREE")
    ck.log("model: %s, %d trees over %d leaves" % (r, len(trees), len(lt)))
    if len(trees) < 500:
        raise MachineryError("too few trees")
    if quick:
        idx = rng.permutation(len(trees))
        # all single leaves and unary nodes, a sample of the binary ones
        keep = [t for t in trees if t[0]["op"] not in ("sum", "prod")]
        binary = [trees[i] for i in idx if trees[i][0]["op"] in ("sum", "prod")][:1400]
        trees = keep + binary
    import valuesem
    vs_hists = valuesem.model_and_histories(ck, want=6 if quick else 40)
    jobs = [{"trees": trees[k::64], "seed": ck.seed + k, "vs_hists": vs_hists} for k in range(64)]
    for res in run_workers(os.path.abspath(__file__), jobs, nproc=16, timeout=3000):
        if "crash" in res:
            handle_crash(ck, res)
            continue
        for v in res["violations"]:
            ck.violation(v["site"], v["detail"], v["replay"])
        ck.evaluations += res["evaluations"]
        ck.distinct |= set(res["distinct"])
    ck.sample({"tree": trees[len(trees) // 2][0], "layout": trees[len(trees) // 2][1], "ntheta": trees[len(trees) // 2][2]})
    dftkernel_checks(ck, rng)
    reentry_histories(ck, rng)
    ck.assumptions = ["leaf kernels with the constructor arguments of the repository's own kernel test cases + anisotropic/fixed RBF, constant, white, linear, antisymmetric, partial RBF",
                      "non-integer powers are outside the property (not PSD preserving)", "PSD tolerance 1e-9 relative to the largest eigenvalue"]
    return ck.finish()


if __name__ == "__main__":
    if len(sys.argv) > 1 and sys.argv[1] == "--worker":
        worker_main(worker)
        sys.exit(0)
    if len(sys.argv) > 2 and sys.argv[1] == "--replay":
        import json
        rp = json.load(open(sys.argv[2]))
        ck = Check("C15", "exploration")
        for occ in rp["occurrences"][:3]:
            t = occ["replay"]["tree"]
            k = build(t)
            check_tree(ck, t, [], len(k.theta), np.random.default_rng(0))
        print(ck.violations)
        sys.exit(0)
    main_wrapper(main)
