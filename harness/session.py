"""KS-session stage (spec/KSSession.tla): life cycle of a CIDER-decorated PySCF Kohn-Sham object.
  M: KSSession exhaustively (all action sequences up to MaxSteps over 4 model families x 2 molecules x 2x2 grid
     attribute values), negative control StaleGridBug (the pinned tree's identity-only re-initialisation predicate)
  R: behaviours simulated by TLC (MCH_KSSession: action history + the per-step expected projection) are replayed on
     real objects: make_cider_calc / set_mlxc / grid attribute assignment / build / initialize_grids / nr_rks|nr_uks /
     reset / density_fit / to_uks|to_rks / unsupported methods; after EVERY step the projection of the real objects
     (classes, grid attributes, which objects were replaced, which generators were re-created, exception class,
     gradient class) must equal the specification's, and every evaluation must equal the evaluation by fresh objects
     configured the same way (C09: history independence at the level a user works at)
  T: real SCF flows (kernel() with several cycles, grid attribute change, geometry change, model swap, spin change)
     are recorded at method return and validated by Trace_KSSession (code -> spec)
Used by c09.py (registered check of C09); the evaluation oracle also serves C01's session dimension."""
import cvload  # noqa: F401
import json
import os
import sys

import numpy as np

from common import MachineryError, run_tlc, tlc_printed_values, validate_records

FAMS = {"sl": ("none", "none"), "sdmx": ("none", "SDMX"), "nldf": ("j", "none"), "nldfsdmx": ("i", "G1")}
MOLNAMES = {"m1": "LiH", "m2": "LiH_b"}
TOL = 1e-10


# ------------------------------------------------------------------------------------------------ model side
def model_stage(ck, quick):
    r = run_tlc("MC_KSSession", "MC_KSSession.cfg" if quick else "MC_KSSession_deep.cfg", workers=16, coverage=quick, timeout=3000)
    if r.error:
        raise MachineryError("TLC KSSession: " + r.error)
    ck.add_tlc("KSSession", r, require_actions=("Decorate", "SetMlxc", "SetGridAttr", "Build", "InitGrids", "NrCall", "Reset",
                                                  "DensityFit", "ToOtherSpin", "Unsupported") if quick else ())
    for v in r.violated:
        ck.violation("model:KSSession:%s" % v, {"tlc": r.out[-3000:]})
    rb = run_tlc("MC_KSSession", "MC_KSSession_bug.cfg", workers=8, timeout=1200)
    if "GeneratorCurrent" not in rb.violated:
        raise MachineryError("negative control: KSSession with StaleGridBug did not violate GeneratorCurrent")
    ck.extra["session_negative_control"] = "KSSession with StaleGridBug=TRUE (pinned re-initialisation predicate) violates GeneratorCurrent"
    ck.log("model KSSession: %s" % r)


def histories(ck, quick):
    """TLC -simulate on MCH_KSSession -> action histories (each entry ends with the outcome class); select a cover;
    obtain the per-step expected projections of the selected ones from MCR_KSSession (exhaustive)."""
    import shutil
    from common import stage_spec, to_tla, write_live_module
    nsim = 8000 if quick else 200000
    r = run_tlc("MCH_KSSession", "MC_KSSession_sim.cfg", workers=1, simulate="num=%d" % nsim,
                extra=["-depth", "14", "-seed", str(ck.seed + 23)], timeout=1500)
    vals = tlc_printed_values(r.out, "SESSION_HIST")
    if len(vals) < nsim // 4:
        raise MachineryError("TLC simulation of MCH_KSSession produced %d histories\n%s" % (len(vals), r.out[-2000:]))
    uniq = {}
    for hist in vals:
        uniq.setdefault(json.dumps(hist), hist)
    hs = list(uniq.values())

    def feats(h):
        """abstract features of a behaviour: the op kinds, and -- what the oracle lives on -- for every successful
        evaluation the set of operations since the previous successful evaluation (or since decoration) together with
        the family and spin count evaluated"""
        out, gap, fam_ = set(), [], None
        nev = 0
        for op in h:
            out.add((op[0],) if op[0] not in ("decorate", "set_mlxc", "unsupported") else tuple(op[:2]))
            if op[0] in ("decorate", "set_mlxc"):
                fam_ = op[1]
            if op[0] == "nr_call" and op[-1] == "ok":
                nev += 1
                out.add(("eval", fam_, op[1], "first" if nev == 1 else "later", tuple(sorted(set(gap)))))
                gap = []
            elif op[0] == "nr_call":
                out.add(("eval-refused", fam_, op[1]))
            else:
                gap.append(op[0])
        return out
    import random
    rnd = random.Random(ck.seed)

    def cover(pool, want):
        pool = list(pool)
        rnd.shuffle(pool)
        fs = [feats(h) for h in pool]
        allf = set().union(*fs) if fs else set()
        chosen, covered = [], set()
        idx = list(range(len(pool)))
        while covered != allf and len(chosen) < want and idx:
            best = max(idx[:8000], key=lambda i: (len(fs[i] - covered), -len(pool[i])))
            if not fs[best] - covered:
                rnd.shuffle(idx)
                best = max(idx[:8000], key=lambda i: (len(fs[i] - covered), -len(pool[i])))
                if not fs[best] - covered:
                    break
            idx.remove(best)
            chosen.append(pool[best])
            covered |= fs[best]
        idx.sort(key=lambda i: -sum(1 for f in fs[i] if f[0] == "eval"))
        chosen += [pool[i] for i in idx[:max(0, want - len(chosen))]]
        return chosen, len(covered), len(allf)
    # (1) evaluation-centred behaviours, enumerated exhaustively (spec/MCX_KSSession.tla)
    rx = run_tlc("MCX_KSSession", "MC_KSSession_witness.cfg", workers=16, timeout=2400)
    if rx.error or rx.violated:
        raise MachineryError("TLC MCX_KSSession: %s %s" % (rx.violated, (rx.error or "")[-1500:]))
    ck.add_tlc("KSSession/witness", rx)
    wit = [h for _, h in tlc_printed_values(rx.out, "SESSION_WITNESS")]
    if len(wit) < 1000:
        raise MachineryError("MCX_KSSession emitted only %d witnesses" % len(wit))
    chosen_w, cw, aw = cover(wit, 90 if quick else 100000)
    # (2) broad behaviours from random simulation (all operations incl. refused ones)
    chosen_s, cs, as_ = cover(hs, 40 if quick else 600)
    chosen = chosen_w + chosen_s
    ck.extra["session_witnesses_enumerated"] = len(wit)
    ck.extra["session_witness_features_covered"] = "%d of %d (family, spin count, first/later evaluation, set of operations since the previous evaluation)" % (cw, aw)
    covered, allf = range(cs), range(as_)
    ck.extra["session_histories_generated"] = len(vals)
    ck.extra["session_histories_distinct"] = len(hs)
    ck.extra["session_abstract_features_covered"] = "%d of %d" % (len(covered), len(allf))
    # ---- expected projections of the chosen behaviours from the specification itself
    d = stage_spec([])
    write_live_module("Live_KSSessionTarget", {"Target": [[list(op) for op in h] for h in chosen]}, d, extends="Integers, Sequences")
    rr = run_tlc("MCR_KSSession", "MC_KSSession_replay.cfg", workers=8, timeout=1500, specdir=d)
    if rr.error or rr.violated:
        raise MachineryError("TLC MCR_KSSession: %s %s" % (rr.violated, (rr.error or "")[-1500:]))
    pj = {}
    for k, projs in tlc_printed_values(rr.out, "SESSION_PROJ"):
        pj[int(k)] = projs
    shutil.rmtree(d, ignore_errors=True)
    if sorted(pj) != list(range(1, len(chosen) + 1)):
        raise MachineryError("MCR_KSSession returned projections for %d of %d behaviours" % (len(pj), len(chosen)))
    ck.states += rr.distinct
    return [(h, pj[i + 1]) for i, h in enumerate(chosen)]


# ------------------------------------------------------------------------------------------------ implementation side
class SessionWorld:
    def __init__(self, seed):
        import models as M
        import e2e
        from pyscf.dft import gen_grid
        self.M, self.e2e = M, e2e
        M.MOLS.setdefault("LiH_b", dict(atom="Li 0 0 0.05; H 0.1 0 1.75", spin=0))
        self.mols = {k: M.make_mol(v) for k, v in MOLNAMES.items()}
        # geometries each molecule OBJECT can be moved to in place (mol.set_geom_): the original one and a RIGIDLY moved one
        # (90-degree rotation + translation).  A stretched geometry is deliberately not used: the SDMX generator derives its
        # exponent ladder from the largest interatomic distance when it is created, so after an in-place stretch the kept
        # generator differs from a fresh one by the ladder truncation (1e-8 relative, observation O9) -- a rigid motion keeps
        # the ladder and the answers must be identical; geomidx[name] says which geometry the object holds now
        self.geoms = {}
        for k, mol in self.mols.items():
            c0 = mol.atom_coords(unit="Bohr").copy()
            rot = np.array([[0.0, -1.0, 0.0], [1.0, 0.0, 0.0], [0.0, 0.0, 1.0]])
            c1 = c0.dot(rot.T) + np.array([0.3, -0.2, 0.5])
            self.geoms[k] = [c0, c1]
        self.geomidx = {k: 0 for k in self.mols}
        self.seed = seed
        self.schemes = {"becke": gen_grid.original_becke, "stratmann": gen_grid.stratmann}
        rng = np.random.default_rng(4000 + seed)
        self.dm = {}
        for k, mol in self.mols.items():
            p = M.psd_dm(rng, mol, nocc=2)
            q = M.psd_dm(rng, mol, nocc=1)
            self.dm[k] = {1: 2.0 * p, 2: np.stack([p, 0.7 * q + 0.3 * p])}
        self.fresh_cache = {}
        self._models = {}

    def model(self, fam):
        nldf, sdmx = FAMS[fam]
        cfg = dict(sl="npa", nldf=nldf, sdmx=sdmx, plan="gaussian", interp="onsite_direct", eval="rbf", mode="SEP", mix="xmix_c")
        return self.e2e.make_mapped_model(cfg, self.seed + 1)

    def plain(self, spin, level, scheme, molname):
        from pyscf import dft
        mol = self.mols[molname]
        ks = dft.RKS(mol) if spin == "R" else dft.UKS(mol)
        ks.xc = "PBE"
        ks.verbose = 0
        ks.grids.level = level
        ks.grids.becke_scheme = self.schemes[scheme]
        return ks

    def decorate(self, ks, fam):
        from ciderpress.pyscf.dft import make_cider_calc
        return make_cider_calc(ks, self.model(fam), xmix=0.25, xkernel="GGA_X_PBE", ckernel="GGA_C_PBE")

    def evaluate(self, ks, molname, ns):
        mol = self.mols[molname]
        dm = self.dm[molname][ns]
        ni = ks._numint
        fn = ni.nr_rks if ns == 1 else ni.nr_uks
        n, e, v = fn(mol, ks.grids, ks.xc, dm.copy())
        return np.asarray(n, dtype=float), np.asarray(e, dtype=float), np.asarray(v)

    def move_in_place(self, molname):
        """mol.set_geom_ on the SAME object (toggle between the two geometries)"""
        self.geomidx[molname] = 1 - self.geomidx[molname]
        self.mols[molname].set_geom_(self.geoms[molname][self.geomidx[molname]], unit="Bohr")

    def restore_geoms(self):
        for k in self.mols:
            if self.geomidx[k] != 0:
                self.move_in_place(k)

    def fresh(self, fam, spin, level, scheme, molname, df, gidx=0):
        key = (fam, spin, level, scheme, molname, gidx)
        if key not in self.fresh_cache:
            # fresh objects throughout: a NEW molecule object at the geometry the history's object holds now
            fmol = self.mols[molname].copy()
            fmol.set_geom_(self.geoms[molname][gidx], unit="Bohr")
            fmol.build(False, False)
            saved = self.mols[molname]
            self.mols[molname] = fmol
            try:
                ks = self.decorate(self.plain(spin, level, scheme, molname), fam)
                ks.build()
                ns = 1 if spin == "R" else 2
                ks.initialize_grids(fmol, self.dm[molname][ns])
                self.fresh_cache[key] = self.evaluate(ks, molname, ns)
            finally:
                self.mols[molname] = saved
        return self.fresh_cache[key]


def cmp(a, b):
    a, b = np.asarray(a, dtype=float), np.asarray(b, dtype=float)
    if a.shape != b.shape:
        return float("inf")
    if not (np.isfinite(a).all() and np.isfinite(b).all()):
        return float("inf")
    scale = max(1.0, float(np.abs(b).max()) if b.size else 1.0)
    return float(np.abs(a - b).max() / scale) if a.size else 0.0


class Ids:
    """python object identity -> 'changed since the previous step' (objects are kept alive)."""

    def __init__(self):
        self.keep = []

    def same(self, a, b):
        return a is b


def project(ks, state):
    """Projection of the real objects onto the variables of KSSession (MCH_KSSession!Proj)."""
    from pyscf import dft
    from ciderpress.pyscf.dft import _CiderKS
    g = ks.grids
    ni = getattr(ks, "_numint", None)
    decorated = isinstance(ks, _CiderKS)
    p = {"decorated": decorated, "spin": "U" if isinstance(ks, dft.uks.UKS) else "R",
         "df": bool(getattr(ks, "with_df", None) is not None), "gcls": type(g).__name__,
         "level": int(g.level), "scheme": g.becke_scheme.__name__.replace("original_", ""),
         "gmol": state["molname_of"](g.mol), "mol": state["molname_of"](ks.mol),
         "built": g.coords is not None, "hasidx": getattr(g, "grids_indexer", None) is not None}
    if decorated:
        p["ni"] = {"cls": type(ni).__name__, "timer": hasattr(ni, "timer"),
                   "gen": getattr(ni, "nldfgen", None), "sdmx": getattr(ni, "sdmxgen", None), "obj": ni}
        gm = ks.nuc_grad_method()
        p["grad"] = [type(gm).__module__.split(".")[-1], type(gm).__name__]
    p["gobj"] = g
    return p


def replay(job):
    W = _world(job["seed"])
    hist, projs = job["hist"], job["projs"]
    viol, ncmp = [], 0
    molname_of = lambda m: next((k for k, v in W.mols.items() if v is m), "?")
    state = {"molname_of": molname_of}
    W.restore_geoms()
    spin, level, scheme = "R", 0, "becke"
    ks = W.plain(spin, level, scheme, "m1")
    keep = [ks]
    prev = project(ks, state)
    # spec-side identity bookkeeping: oid / serial numbers of the previous step
    sprev = {"goid": 1, "nioid": None, "gen": 0, "sdmx": 0}
    fam = None
    evals = []
    drift = []
    diverged = False
    for step, (op, sp) in enumerate(zip(hist, projs)):
        op = list(op[:-1])    # the last entry is the specification's outcome class (also in sp["err"])
        name = op[0]
        err = "ok"
        try:
            if name == "configure":
                _, spin, level, scheme = op
                ks = W.plain(spin, level, scheme, "m1")
            elif name == "decorate":
                fam = op[1]
                ks = W.decorate(ks, fam)
            elif name == "redecorate":
                W.decorate(ks, fam)
            elif name == "set_mlxc":
                fam = op[1]
                ks.set_mlxc(W.model(fam), xmix=0.25)
            elif name == "grid_attr":
                _, l, s = op
                if l != int(ks.grids.level):
                    ks.grids.level = l
                if s != ks.grids.becke_scheme.__name__.replace("original_", ""):
                    ks.grids.becke_scheme = W.schemes[s]
            elif name == "build":
                ks.build(ks.mol) if op[1] else ks.build()
            elif name == "init_grids":
                mn = molname_of(ks.mol)
                ns = 1 if prev["spin"] == "R" else 2
                ks.initialize_grids(ks.mol, W.dm[mn][ns])
            elif name == "nr_call":
                mn = molname_of(ks.mol)
                ns = op[1]
                res = W.evaluate(ks, mn, ns)
                evals.append((step, fam, prev["spin"], int(ks.grids.level), prev["scheme"], mn, prev["df"], res, W.geomidx[mn]))
            elif name == "reset":
                ks.reset(W.mols[op[1]])
            elif name == "move_in_place":
                W.move_in_place(molname_of(ks.mol))
                ks.grids.build(with_non0tab=True)
            elif name == "density_fit":
                ks = ks.density_fit()
            elif name == "to_other_spin":
                ks = ks.to_uks() if prev["spin"] == "R" else ks.to_rks()
            elif name == "unsupported":
                getattr(ks, op[1])()
            else:
                raise MachineryError("unknown op %r" % (op,))
        except MachineryError:
            raise
        except Exception as ex:  # noqa: BLE001
            err = type(ex).__name__
        keep.append(ks)
        cur = project(ks, state)
        keep += [cur["gobj"], cur.get("ni", {}).get("obj"), cur.get("ni", {}).get("gen"), cur.get("ni", {}).get("sdmx")]
        # ---- compare with the specification's projection of the same step
        exp = dict(sp)
        mism = []
        if err != exp["err"]:
            mism.append(("err", err, exp["err"]))
        for k in ("decorated", "spin", "df", "gcls", "level", "scheme", "built", "hasidx", "mol", "gmol"):
            if cur[k] != exp[k]:
                mism.append((k, cur[k], exp[k]))
        if (cur["gobj"] is not prev["gobj"]) != (exp["goid"] != sprev["goid"]) and name != "configure":
            mism.append(("grids-object-replaced", cur["gobj"] is not prev["gobj"], exp["goid"] != sprev["goid"]))
        if cur["decorated"] and exp["ni"] != ():
            e_ni = exp["ni"]
            if cur["ni"]["cls"] != e_ni["cls"]:
                mism.append(("integrator-class", cur["ni"]["cls"], e_ni["cls"]))
            if cur["ni"]["timer"] != e_ni["timer"]:
                mism.append(("integrator-built", cur["ni"]["timer"], e_ni["timer"]))
            if "ni" in prev and sprev["nioid"] is not None:
                if (cur["ni"]["obj"] is not prev["ni"]["obj"]) != (e_ni["oid"] != sprev["nioid"]):
                    mism.append(("integrator-object-replaced", cur["ni"]["obj"] is not prev["ni"]["obj"], e_ni["oid"] != sprev["nioid"]))
                for what in ("gen", "sdmx"):
                    c_new = cur["ni"][what] is not prev["ni"][what]
                    s_new = e_ni[what] != sprev[what]
                    if (cur["ni"][what] is None) != (e_ni[what] == 0):
                        mism.append((what + "-present", cur["ni"][what] is not None, e_ni[what] != 0))
                    elif c_new != s_new:
                        mism.append((what + "-recreated", c_new, s_new))
            if cur["grad"] != list(exp["grad"]):
                mism.append(("gradient-class", cur["grad"], list(exp["grad"])))
            sprev = {"goid": exp["goid"], "nioid": e_ni["oid"], "gen": e_ni["gen"], "sdmx": e_ni["sdmx"]}
        else:
            sprev = {"goid": exp["goid"], "nioid": None, "gen": 0, "sdmx": 0}
        ncmp += 1
        if mism and not diverged:
            # What bears on the ANSWERS is a violation: an evaluation the specification performs raises, or a generator is KEPT
            # across a change for which the specification re-creates it (stale by construction).  Any other difference says
            # that the code no longer follows this specification (model drift): reported, not a violation of C09 --
            # the evaluation oracle below keeps judging the answers either way.
            hard = [m for m in mism if (m[0] == "err" and name == "nr_call" and m[2] == "ok")
                    or (m[0] in ("gen-recreated", "sdmx-recreated") and m[1] is False and m[2] is True)]
            rec = {"step": step, "op": op, "impl_vs_spec": [list(map(str, m)) for m in mism], "hist": [list(o[:-1]) for o in hist[:step + 1]]}
            if hard:
                what = "evaluation-raises" if hard[0][0] == "err" else hard[0][0].replace("recreated", "kept-but-specification-recreates-it")
                viol.append(dict(rec, site="session:%s:%s" % (name, what)))
            else:
                drift.append(dict(rec, what="%s:%s" % (name, mism[0][0])))
            diverged = True      # the states differ from here on: later projections are not comparable
        prev = cur
    # ---- oracle: every evaluation equals the evaluation by fresh objects configured the same way
    for step, f, sp_, lvl, sch, mn, df, res, gidx in evals:
        ref = W.fresh(f, sp_, lvl, sch, mn, df, gidx)
        d = [cmp(a, b) for a, b in zip(res, ref)]
        ncmp += 1
        if not max(d) <= TOL:
            before = [op[0] for op in hist[:step]]
            cause = "after-" + next((b for b in reversed(before) if b not in ("init_grids", "build", "nr_call")), "start")
            qty = "+".join(q for q, x in zip(("nelec", "exc", "vmat"), d) if not x <= TOL)
            viol.append({"site": "session:history-vs-fresh:%s:%s:%s" % (f, cause, qty), "step": step, "rel": d, "hist": hist[:step + 1]})
    return {"id": job["id"], "viol": viol, "drift": drift, "ncmp": ncmp, "nevals": len(evals), "nsteps": len(hist)}


_W = {}


def _world(seed):
    if seed not in _W:
        _W[seed] = SessionWorld(seed)
    return _W[seed]


# ------------------------------------------------------------------------------------------------ code -> spec
class FlowRecorder:
    """Wraps, at run time and without touching /repo, the methods that are the specification's actions; one event per
    OUTERMOST call on the tracked object, logged at its return (also on the exception path) with the projection of
    the real objects after the call and which objects were replaced by it."""

    def __init__(self, W):
        self.W = W
        self.events = []
        self.ks = None
        self.depth = 0
        self.keep = []
        self.undo = []

    # -- projection
    def snap(self):
        ks = self.ks
        ni = getattr(ks, "_numint", None)
        return {"g": ks.grids, "ni": ni, "gen": getattr(ni, "nldfgen", None), "sdmx": getattr(ni, "sdmxgen", None),
                "built": ks.grids.coords is not None}

    def post(self, before, err):
        from pyscf import dft
        ks = self.ks
        W = self.W
        molname = lambda m: next((k for k, v in W.mols.items() if v is m), "?")
        g = ks.grids
        ni = getattr(ks, "_numint", None)
        cider = ni is not None and hasattr(ni, "mlxc")
        now = self.snap()
        self.keep += [v for v in list(before.values()) + list(now.values()) if not isinstance(v, bool)] + [ks]
        return {"level": int(g.level), "scheme": g.becke_scheme.__name__.replace("original_", ""),
                "built": g.coords is not None, "hasidx": getattr(g, "grids_indexer", None) is not None,
                "gcls": type(g).__name__, "nicls": type(ni).__name__ if cider else "", "timer": bool(cider and hasattr(ni, "timer")),
                "gsame": now["g"] is before["g"], "nisame": now["ni"] is before["ni"],
                "genpresent": now["gen"] is not None, "gensame": now["gen"] is before["gen"],
                "sdmxpresent": now["sdmx"] is not None, "sdmxsame": now["sdmx"] is before["sdmx"],
                "err": err, "spin": "U" if isinstance(ks, dft.uks.UKS) else "R",
                "df": bool(getattr(ks, "with_df", None) is not None), "mol": molname(ks.mol), "gmol": molname(g.mol)}

    def emit(self, ev, before, err, **kw):
        kw.update(ev=ev, post=self.post(before, err))
        self.events.append(kw)

    def outer(self, ev, fields):
        """decorator factory: log the outermost call only"""
        rec = self

        def mk(orig):
            import functools

            @functools.wraps(orig)
            def w(self_, *a, **k):
                tracked = rec.ks is not None and (self_ is rec.ks or self_ is getattr(rec.ks, "_numint", None))
                if not tracked or rec.depth > 0:
                    rec.depth += 1
                    try:
                        return orig(self_, *a, **k)
                    finally:
                        rec.depth -= 1
                before = rec.snap()
                rec.depth += 1
                err = "ok"
                try:
                    return orig(self_, *a, **k)
                except Exception as ex:  # noqa: BLE001
                    err = type(ex).__name__
                    raise
                finally:
                    rec.depth -= 1
                    f = fields(self_, a, k, before)
                    if f is not None:
                        rec.emit(ev, before, err, **f)
            return w
        return mk

    def install(self):
        import ciderpress.pyscf.numint as cn
        from ciderpress.pyscf.dft import _CiderKS
        from pyscf.dft import gen_grid, rks
        W = self.W
        molname = lambda m: next((k for k, v in W.mols.items() if v is m), "?")

        def wrap(cls, name, mk):
            orig = cls.__dict__[name]
            setattr(cls, name, mk(orig))
            self.undo.append((cls, name, orig))
        wrap(_CiderKS, "build", self.outer("Build", lambda s_, a, k, b: {"withmol": bool((a and a[0] is not None) or k.get("mol") is not None)}))
        wrap(_CiderKS, "reset", self.outer("Reset", lambda s_, a, k, b: {"mol": molname(a[0] if a else k.get("mol"))}))
        wrap(_CiderKS, "set_mlxc", self.outer("SetMlxc", lambda s_, a, k, b: {"fam": fam_of(a[0] if a else k["mlxc"])}))
        # initialize_grids is an event only when it actually built the grid
        wrap(rks.KohnShamDFT, "initialize_grids",
             self.outer("InitGrids", lambda s_, a, k, b: {} if (not b["built"] and b["g"].coords is not None) else None))
        for cls in (cn.CiderNumInt, cn._NLDFMixin):
            wrap(cls, "nr_rks", self.outer("NrCall", lambda s_, a, k, b: {"ns": 1}))
            wrap(cls, "nr_uks", self.outer("NrCall", lambda s_, a, k, b: {"ns": 2}))
        rec = self
        orig_sa = gen_grid.Grids.__setattr__

        def grids_setattr(g, key, val):
            watched = key in ("atom_grid", "atomic_radii", "radii_adjust", "radi_method", "becke_scheme", "prune", "level")
            if not (watched and rec.ks is not None and rec.depth == 0 and g is rec.ks.grids and isinstance(rec.ks, _CiderKS)):
                return orig_sa(g, key, val)
            before = rec.snap()
            rec.depth += 1
            try:
                orig_sa(g, key, val)
            finally:
                rec.depth -= 1
                rec.emit("SetGridAttr", before, "ok", level=int(g.level), scheme=g.becke_scheme.__name__.replace("original_", ""))
        gen_grid.Grids.__setattr__ = grids_setattr
        self.undo.append((gen_grid.Grids, "__setattr__", orig_sa))

    def uninstall(self):
        for cls, name, orig in reversed(self.undo):
            setattr(cls, name, orig)
        self.undo = []


def fam_of(mlxc):
    st = mlxc.settings
    return {(False, False): "sl", (False, True): "sdmx", (True, False): "nldf", (True, True): "nldfsdmx"}[(bool(st.has_nldf), bool(st.has_sdmx))]


FLOWS = {
    # name: list of steps; kernel = ks.kernel() with max_cycle 2 (build + 3 evaluations)
    "nldf-rks-gridchange": [("configure", "R", 0, "becke"), ("decorate", "nldf"), ("kernel",), ("grid_attr", "becke_scheme", "stratmann"),
                            ("kernel",), ("grad",), ("grid_attr", "level", 1), ("kernel",)],
    "nldfsdmx-scan": [("configure", "R", 0, "stratmann"), ("decorate", "nldfsdmx"), ("kernel",), ("scan", "m2"), ("grad",), ("scan", "m1")],
    "sdmx-uks-swap": [("configure", "U", 0, "becke"), ("decorate", "sdmx"), ("kernel",), ("set_mlxc", "nldfsdmx"), ("kernel",),
                      ("set_mlxc", "sl"), ("kernel",), ("grad",)],
    "sl-df-spin": [("configure", "R", 0, "becke"), ("decorate", "sl"), ("density_fit",), ("kernel",), ("grad",), ("to_other_spin",), ("kernel",),
                   ("grad",), ("unsupported", "NMR"), ("unsupported", "Hessian")],
    "nldf-uks-reset": [("configure", "U", 1, "becke"), ("decorate", "nldf"), ("kernel",), ("reset", "m2"), ("kernel",), ("to_other_spin",),
                       ("kernel",), ("redecorate",), ("grid_attr", "level", 1), ("kernel",)],
    "inplace-move": [("configure", "R", 0, "becke"), ("decorate", "nldfsdmx"), ("kernel",), ("move_in_place",), ("kernel",), ("set_mlxc", "sdmx"),
                     ("kernel",), ("move_in_place",), ("kernel",), ("grad",)],
    "nldfsdmx-df-direct": [("configure", "R", 0, "becke"), ("decorate", "nldfsdmx"), ("direct_call",), ("build",), ("init", ), ("direct_call",),
                           ("density_fit",), ("direct_call",), ("grid_attr", "becke_scheme", "stratmann"), ("init",), ("direct_call",), ("grad",)],
}


def record_flow(job):
    """Run one real flow with the recorder installed; returns the event list."""
    W = _world(job["seed"])
    W.restore_geoms()
    rec = FlowRecorder(W)
    steps = FLOWS[job["flow"]]
    rec.install()
    fam = None
    try:
        ks = None
        for st in steps:
            name = st[0]
            if name == "configure":
                ks = W.plain(st[1], st[2], st[3], "m1")
                rec.ks = ks
                rec.emit("Configure", rec.snap(), "ok", spin=st[1], level=st[2], scheme=st[3])
            elif name == "decorate":
                fam = st[1]
                before = rec.snap()
                rec.depth += 1
                try:
                    ks = W.decorate(ks, fam)
                finally:
                    rec.depth -= 1
                rec.ks = ks
                ks.max_cycle = 2
                ks.conv_tol = 1e-3
                rec.emit("Decorate", before, "ok", fam=fam_of(ks._numint.mlxc))
            elif name == "redecorate":
                before = rec.snap()
                rec.depth += 1
                err = "ok"
                try:
                    W.decorate(ks, fam)
                except Exception as ex:  # noqa: BLE001
                    err = type(ex).__name__
                finally:
                    rec.depth -= 1
                rec.emit("Redecorate", before, err)
            elif name == "set_mlxc":
                fam = st[1]
                ks.set_mlxc(W.model(fam), xmix=0.25)
            elif name == "grid_attr":
                setattr(ks.grids, st[1], W.schemes[st[2]] if st[1] == "becke_scheme" else st[2])
            elif name == "kernel":
                ks.kernel()
            elif name == "build":
                ks.build()
            elif name == "init":
                ns = 2 if rec.post(rec.snap(), "ok")["spin"] == "U" else 1
                ks.initialize_grids(ks.mol, W.dm[next(k for k, v in W.mols.items() if v is ks.mol)][ns])
            elif name == "direct_call":
                mn = next(k for k, v in W.mols.items() if v is ks.mol)
                ns = 2 if rec.post(rec.snap(), "ok")["spin"] == "U" else 1
                if ks.grids.coords is None:
                    ks.initialize_grids(ks.mol, W.dm[mn][ns])
                try:
                    W.evaluate(ks, mn, ns)
                except AttributeError:
                    pass
            elif name == "reset":
                ks.reset(W.mols[st[1]])
            elif name == "move_in_place":
                before = rec.snap()
                mn = next(k for k, v in W.mols.items() if v is ks.mol)
                rec.depth += 1
                try:
                    W.move_in_place(mn)
                    ks.grids.build(with_non0tab=True)
                finally:
                    rec.depth -= 1
                rec.emit("MoveInPlace", before, "ok")
            elif name == "scan":
                sc = ks.as_scanner()
                sc.max_cycle = 2
                rec.ks = sc
                sc(W.mols[st[1]])
                rec.ks = ks
            elif name == "density_fit":
                before = rec.snap()
                ks = ks.density_fit()
                ks.max_cycle = 2
                rec.ks = ks
                rec.emit("DensityFit", before, "ok")
            elif name == "to_other_spin":
                before = rec.snap()
                ks = ks.to_uks() if rec.post(before, "ok")["spin"] == "R" else ks.to_rks()
                ks.max_cycle = 2
                rec.ks = ks
                rec.emit("ToOtherSpin", before, "ok")
            elif name == "unsupported":
                before = rec.snap()
                err = "ok"
                try:
                    getattr(ks, st[1])()
                except Exception as ex:  # noqa: BLE001
                    err = type(ex).__name__
                rec.emit("Unsupported", before, err, meth=st[1])
            elif name == "grad":
                gm = ks.nuc_grad_method()
                rec.events.append({"ev": "Grad", "cls": [type(gm).__module__.split(".")[-1], type(gm).__name__]})
            else:
                raise MachineryError("unknown flow step %r" % (st,))
    finally:
        rec.uninstall()
    return {"id": job["id"], "flow": job["flow"], "events": rec.events, "viol": [], "ncmp": len(rec.events), "flowrec": True}


def validate_flows(ck, recs):
    """Trace_KSSession must accept every recorded flow; binding self-test: a corrupted event must be rejected."""
    import copy
    res = validate_records("Trace_KSSession", "Trace_KSSession.cfg", [{"id": r["id"], "events": r["events"]} for r in recs], nchunks=len(recs), timeout=900)
    ck.traces += res["accepted"]
    ck.states += res["states"]
    ck.transitions += res["generated"]
    for rid, inv in res["rejected"]:
        rc = next(x for x in recs if x["id"] == rid)
        if inv in ("GeneratorNotStale", "EvaluationSucceeds", "GeneratorCurrent", "SDMXCurrent"):
            ck.violation("session-trace:%s:%s" % (rc["flow"], inv), {"flow": rc["flow"], "clause": inv, "events": [e["ev"] for e in rc["events"]]},
                         replay={"flow": rc["flow"]})
        else:
            # the code no longer follows the specification in a way that does not bear on the answers (class names, which
            # objects are replaced, needless re-creation, outcome of blocked methods): model drift, reported as a note
            ck.notes.append("KSSession model drift in flow %s: %s" % (rc["flow"], inv))
            ck.extra.setdefault("session_model_drift", []).append({"flow": rc["flow"], "clause": inv})
    ck.extra["session_flows_validated"] = {r["flow"]: len(r["events"]) for r in recs}
    # self-test: (a) claim a generator was kept where the specification re-creates it, (b) drop the Build events
    cand = None
    for r in recs:
        for k in range(1, len(r["events"])):
            e, pe = r["events"][k], r["events"][k - 1]
            if e["ev"] == "NrCall" and e["post"]["err"] == "ok" and e["post"]["genpresent"] and not e["post"]["gensame"] \
                    and "post" in pe and pe["post"]["genpresent"] and e["post"]["nisame"]:
                cand = (r, k)
    if cand is None:
        if ck.violations:
            # the tree under test already violates the property in these flows (e.g. it never re-creates the generator):
            # the self-test has nothing to corrupt; the violations above stand
            ck.extra["session_trace_selftest"] = "skipped: no recorded flow re-creates an existing NLDF generator (violations reported)"
            return
        raise MachineryError("self-test: no recorded flow re-creates an existing NLDF generator")
    r, k = cand
    bad = {"id": "selftest-a", "events": copy.deepcopy(r["events"])}
    bad["events"][k]["post"]["gensame"] = True
    bad2 = {"id": "selftest-b", "events": [e for e in copy.deepcopy(r["events"]) if e["ev"] != "Build"]}
    st = validate_records("Trace_KSSession", "Trace_KSSession.cfg", [bad, bad2], nchunks=2, timeout=600)
    rej = dict(st["rejected"])
    if "selftest-a" not in rej or "selftest-b" not in rej:
        raise MachineryError("self-test: corrupted KS-session trace accepted (%s)" % (st["rejected"],))
    ck.extra["session_trace_selftest"] = "a flow claiming a kept generator after a grid rebuild, and the same flow without its Build events, are rejected: %s" % (sorted(rej.items()),)
