"""Shared machinery for the FeatureAlgebra specification (C03, C13, C18):
run TLC on the live tables, parse every configuration state it visits, build the REAL settings
object for the state and project it onto the specification's attributes."""
import cvload  # noqa: F401
import os
import shutil

import numpy as np

from common import MachineryError, RawTLA, run_tlc, stage_spec, tlc_printed_values, to_tla, write_live_module
from ciderpress.dft import settings as S
from ciderpress.dft.feat_normalizer import ConstantNormalizer, DensityNormalizer, GeneralNormalizer, InhomogeneityNormalizer

TH = {2: [1.0, 0.03125], 3: [1.0, 0.0, 0.03125], 4: [1.0, 0.0, 0.03125, 0.5]}
JP = {2: [2.0, 0.04], 3: [2.0, 0.0, 0.04], 4: [2.0, 0.0, 0.04, 1.2]}


def run_model(tier, seed, coverage=False):
    d = stage_spec([])
    try:
        write_live_module("Live_FeatureAlgebra", {
            "LiveSpecUspsDef": RawTLA("(" + " @@ ".join("%s :> %d" % (to_tla(k), v) for k, v in S.SPEC_USPS.items()) + ")"),
            "LiveRhoMultUspsDef": RawTLA("(" + " @@ ".join("%s :> %d" % (to_tla(k), v) for k, v in S.RHO_MULT_USPS.items()) + ")")}, d)
        fam = "QuickCfgs" if tier == "quick" else "FullCfgs"
        with open(os.path.join(d, "fa.cfg"), "w") as f:
            f.write("SPECIFICATION Spec\nCONSTANTS\n LiveSpecUsps <- LiveSpecUspsDef\n LiveRhoMultUsps <- LiveRhoMultUspsDef\n"
                    " Families <- %s\nINVARIANT LengthsAgree\nINVARIANT SLDeclaredMatchesDerived\nINVARIANT NormalisedPowerZero\n"
                    "INVARIANT Emit\n" % fam)
        r = run_tlc("MC_FeatureAlgebra", os.path.join(d, "fa.cfg"), workers=16, specdir=d, timeout=3000, heap="12g",
                    extra=["-continue"])
        if "<assumption>" in r.violated:
            # the live tables contradict the dimension algebra: report it, and still explore every
            # configuration with the tables as they are
            mp = os.path.join(d, "MC_FeatureAlgebra.tla")
            txt = open(mp).read().replace("ASSUME DeclaredMatchesDerived", "")
            with open(mp, "w") as fh:
                fh.write(txt)
            r2 = run_tlc("MC_FeatureAlgebra", os.path.join(d, "fa.cfg"), workers=16, specdir=d, timeout=3000, heap="12g",
                         extra=["-continue"])
            r2.violated = ["<assumption>"] + r2.violated
            r = r2
    finally:
        shutil.rmtree(d, ignore_errors=True)
    if r.error and not r.violated:
        raise MachineryError("TLC: " + r.error)
    states = tlc_printed_values(r.out, "CFG")
    if len(states) < 100:
        raise MachineryError("TLC emitted only %d configurations\n%s" % (len(states), r.out[-2000:]))
    # [cfg, attr] pairs; the (few) configurations off the default semilocal mode come first so that a capped replay
    # never starves the mode x normaliser-class cross product (MC_FeatureAlgebra!SLNormCfgs)
    pairs = [(v[0], v[1]) for v in states]
    pairs.sort(key=lambda t: 0 if (t[0]["sl"] != "npa" and t[1]["valid"]) else 1)
    # ... and the rest is dealt round-robin over structural families (NLDF version, SDMX kind incl. the number of ratios of a
    # Full settings object, whether it has l=1 terms and several powers, fractional-Laplacian groups), so that a capped replay
    # reaches every family instead of exhausting the first ones TLC happened to print
    def family(t):
        c = t[0]
        sd = c["sdmx"]
        full = sd.get("full") or []
        fl = c["fl"]
        return (c["nldf"]["ver"] if c["nldf"] != [] else "-", sd["kind"], len(full),
                any(sum(e["cnt"][2:]) > 0 for e in full[:-1]) if full else False,
                any(len(set(e["pows"])) > 1 for e in full) if full else False,
                bool(fl["present"]), len(fl.get("lddots", [])) > 0, bool(t[1]["valid"]))
    head = [t for t in pairs if t[0]["sl"] != "npa" and t[1]["valid"]]
    rest = [t for t in pairs if not (t[0]["sl"] != "npa" and t[1]["valid"])]
    groups = {}
    for t in rest:
        groups.setdefault(family(t), []).append(t)
    order = []
    lists = [groups[k] for k in sorted(groups, key=repr)]
    i = 0
    while any(lists):
        for g in lists:
            if i < len(g):
                order.append(g[i])
        i += 1
        if i > max(len(g) for g in lists):
            break
    return r, head + order


def build_nldf(n):
    lvl = n["level"]
    theta = list(TH[n["theta_len"]])
    if not n["a0ok"]:
        theta[0] = 0.0
    if n.get("lastzero"):
        theta[-1] = 0.0
    dots = [tuple(d) for d in n["dots"]]
    jparams = [list(JP[k]) for k in n["jplens"]]
    v = n["ver"]
    if v == "i":
        return S.NLDFSettingsVI(lvl, theta, n["rho_mult"], list(n["l0"]), list(n["l1"]), dots)
    if v == "j":
        return S.NLDFSettingsVJ(lvl, theta, n["rho_mult"], list(n["jspecs"]), jparams)
    if v == "ij":
        return S.NLDFSettingsVIJ(lvl, theta, n["rho_mult"], list(n["l0"]), list(n["l1"]), dots, list(n["jspecs"]), jparams)
    if v == "k":
        return S.NLDFSettingsVK(lvl, theta, n["rho_mult"], jparams, "exponential")
    raise ValueError("version")


def build_sdmx(s):
    k = s["kind"]
    if k == "none":
        return None
    p = list(s["pows"])
    if k == "SDMX":
        return S.SDMXSettings(p)
    if k == "G":
        return S.SDMXGSettings(p, s["nd"])
    if k == "1":
        return S.SDMX1Settings(p, s["n1"])
    if k == "G1":
        return S.SDMXG1Settings(p, s["nd"], s["n1"])
    if k == "Full":
        # inserted in reverse order: the settings object has to sort by ratio itself
        return S.SDMXFullSettings({e["ratio10"] / 10.0: (list(e["pows"]), list(e["cnt"])) for e in reversed(list(s["full"]))})
    raise ValueError(k)


def sdmx_effective(s):
    """the model's (nd, n1) for kinds that ignore one of them"""
    k = s["kind"]
    return dict(s, nd=s["nd"] if k in ("G", "G1") else 0, n1=s["n1"] if k in ("1", "G1") else 0)


def build_fl(f):
    if not f["present"]:
        return None
    return S.FracLaplSettings([0.5 * x for x in f["s2"]], f["nk0"], f["nk1"], [tuple(d) for d in f["dots"]], nd1=f["nd1"], ld_dots=[tuple(d) for d in f.get("lddots", [])], ndd=f["ndd"])


def norm_kind(n):
    if n is None:
        return ["none"]
    if isinstance(n, ConstantNormalizer):
        return ["const"]
    if isinstance(n, DensityNormalizer):
        return ["dens", int(round(3 * n.power))]
    if isinstance(n, GeneralNormalizer):
        rho_pow2 = 2 * (n.power1 - 2.0 / 3 * n.power2)
        return ["gen", int(round(rho_pow2)), int(round(2 * n.power2))]
    if isinstance(n, InhomogeneityNormalizer):
        return ["inh", int(round(2 * n.power))]
    return ["?" + type(n).__name__]


def realize(cfg):
    """Build the real FeatureSettings for a spec configuration.
    Returns ('rejected', exception class name) or ('ok', settings)."""
    try:
        sl = S.SemilocalSettings(cfg["sl"])
        nldf = build_nldf(cfg["nldf"]) if cfg["nldf"] != [] else None
        sdmx = build_sdmx(cfg["sdmx"])
        fl = build_fl(cfg["fl"])
        st = S.FeatureSettings(sl_settings=sl, nldf_settings=nldf, nlof_settings=fl, sdmx_settings=sdmx)
    except Exception as ex:   # "raise an error": any exception class counts as a rejection
        return "rejected", type(ex).__name__
    return "ok", st


def project(st):
    """Projection of a real settings object onto the spec's attributes (except normalisers)."""
    usps = [float(u) for u in st.get_feat_usps()]
    return {"nfeat": int(st.nfeat), "loc": [int(x) for x in st.get_feat_loc()], "usps": usps}


def vk_cfg_is_modelled(cfg):
    """NLDFSettingsVK takes no spec list in this tree (all specs 'se'): only those states bind."""
    n = cfg["nldf"]
    if n == [] or n["ver"] != "k":
        return True
    return all(s == "se" for s in n["jspecs"]) and len(n["jspecs"]) == len(n["jplens"])
