"""C14 -- saved models and feature lists reload to objects that evaluate identically.
  M: spec/Registry.tla with Reg/Writes extracted from the live modules; TLC exhaustive
  R: every behaviour TLC enumerates (make / dump / corrupt / load cycles in every format) is
     replayed on real objects in a temp dir; after each step the projected state (Error or class)
     is compared with the specification's state and the reloaded object must evaluate bit-identically"""
import cvload  # noqa: F401
import copy
import os
import shutil
import sys

import joblib
import numpy as np
import yaml
import warnings
warnings.filterwarnings('ignore', message="'where' used without 'out'")

from common import (Check, MachineryError, RawTLA, main_wrapper, run_tlc, scratch_dir, stage_spec, tlc_printed_values,
                    to_tla, write_live_module)
import maps
from ciderpress.dft import transform_data as td
from ciderpress.dft.model_utils import load_cider_model
from ciderpress.dft.xc_evaluator import SplineSetEvaluator


def live_tables(rng):
    classes = [c.__name__ for c in td.ALL_CLASSES]
    reg = {("None" if k is None else str(k)): v.__name__ for k, v in td.ALL_CLASS_DICT.items()}
    writes = {}
    for c in td.ALL_CLASSES:
        writes[c.__name__] = str(maps.make(c, rng).as_dict().get("code"))
    return classes, reg, writes


def make_list(cls, rng):
    nraw = 5
    m = maps.make(cls, rng, nraw=nraw)
    return td.FeatureList([m, td.UMap(0, 0.5), td.VMap(1, 0.7, scale=1.3, center=0.1)]), nraw


def eval_list(fl, nraw, seed):
    rng = np.random.default_rng(seed)
    x = rng.uniform(0.05, 2.0, size=(17, nraw))
    y = fl(x.copy())
    d = np.zeros((nraw, 17))
    fl.fill_derivs_(d, rng.normal(size=(fl.nfeat, 17)), x.T.copy())
    return y.tobytes() + d.tobytes()


# index layouts of a spline-set evaluator (Registry!SplineShapes): the ORDER inside a term pairs feature columns with
# spline axes and is part of the object
SPLINE_SHAPES = {"asc": [[0], [1, 2]], "desc": [[1], [2, 0]], "single": [[2]], "perm3": [[2, 0, 1]], "both": [[0], [0, 1], [1, 0]]}
AXIS = {0: (0.0, 1.0, 7), 1: (0.0, 1.0, 5), 2: (-1.0, 1.0, 6)}     # axis grid of feature f


def make_spline(rng, shape="asc"):
    ind_sets = SPLINE_SHAPES[shape]
    grids = [[AXIS[f] for f in t] for t in ind_sets]
    coefs = [rng.normal(size=tuple(AXIS[f][2] + 2 for f in t)) for t in ind_sets]
    return SplineSetEvaluator(list(0.7 + 0.3 * np.arange(len(ind_sets))), [list(t) for t in ind_sets], grids, coefs, const=0.25)


def spline_shape_of(ev):
    got = [[int(i) for i in t] for t in ev.ind_sets]
    return next((k for k, v in SPLINE_SHAPES.items() if v == got), "?" + repr(got))


def eval_spline(ev, seed):
    rng = np.random.default_rng(seed)
    X = np.column_stack([rng.uniform(0, 1, 23), rng.uniform(0, 1, 23), rng.uniform(-1, 1, 23)])
    r, dr = ev(X)
    return r.tobytes() + dr.tobytes()


ANALYZER_SHAPES = ["RHFAnalyzer@0", "RHFAnalyzer@1", "RHFAnalyzer@3", "UHFAnalyzer@0", "UHFAnalyzer@2"]
_SCF = {}


def make_analyzer(shape, tag):
    """an analyzer of a converged small calculation at the grid level of the shape, with stored grid data and a tag"""
    import models as M
    from pyscf import dft
    from ciderpress.pyscf import analyzers as an
    cname, lvl = shape.split("@")
    if cname not in _SCF:
        mol = M.make_mol("H2O" if cname == "RHFAnalyzer" else "OH")
        ks = dft.RKS(mol) if cname == "RHFAnalyzer" else dft.UKS(mol)
        ks.xc = "PBE"
        ks.grids.level = 0
        ks.kernel()
        _SCF[cname] = ks
    ks = _SCF[cname]
    ana = getattr(an, cname)(ks.mol.copy(), ks.make_rdm1(), grids_level=int(lvl), mo_occ=ks.mo_occ, mo_coeff=ks.mo_coeff, mo_energy=ks.mo_energy)
    ana.get_rho_data()
    ana.set("tag", float(tag))
    return ana


def analyzer_shape_of(ana):
    return "%s@%d" % (type(ana).__name__, int(ana.grids_level))


def eval_analyzer(ana):
    """what the reloaded object evaluates to: its grid, the density data recomputed on it, and everything it stored"""
    import hashlib
    h = hashlib.sha1()
    h.update(np.ascontiguousarray(ana.grids.weights).tobytes())
    h.update(np.ascontiguousarray(ana.grids.coords).tobytes())
    h.update(np.ascontiguousarray(ana.get_rho_data(overwrite=True)).tobytes())
    for k in sorted(ana.keys()):
        h.update(k.encode())
        h.update(np.ascontiguousarray(np.asarray(ana.get(k), dtype=float)).tobytes())
    for a in (ana.dm, ana.mo_occ, ana.mo_coeff, ana.mo_energy):
        h.update(np.ascontiguousarray(np.asarray(a)).tobytes())
    return h.digest()


def make_model(cls, rng, kind):
    import models as M
    st = M.feature_settings("npa", "j", "none")
    if kind % 2 == 0:
        model = M.make_model(st, seed=int(rng.integers(1 << 30)), mode="SEP", evaluator="rbf")
    else:
        model = M.make_model(st, seed=int(rng.integers(1 << 30)), mode="NPOL", evaluator="kernel")
    # put the class under test into the model's feature list as an extra (unused-by-kernel) map is not
    # possible without changing N1; instead replace the first map when the class takes one index
    return model, st.nfeat


def eval_model(model, nfeat, seed):
    rng = np.random.default_rng(seed)
    X0T = rng.uniform(0.1, 1.5, size=(1, nfeat, 11))
    r, dr = model(X0T.copy(), rhocut=1e-9)
    return np.asarray(r).tobytes() + np.asarray(dr).tobytes()


class Replayer:
    def __init__(self, tmp, seed):
        self.tmp = tmp
        self.seed = seed
        self.n = 0

    def run(self, hist):
        """returns list of (step, expectation-free projection) and list of problems"""
        rng = np.random.default_rng(self.seed)
        self.hid = getattr(self, "hid", 0) + 1
        obj, kind, cls, aux = None, None, None, None
        file = None
        ref_eval = None
        first_dump = {}
        proj, problems = [], []
        for step, op in enumerate(hist):
            name = op[0]
            try:
                if name == "make":
                    kind, cls = op[1], op[2]
                    c = getattr(td, cls) if kind not in ("spline", "analyzer") else None
                    if kind == "list":
                        obj, aux = make_list(c, rng)
                        ref_eval = eval_list(obj, aux, self.seed)
                    elif kind == "spline":
                        obj = make_spline(rng, cls)
                        ref_eval = eval_spline(obj, self.seed)
                    elif kind == "analyzer":
                        obj = make_analyzer(cls, 1)
                        ref_eval = eval_analyzer(obj)
                    else:
                        obj, aux = make_model(c, rng, step + len(hist))
                        ref_eval = eval_model(obj, aux, self.seed)
                elif name == "renew":
                    # same kind and class, new parameters (the next dump overwrites the same path)
                    c = getattr(td, cls) if kind not in ("spline", "analyzer") else None
                    if kind == "list":
                        obj, aux = make_list(c, rng)
                        ref_eval = eval_list(obj, aux, self.seed)
                    elif kind == "spline":
                        obj = make_spline(rng, cls)
                        ref_eval = eval_spline(obj, self.seed)
                    elif kind == "analyzer":
                        obj = make_analyzer(cls, 2 + step)          # same calculation and level, other stored data
                        ref_eval = eval_analyzer(obj)
                    else:
                        obj, aux = make_model(c, rng, step + len(hist) + 7)
                        ref_eval = eval_model(obj, aux, self.seed)
                    first_dump = {}
                elif name == "dump":
                    fmt = op[1]
                    if kind == "analyzer":
                        from ciderpress.pyscf.analyzers import recursive_remove_none
                        if fmt == "dict":
                            file = ("dict", copy.deepcopy(obj.as_dict()))
                        else:
                            p = os.path.join(self.tmp, "a_%d.hdf5" % self.hid)
                            obj.dump(p)
                            file = ("hdf5", p)
                        key = None
                    elif fmt == "dict":
                        d = obj.as_dict() if kind == "list" else obj.to_dict()
                        file = ("dict", copy.deepcopy(d))
                        key = repr(sorted(d.items(), key=str)) if kind == "list" else None
                    else:
                        p = os.path.join(self.tmp, "a_%d.yaml" % self.hid)     # ONE path per behaviour: later dumps overwrite it
                        obj.dump(p)
                        file = ("yaml", p)
                        key = open(p, "rb").read()
                    if key is not None:
                        if (kind, fmt) in first_dump and first_dump[(kind, fmt)] != key:
                            problems.append((step, "dump after load is not identical to the first dump (%s)" % fmt))
                        first_dump.setdefault((kind, fmt), key)
                elif name in ("corrupt", "alias") and kind == "analyzer":
                    from pyscf import lib as pylib
                    new = "Bogus" if name == "corrupt" else {"RHF": "RKS", "UHF": "UKS"}[file[1]["atype"] if file[0] == "dict" else None or
                                                                                       str(np.asarray(pylib.chkfile.load(file[1], "analyzer/atype")).item().decode()
                                                                                           if isinstance(np.asarray(pylib.chkfile.load(file[1], "analyzer/atype")).item(), bytes)
                                                                                           else np.asarray(pylib.chkfile.load(file[1], "analyzer/atype")).item())]
                    if file[0] == "dict":
                        file[1]["atype"] = new
                    else:
                        import h5py
                        with h5py.File(file[1], "r+") as f5:
                            del f5["analyzer/atype"]
                            f5["analyzer/atype"] = new
                elif name == "corrupt":
                    if file[0] == "dict":
                        file[1]["feat_list"][0]["code"] = "Bogus"
                    else:
                        d = yaml.load(open(file[1]), Loader=yaml.Loader)
                        d["feat_list"][0]["code"] = "Bogus"
                        yaml.dump(d, open(file[1], "w"))
                elif name == "load" and kind == "analyzer":
                    from ciderpress.pyscf.analyzers import ElectronAnalyzer
                    obj = ElectronAnalyzer.from_dict(copy.deepcopy(file[1])) if file[0] == "dict" else ElectronAnalyzer.load(file[1])
                elif name == "load":
                    tcls = td.FeatureList if kind == "list" else SplineSetEvaluator
                    obj = tcls.from_dict(copy.deepcopy(file[1])) if file[0] == "dict" else tcls.load(file[1])
                elif name == "dumpmodel":
                    fmt, sfx = op[1], op[2]
                    p = os.path.join(self.tmp, "m_%d%s" % (self.hid, sfx))     # one path per (behaviour, suffix), overwritten
                    if fmt == "yaml":
                        with open(p, "w") as f:
                            yaml.dump(obj, f, Dumper=yaml.CDumper)
                    else:
                        joblib.dump(obj, p)
                    file = (fmt, p)
                elif name == "loadmodel":
                    fmt = op[1]
                    if getattr(self, "cross", False) and kind == "model":
                        # the artifact is the ONLY channel between the dumping and the loading side: reload it in a fresh
                        # interpreter first (nothing of the original object's process state can leak through)
                        import hashlib
                        import subprocess
                        pr = subprocess.run([sys.executable, os.path.join(os.path.dirname(os.path.abspath(__file__)), "c14_child.py"),
                                             file[1], fmt, str(aux), str(self.seed)], capture_output=True, text=True, timeout=600,
                                            env=dict(os.environ, OMP_NUM_THREADS="1"))
                        out = (pr.stdout or "").strip().splitlines()
                        last = out[-1] if out else ""
                        self.ncross = getattr(self, "ncross", 0) + 1
                        if pr.returncode != 0:
                            problems.append((step, "reload in a fresh process died (return code %d)" % pr.returncode))
                            break
                        if last.startswith("SHA:") and last[4:] != hashlib.sha1(ref_eval).hexdigest():
                            problems.append((step, "reload in a fresh process does not evaluate bit-identically"))
                            break
                    obj = load_cider_model(file[1], None if fmt == "infer" else fmt)
                else:
                    raise MachineryError("unknown op %r" % (op,))
            except MachineryError:
                raise
            except Exception as ex:
                if name in ("load", "loadmodel"):
                    obj = "ERROR:" + type(ex).__name__
                else:
                    problems.append((step, "%s raised %s: %s" % (name, type(ex).__name__, str(ex)[:200])))
                    break
            # projection after the step
            if isinstance(obj, str):
                proj.append("error")
            else:
                if kind == "list":
                    pc = type(obj.feat_list[0]).__name__ if isinstance(obj, td.FeatureList) else "?"
                    same = isinstance(obj, td.FeatureList) and eval_list(obj, aux, self.seed) == ref_eval
                elif kind == "spline":
                    pc = spline_shape_of(obj) if isinstance(obj, SplineSetEvaluator) else "?"
                    same = isinstance(obj, SplineSetEvaluator) and eval_spline(obj, self.seed) == ref_eval
                elif kind == "analyzer":
                    pc = analyzer_shape_of(obj)
                    same = eval_analyzer(obj) == ref_eval
                else:
                    pc = cls
                    same = eval_model(obj, aux, self.seed) == ref_eval
                proj.append(pc)
                if not same:
                    problems.append((step, "reloaded object does not evaluate bit-identically"))
        return proj, problems


def spec_projection(hist, reg, writes):
    """What Registry.tla says the object is after each step (re-derived from the model's rules by
    replaying the printed history through the same constants; kept in lock-step with TLC by the
    RegistryConsistent / RoundTrip properties)."""
    out = []
    obj, file = None, None
    for op in hist:
        if op[0] == "make":
            obj = {"kind": op[1], "cls": op[2]}
        elif op[0] == "renew":
            pass
        elif op[0] == "dump":
            file = {"kind": obj["kind"], "fmt": op[1], "cls": obj["cls"],
                    "code": writes[obj["cls"]] if obj["kind"] == "list" else ("RHF" if obj["cls"].startswith("RHF") else "UHF") if obj["kind"] == "analyzer" else "spline"}
        elif op[0] == "corrupt":
            file["code"] = "Bogus"
        elif op[0] == "alias":
            file["code"] = {"RHF": "RKS", "UHF": "UKS"}[file["code"]]
        elif op[0] == "load":
            if file["kind"] == "analyzer":
                fam = {"RHF": "R", "RKS": "R", "UHF": "U", "UKS": "U"}.get(file["code"])
                obj = {"kind": "analyzer", "cls": file["cls"]} if fam == file["cls"][0] else "error"
            elif file["kind"] == "spline":
                obj = {"kind": "spline", "cls": file["cls"]}
            elif file["code"] in reg:
                obj = {"kind": "list", "cls": reg[file["code"]]}
            else:
                obj = "error"
        elif op[0] == "dumpmodel":
            file = {"kind": "modelfile" if obj["kind"] == "model" else "listfile", "fmt": op[1], "cls": obj["cls"], "suffix": op[2]}
        elif op[0] == "loadmodel":
            f = op[1]
            rf = ({".yaml": "yaml", ".joblib": "joblib"}.get(file["suffix"], "unsupported") if f == "infer"
                  else (f if f in ("yaml", "joblib") else "unsupported"))
            if rf == "unsupported" or rf != file["fmt"] or file["kind"] != "modelfile":
                obj = "error"
            else:
                obj = {"kind": "model", "cls": file["cls"]}
        out.append("error" if obj == "error" else obj["cls"])
    return out


def main():
    ck = Check("C14", "model_checking")
    rng = np.random.default_rng(ck.seed)
    ck.rule = ("behaviour = make(kind, class) followed by dump/corrupt/load cycles (<= 2 loads quick, 3 thorough) in every "
               "format, enumerated exhaustively by TLC over the live registry; every behaviour for the coded artifacts and a "
               "stratified set for whole models is replayed on real objects; distinct = behaviour; non-trivial = at least one load")
    classes, reg, writes = live_tables(rng)
    d = stage_spec([])
    try:
        write_live_module("Live_Registry", {
            "LiveClasses": set(classes), "LiveRegCodes": set(reg.keys()), "LiveSplineShapes": set(SPLINE_SHAPES),
            "LiveAnalyzerShapes": set(ANALYZER_SHAPES),
            "LiveAWrites": RawTLA("(" + " @@ ".join("%s :> %s" % (to_tla(k), to_tla("RHF" if k.startswith("RHF") else "UHF")) for k in ANALYZER_SHAPES) + ")"),
            "LiveAFamily": RawTLA("(" + " @@ ".join("%s :> %s" % (to_tla(k), to_tla(k[0])) for k in ANALYZER_SHAPES) + ")"),
            "LiveAReg": RawTLA('("RHF" :> "R" @@ "RKS" :> "R" @@ "UHF" :> "U" @@ "UKS" :> "U")'),
            "LiveAAlias": RawTLA('("RHF" :> "RKS" @@ "UHF" :> "UKS")'),
            "LiveReg": RawTLA("(" + " @@ ".join("%s :> %s" % (to_tla(k), to_tla(v)) for k, v in reg.items()) + ")"),
            "LiveWrites": RawTLA("(" + " @@ ".join("%s :> %s" % (to_tla(k), to_tla(v)) for k, v in writes.items()) + ")"),
        }, d)
        with open(os.path.join(d, "MC_Registry.tla"), "w") as f:
            f.write("---- MODULE MC_Registry ----\nEXTENDS Registry, Live_Registry\n====\n")
        maxc = 2 if ck.tier == "quick" else 3
        with open(os.path.join(d, "MC_Registry.cfg"), "w") as f:
            f.write("SPECIFICATION Spec\nCONSTANTS\n Classes <- LiveClasses\n RegCodes <- LiveRegCodes\n Reg <- LiveReg\n"
                    " Writes <- LiveWrites\n SplineShapes <- LiveSplineShapes\n AnalyzerShapes <- LiveAnalyzerShapes\n AWrites <- LiveAWrites\n AReg <- LiveAReg\n"
                    " AFamily <- LiveAFamily\n AAlias <- LiveAAlias\n MaxCycles = %d\nINVARIANT RegistryConsistent\nINVARIANT Emit\nPROPERTY RoundTrip\n"
                    "PROPERTY UnknownCodeRejected\nPROPERTY BadFormatRejected\nPROPERTY SoundLoadSucceeds\nPROPERTY AliasLoads\n" % maxc)
        r = run_tlc("MC_Registry", os.path.join(d, "MC_Registry.cfg"), workers=8, specdir=d, timeout=3000, coverage=True)
        first = r
        if "RegistryConsistent" in r.violated:
            # constant-level inconsistency of the live tables: report it, then explore the behaviours anyway
            txt = open(os.path.join(d, "MC_Registry.cfg")).read().replace("INVARIANT RegistryConsistent\n", "")
            open(os.path.join(d, "MC_Registry.cfg"), "w").write(txt)
            r = run_tlc("MC_Registry", os.path.join(d, "MC_Registry.cfg"), workers=8, specdir=d, timeout=3000, coverage=True,
                        extra=["-continue"])
            r.violated = list(dict.fromkeys(first.violated + r.violated))
            r.error = None
    finally:
        pass
    if r.error:
        raise MachineryError("TLC: " + r.error)
    ck.add_tlc("Registry(live tables)", r, require_actions=("DumpCoded", "LoadCoded", "Corrupt", "DumpModel", "LoadModel"))
    ck.exhaustive = True
    ck.log("model: %s" % r)
    for v in r.violated:
        bad = [c for c in classes if writes[c] not in reg or reg[writes[c]] != c]
        ck.violation("registry:%s:%s" % (v, ",".join(bad) or "-"), {"reg": reg, "writes": writes, "inconsistent_classes": bad})
    hists = tlc_printed_values(r.out, "HIST")
    shutil.rmtree(d, ignore_errors=True)
    if not hists and not r.violated:
        raise MachineryError("TLC printed no behaviours")
    # ---- select behaviours: all for kind=list (class matters), stratified for spline/model
    seen, chosen = set(), []
    for h in hists:
        kind, cls = h[0][1], h[0][2]
        shape = tuple(tuple(o) for o in h[1:])
        key = (kind, cls if kind in ("list", "spline", "analyzer") else "*", shape)
        if key in seen:
            continue
        seen.add(key)
        chosen.append(h)
    if ck.tier == "quick":
        # every class with every list behaviour is ~ 21 x 100; cap deterministically
        lists = [h for h in chosen if h[0][1] in ("list", "spline", "analyzer")]
        others = [h for h in chosen if h[0][1] not in ("list", "spline", "analyzer")]
        import random
        rnd = random.Random(ck.seed)
        rnd.shuffle(others)
        byc = {}
        for h in lists:
            byc.setdefault(h[0][2], []).append(h)
        lists = []
        for c, hs in sorted(byc.items()):
            rnd.shuffle(hs)
            lists += hs[:40]
        chosen = lists + others[:120]
    tmp = scratch_dir("c14")
    rp = Replayer(tmp, ck.seed)
    ncross_want = 10 if ck.tier == "quick" else 60
    nload = 0
    nana = [0, 0, 0]
    try:
        for h in chosen:
            # a stratified handful of whole-model behaviours also reload in a FRESH interpreter (driver-side dimension)
            rp.cross = (h[0][1] == "model" and any(o[0] == "loadmodel" for o in h) and getattr(rp, "ncross", 0) < ncross_want
                        and spec_projection(h, reg, writes)[-1] != "error")
            proj, problems = rp.run(h)
            exp = spec_projection(h, reg, writes)
            if h[0][1] == "analyzer":
                nana[0] += 1
                nana[1] += sum(1 for o, e_ in zip(h, exp) if o[0] == "load" and e_ != "error")
                nana[2] += sum(1 for o, e_ in zip(h, exp) if o[0] == "load" and e_ == "error")
            nontrivial = any(o[0] in ("load", "loadmodel") for o in h)
            ck.count(key=repr(h) if nontrivial else None)
            nload += sum(1 for o in h if o[0] in ("load", "loadmodel"))
            kind, cls = h[0][1], h[0][2]
            for step, (a, b) in enumerate(zip(proj, exp)):
                if a != b:
                    what = "accepted-but-should-reject" if b == "error" else ("rejected-own-dump" if a == "error" else "wrong-class")
                    ck.violation("%s:%s:%s:%s" % (kind, cls if kind in ("list", "spline", "analyzer") else "*", h[step][0], what),
                                 {"history": h, "step": step, "impl": a, "spec": b}, replay={"hist": h})
                    break
            for step, msg in problems:
                ck.violation("%s:%s:%s" % (kind, cls if kind in ("list", "spline", "analyzer") else "*", msg.split(":")[0].split("(")[0].strip()),
                             {"history": h, "step": step, "msg": msg}, replay={"hist": h})
            if len(ck.samples) < 4 and nontrivial:
                ck.sample({"history": h, "impl_projection": proj, "spec_projection": exp})
    finally:
        shutil.rmtree(tmp, ignore_errors=True)
    ck.traces = len(chosen)
    ck.extra["behaviours_enumerated_by_tlc"] = len(hists)
    ck.extra["loads_replayed"] = nload
    ck.extra["analyzer_behaviours"] = "%d behaviours, %d successful reloads (dict and hdf5, own code and alias), %d rejected reloads (unknown calculation type)" % tuple(nana)
    if nana[1] < 10 or nana[2] < 2:
        raise MachineryError("vacuous: analyzer reloads %s" % nana)
    ck.extra["loads_in_a_fresh_interpreter"] = getattr(rp, "ncross", 0)
    # binding self-test: a wrong projection must be noticed
    h0 = next((h for h in chosen if h[0][1] == "list" and any(o[0] == "load" for o in h)), None)
    if h0 is None:
        raise MachineryError("no list behaviour with a load was replayed")
    try:
        wrong = spec_projection(h0, reg, {k: "Bogus" for k in writes})
    except TypeError:
        wrong = None
    if wrong == rp.run(h0)[0]:
        raise MachineryError("self-test: projection comparison is vacuous")
    ck.assumptions = ["yaml (CDumper/CLoader) and joblib as installed", "NNEvaluator (torch) not covered",
                      "evaluators whose to_dict raises NotImplementedError (Kernel/RBF/GlobalLinear, MappedDFTKernel) do not declare serialisation"]
    return ck.finish()


if __name__ == "__main__":
    if len(sys.argv) > 2 and sys.argv[1] == "--replay":
        import json
        rp_ = json.load(open(sys.argv[2]))
        tmp = scratch_dir("c14r")
        for occ in rp_["occurrences"][:3]:
            print(Replayer(tmp, 0).run(occ["replay"]["hist"]))
        shutil.rmtree(tmp, ignore_errors=True)
        sys.exit(0)
    main_wrapper(main)
