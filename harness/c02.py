"""C02 -- fast nonlocal feature evaluation reproduces the documented feature definitions.
  M: spec/FeatureChain.tla on LIVE tables: the spec-name -> C id -> routine chain (VJ_ID_MAP, VI_ID_MAP,
     IFEAT_ID_TO_CONTRIB from the imported modules; enum values, the two featid switches, the
     integral-routine if/else chain and feat_orders parsed from the C sources of the working tree) must
     resolve every documented name to the documented routine; pipeline of one evaluation with the
     documented output order; TLC enumerates the case space of the property's quantifier
  R: every TLC case is evaluated with the real generator and with harness/c02ref.py (direct O(N^2)
     quadrature of the documented integrals, nothing from CiderPress): density-weighted L2 discrepancy per
     feature at each rung of a refinement ladder (exponent ladder ratio, auxiliary basis and angular
     cut-off refined together), the three interpolators against each other, fast vs slow SDMX,
     get_descriptors (training path) against the same reference
  T: the observed discrepancy ladders are validated by Trace_FeatureChain (per-rung bounds, tightening,
     cross-path agreement, number of features = documented order)"""
import cvload  # noqa: F401
import itertools
import os
import re
import shutil
import sys

import numpy as np

import models as M
from common import (handle_crash, Check, MachineryError, RawTLA, main_wrapper, run_tlc, run_workers, stage_spec, tlc_printed_values, to_tla,
                    validate_records, worker_main, write_live_module)

REPO = os.environ.get("CIDER_REPO", "/repo")

# refinement ladder: (aux_lambd, angular cut-off of the CiderGrids expansion); bound on the weighted L2 error
NLDF_RUNGS = [dict(aux_lambd=2.2, lmax=6), dict(aux_lambd=1.6, lmax=10), dict(aux_lambd=1.45, lmax=12)]
NLDF_BOUND = [8e-2, 3e-2, 1e-2]
NLDF_BOUND_HEAVY = [1.2e-1, 4.5e-2, 4.5e-2]   # second-row atoms: the l=1 se_rvec terms carry a 1-3 % atomic-auxiliary-basis error that
NLDF_FLOOR = 5e-3                              # moves non-monotonically with aug_beta; light systems carry the deciding bound
LIGHT = ("HeH+", "H2", "He", "LiH")         # compact closed-shell densities in 6-31g: the expansion is accurate to ~1e-3
SDMX_RUNGS = [dict(lambd=2.4, extra=0), dict(lambd=1.8, extra=0), dict(lambd=1.8, extra=6)]
SDMX_BOUND = [1.5e-1, 1.5e-1, 1e-2]      # the default ladder stops at the largest basis exponent: l=1, j=2 terms on heavy atoms are
SDMX_FLOOR = 5e-3                      # truncated at the few-% level; the extended ladder (rung 2) carries the deciding bound
CROSS_BOUND = 5e-3        # interpolators against each other (weighted L2)
PPM = 1e6


# --------------------------------------------------------------------------------------------------
# live tables
# --------------------------------------------------------------------------------------------------
def parse_c_tables():
    """enum values, featid switches, integral routines and l shifts from the C sources of the working tree"""
    notes = []
    src = open(os.path.join(REPO, "ciderpress/lib/mod_cider/cider_coefs.c")).read()
    cenum = {int(v): k for k, v in re.findall(r"#define\s+CIDER_FEAT_(\w+)\s+(\d+)", src)}

    def switch(fn, loop):
        m = re.search(r"void\s+%s\s*\(.*?\n}\n" % fn, src, flags=re.S)
        if not m:
            return None
        body = m.group(0)
        return dict(re.findall(r"case\s+CIDER_FEAT_(\w+)\s*:\s*(?:#pragma[^\n]*\n\s*)?%s\((\w+)\)" % loop, body))
    gq, qg = switch("cider_coefs_gto_gq", "CIDER_GQ_LOOP"), switch("cider_coefs_gto_qg", "CIDER_QG_LOOP")
    src2 = open(os.path.join(REPO, "ciderpress/lib/mod_cider/convolutions.c")).read()
    m = re.search(r"void\s+generate_atc_integrals_vi\s*\(.*?\n}\n", src2, flags=re.S)
    cint = {int(k): v for k, v in re.findall(r"featid\s*==\s*(\d+)\s*\)\s*integral_func\s*=\s*&(\w+)\s*;", m.group(0))} if m else {}
    corder = {k: 0 for k in cint}
    for cond, val in re.findall(r"if\s*\(([^{}]*icontrib_ids\[ia\][^{}]*)\)\s*\{\s*ccl->feat_orders\[offset\]\s*=\s*(-?\d+)\s*;", src2):
        for k in re.findall(r"==\s*(\d+)", cond):
            corder[int(k)] = int(val)
    if not cenum or not gq or not qg or len(cint) < 8:
        notes.append("C sources could not be parsed into id tables; static chain undecided, numerical comparison still decides")
        return None, notes
    return dict(cenum=cenum, gq=gq, qg=qg, cint=cint, corder=corder), notes


def fn(d, key=to_tla):
    return RawTLA("(" + " @@ ".join("%s :> %s" % (key(k), to_tla(v)) for k, v in d.items()) + ")") if d else RawTLA("<<>>")


def live_defs(ctab):
    from ciderpress.dft import plans, settings
    from ciderpress.dft.lcao_convolutions import IFEAT_ID_TO_CONTRIB
    contrib = {k: (list(v) if isinstance(v, (tuple, list)) else [v]) for k, v in IFEAT_ID_TO_CONTRIB.items()}
    d = {"LiveVJ": fn(plans.VJ_ID_MAP), "LiveVI": fn(plans.VI_ID_MAP), "LiveContrib": fn(contrib),
         "LiveAllowedJ": set(settings.ALLOWED_J_SPECS), "LiveAllowedI0": set(settings.ALLOWED_I_SPECS_L0),
         "LiveAllowedI1": set(settings.ALLOWED_I_SPECS_L1),
         "LiveJSeq": list(settings.ALLOWED_J_SPECS), "LiveI0Seq": list(settings.ALLOWED_I_SPECS_L0),
         "LiveI1Seq": list(settings.ALLOWED_I_SPECS_L1)}
    if ctab:
        d.update({"LiveCEnum": fn(ctab["cenum"]), "LiveGQ": fn(ctab["gq"]), "LiveQG": fn(ctab["qg"]),
                  "LiveCIntegral": fn(ctab["cint"]), "LiveCOrder": fn(ctab["corder"])})
    return d


def run_model(ck):
    ctab, notes = parse_c_tables()
    for n in notes:
        ck.log("NOTE: " + n)
        ck.extra.setdefault("notes", []).append(n)
    d = stage_spec([])
    try:
        write_live_module("Live_FeatureChain", live_defs(ctab), d)
        static = "INVARIANT ChainJ\nINVARIANT ChainI\nINVARIANT Orders\nINVARIANT ResolvedRight\n" if ctab else ""
        consts = (" CEnum <- LiveCEnum\n CSwitchGQ <- LiveGQ\n CSwitchQG <- LiveQG\n CIntegral <- LiveCIntegral\n COrder <- LiveCOrder\n" if ctab else
                  " CEnum <- Empty\n CSwitchGQ <- Empty\n CSwitchQG <- Empty\n CIntegral <- Empty\n COrder <- Empty\n")
        with open(os.path.join(d, "fc.cfg"), "w") as f:
            f.write("SPECIFICATION Spec\nCONSTANTS\n VJ <- LiveVJ\n VI <- LiveVI\n Contrib <- LiveContrib\n" + consts +
                    " AllowedJ <- LiveAllowedJ\n AllowedI0 <- LiveAllowedI0\n AllowedI1 <- LiveAllowedI1\n Cases <- CaseSpace\n" + static +
                    "INVARIANT Injective\nINVARIANT Documented\nINVARIANT WellFormedCase\nINVARIANT OutputOrder\nINVARIANT Emit\n")
        r = run_tlc("MC_FeatureChain", os.path.join(d, "fc.cfg"), workers=8, specdir=d, timeout=1200)
        r_cases = r
        if r.violated and not r.error:
            # TLC stops at the first violated invariant: enumerate the case space again without the static
            # chain invariants so that every case is still evaluated numerically
            txt = open(os.path.join(d, "fc.cfg")).read()
            for inv in ("ChainJ", "ChainI", "Orders", "ResolvedRight", "Injective", "Documented", "WellFormedCase", "OutputOrder"):
                txt = txt.replace("INVARIANT %s\n" % inv, "")
            with open(os.path.join(d, "fc2.cfg"), "w") as f:
                f.write(txt)
            r_cases = run_tlc("MC_FeatureChain", os.path.join(d, "fc2.cfg"), workers=8, specdir=d, timeout=1200)
    finally:
        shutil.rmtree(d, ignore_errors=True)
    if r.error:
        raise MachineryError("TLC: " + r.error)
    ck.add_tlc("FeatureChain(live tables)", r)
    for v in r.violated:
        ck.violation("model:FeatureChain:" + v, {"tables": {k: str(v_) for k, v_ in live_defs(ctab).items()}})
    cases = tlc_printed_values(r_cases.out, "CASE")
    uniq = {}
    for c in cases:
        uniq[repr(sorted((k, repr(v)) for k, v in c.items()))] = c
    return r, list(uniq.values()), ctab is not None


# --------------------------------------------------------------------------------------------------
# the implementation side
# --------------------------------------------------------------------------------------------------
FP = {"GGA": [[1.0, 0.02], [2.0, 0.01], [1.0, 0.0, 0.7]], "MGGA": [[1.0, 0.0, 0.03], [2.0, 0.01, 0.02], [1.0, 0.02, 0.01, 0.7]]}


def settings_of(case):
    from ciderpress.dft.settings import NLDFSettingsVI, NLDFSettingsVIJ, NLDFSettingsVJ, NLDFSettingsVK
    lvl, mult = case["level"], case["mult"]
    th = list(M.THETA[lvl])
    # one parameter set per j spec: plain exponents for the polynomial kernels, an erf multiplier for se_erf_rinv
    def params(specs):
        # a feature is a (spec, parameter set) pair: the n-th occurrence of a spec gets its own parameters
        out, seen = [], {}
        for k, s in enumerate(specs):
            occ = seen.get(s, 0)
            seen[s] = occ + 1
            p = list(FP[lvl][k % 2])
            if s == "se_erf_rinv":
                p = list(FP[lvl][2])
                p[-1] = p[-1] * (1.0 + 1.6 * occ)       # erf multiplier 0.7, 1.82
            p[0] = p[0] * (1.0 + 0.45 * occ)
            out.append(p)
        return out
    ver = case["ver"]
    dots = [tuple(d) for d in case["dots"]]
    if ver == "j":
        return NLDFSettingsVJ(lvl, th, mult, list(case["jspecs"]), params(case["jspecs"]))
    if ver == "k":
        return NLDFSettingsVK(lvl, th, mult, params(case["jspecs"]), "exponential")
    if ver == "i":
        return NLDFSettingsVI(lvl, th, mult, list(case["l0"]), list(case["l1"]), dots)
    return NLDFSettingsVIJ(lvl, th, mult, list(case["l0"]), list(case["l1"]), dots, list(case["jspecs"]), params(case["jspecs"]))


_SCF = {}


def density(name, spin):
    """physical densities: PBE SCF of a small molecule (restricted or unrestricted)"""
    key = (name, spin)
    if key not in _SCF:
        from pyscf import dft
        # LiH: the auxiliary basis is derived from the ORBITAL basis per angular momentum; with s-only hydrogen (6-31g) the diffuse bond
        # density assigned to H has no matching p/d auxiliary functions and a 2-4 % error remains that no public refinement
        # parameter reaches (DESIGN section 7); with a polarised basis the expansion is accurate to 1e-3 and the ladder decides
        base = name.split("@")[0]       # name@bohr: the same molecule with its geometry given in Bohr
        mol = M.make_mol(name, basis="def2-svp" if base == "LiH" else ("6-31g" if base in LIGHT else "sto-3g"))
        ks = dft.UKS(mol) if spin == "perspin" else dft.RKS(mol)
        ks.xc = "PBE"
        ks.grids.level = 1
        ks.conv_tol = 1e-9
        ks.kernel()
        _SCF[key] = (mol, np.asarray(ks.make_rdm1()))
    return _SCF[key]


def l2err(w, f, ref):
    num = ((w * (f - ref)) ** 2).sum(axis=-1)
    den = np.maximum(((w * ref) ** 2).sum(axis=-1), 1e-300)
    return np.sqrt(num / den)


def nldf_job(job):
    from pyscf.dft import numint as pni
    from ciderpress.pyscf.gen_cider_grid import CiderGrids
    from ciderpress.pyscf.nldf_convolutions import PySCFNLDFInitializer
    case = job["case"]
    st = settings_of(case)
    mol, dm = density(job["mol"], case["spin"])
    nspin = 2 if case["spin"] == "perspin" else 1
    dms = [dm] if nspin == 1 else [dm[0], dm[1]]
    out = {"id": job["id"], "rungs": [], "cross": 0.0, "nfeat": None, "viol": []}
    ref_cache = {}
    for rung in job["rungs"]:
        R = NLDF_RUNGS[rung]
        g = CiderGrids(mol, lmax=R["lmax"])
        g.level = job["grid_level"]
        g.build()
        npad = g.grids_indexer.padding
        ao = pni.eval_ao(mol, g.coords, deriv=1)
        errs, feats_by_interp = None, {}
        for interp in job["interps"]:
            gen = PySCFNLDFInitializer(st, plan_type=case["plan"], interpolator_type=interp, aux_lambd=R["aux_lambd"],
                                       alpha_formula=case["ladder"]).initialize_nldf_generator(mol, g.grids_indexer, nspin)
            gen.interpolator.set_coords(g.coords)
            per_spin = []
            for s, d in enumerate(dms):
                r = pni.eval_rho(mol, ao, d, xctype="MGGA", with_lapl=False)
                rho = np.zeros((5 if case["level"] == "MGGA" else 4, r.shape[1]))
                rho[:4] = r[:4]
                if case["level"] == "MGGA":
                    rho[4] = r[-1]
                feat = gen.get_features(rho.copy(), spin=s)
                n = rho[0] * nspin
                sel = np.where((n > 1e-3) & (np.arange(n.size) < n.size - npad))[0][:: job["stride"]]
                key = (rung, s)
                if key not in ref_cache:
                    import c02ref
                    # spin scaling: the per-spin feature is the feature of the density 2 rho_sigma
                    ref_cache[key] = c02ref.reference_features(st, g.coords, g.weights, rho * nspin, sel)
                ref = ref_cache[key]
                w = (g.weights * n)[sel]
                if feat.shape[0] != ref.shape[0]:
                    out["viol"].append({"site": "feature-count:%s" % case["ver"], "detail": {"got": int(feat.shape[0]), "documented": int(ref.shape[0])}})
                    return out
                per_spin.append((l2err(w, feat[:, sel], ref), feat[:, sel], w))
            e = np.max([p[0] for p in per_spin], axis=0)
            feats_by_interp[interp] = per_spin
            errs = e if errs is None else np.maximum(errs, e)
        out["rungs"].append({"rung": rung, "err": errs.tolist()})
        out["nfeat"] = int(len(errs))
        names = list(feats_by_interp)
        for a, b in itertools.combinations(names, 2):
            for pa, pb in zip(feats_by_interp[a], feats_by_interp[b]):
                out["cross"] = max(out["cross"], float(l2err(pa[2], pa[1], pb[1]).max()))
    return out


def sdmx_settings(kind, pows):
    from ciderpress.dft.settings import SDMX1Settings, SDMXFullSettings, SDMXG1Settings, SDMXGSettings, SDMXSettings
    n = len(pows)
    if kind == "SDMX":
        return SDMXSettings(pows), ["0"]
    if kind == "G":
        return SDMXGSettings(pows, n), ["0", "d"]
    if kind == "1":
        return SDMX1Settings(pows, n), ["0", "1"]
    if kind == "G1":
        return SDMXG1Settings(pows, n, n), ["0", "d", "1"]
    if kind == "Full":
        return SDMXFullSettings({1.0: (pows, [n, n, n, n])}), ["0", "d", "1", "1d"]
    if kind == "Full2":      # undocumented ratio != 1: only fast-vs-slow agreement is decided
        return SDMXFullSettings({1.0: (pows, [n, n, n, 0]), 2.0: (pows, [n, 0, n, n])}), None
    raise ValueError(kind)


def sdmx_job(job):
    import c02ref
    from pyscf import dft
    from pyscf.dft import numint as pni
    from ciderpress.pyscf import sdmx_slow
    from ciderpress.pyscf.sdmx import PySCFSDMXInitializer
    mol, dm = density(job["mol"], job["spin"])
    nspin = 2 if job["spin"] == "perspin" else 1
    pows = list(job["pows"])
    st, kinds = sdmx_settings(job["kind"], pows)
    g = dft.Grids(mol)
    g.level = job["grid_level"]
    g.build()
    ao = pni.eval_ao(mol, g.coords)
    dms = [dm] if nspin == 1 else [dm[0], dm[1]]
    out = {"id": job["id"], "rungs": [], "cross": 0.0, "nfeat": None, "viol": [], "alt1d": None, "doc1d": None}
    # total density for point selection; per-spin features are those of the density matrix 2 D_sigma
    ntot = sum(pni.eval_rho(mol, ao, d) for d in dms)
    sel = np.where(ntot > 1e-3)[0][:: job["stride"]]
    csel = np.ascontiguousarray(g.coords[sel])
    refs = []
    for d in dms:
        if kinds is None:
            refs.append(None)
            continue
        r = c02ref.sdmx_reference(mol, d * nspin, g.coords, g.weights, sel, pows, kinds=tuple(kinds))
        refs.append(r)
    w = (g.weights * ntot)[sel]

    def features(gen):
        f = gen.get_features(dm if nspin == 2 else dm, mol, csel)
        f = np.asarray(f)
        return f[None] if f.ndim == 2 else f
    for rung in job["rungs"]:
        R = SDMX_RUNGS[rung]
        gen0 = PySCFSDMXInitializer(st, lowmem=False, lambd=R["lambd"]).initialize_sdmx_generator(mol, nspin)
        kw = dict(lambd=R["lambd"], nalpha=gen0.plan.nalpha + R["extra"])
        gens = {"fast": PySCFSDMXInitializer(st, lowmem=False, **kw), "fast-lowmem": PySCFSDMXInitializer(st, lowmem=True, **kw),
                "slow": sdmx_slow.PySCFSDMXInitializer(st, **kw)}
        fs = {k: features(v.initialize_sdmx_generator(mol, nspin)) for k, v in gens.items()}
        f = fs["fast"]
        for k in ("fast-lowmem", "slow"):
            for s in range(nspin):
                out["cross"] = max(out["cross"], float(l2err(w, fs[k][s], f[s]).max()))
        if kinds is None:
            out["rungs"].append({"rung": rung, "err": [0.0] * f.shape[1]})
            out["nfeat"] = int(f.shape[1])
            continue
        errs = None
        for s in range(nspin):
            doc = np.concatenate([refs[s][k] for k in kinds])
            if doc.shape[0] != f.shape[1]:
                out["viol"].append({"site": "feature-count:sdmx-%s" % job["kind"], "detail": {"got": int(f.shape[1]), "documented": int(doc.shape[0])}})
                return out
            e = l2err(w, f[s], doc)
            if "1d" in kinds:
                # F28: the code integrates R^(4-j) |d(R rho1)/dR|^2 = documented H^1d + (j - 4) H^1.  The documented
                # comparison is reported separately (known finding); the characterised form must hold to the bound.
                n = len(pows)
                alt = np.array([refs[s]["1d"][i] + (pows[i] - 4) * refs[s]["1"][i] for i in range(n)])
                e_doc = e[-n:].copy()
                e[-n:] = l2err(w, f[s][-n:], alt)
                out["doc1d"] = max(out["doc1d"] or 0.0, float(e_doc.max()))
                out["alt1d"] = max(out["alt1d"] or 0.0, float(e[-n:].max()))
            errs = e if errs is None else np.maximum(errs, e)
        out["rungs"].append({"rung": rung, "err": errs.tolist()})
        out["nfeat"] = int(len(errs))
    return out


def descriptors_job(job):
    """the training path: ciderpress.pyscf.descriptors.get_descriptors (train_gen interpolator, own inner grid)"""
    import c02ref
    from pyscf.dft import numint as pni
    from ciderpress.pyscf.analyzers import RHFAnalyzer, UHFAnalyzer
    from ciderpress.pyscf.descriptors import get_descriptors
    mol, dm = density(job["mol"], job["spin"])
    nspin = 2 if job["spin"] == "perspin" else 1
    ana = (UHFAnalyzer if nspin == 2 else RHFAnalyzer)(mol, dm, grids_level=job["grid_level"])
    out = {"id": job["id"], "rungs": [], "cross": 0.0, "nfeat": None, "viol": []}
    coords, weights = ana.grids.coords, ana.grids.weights
    ao = pni.eval_ao(mol, coords, deriv=1)
    dms = [dm] if nspin == 1 else [dm[0], dm[1]]
    errs = None
    if job["fam"] == "nldf":
        st = settings_of(job["case"])
        desc = get_descriptors(ana, st, inner_grids_level=job["grid_level"])
        for s, d in enumerate(dms):
            r = pni.eval_rho(mol, ao, d * nspin, xctype="MGGA", with_lapl=False)
            rho = np.zeros((5 if job["case"]["level"] == "MGGA" else 4, r.shape[1]))
            rho[:4] = r[:4]
            if job["case"]["level"] == "MGGA":
                rho[4] = r[-1]
            sel = np.where(rho[0] > 1e-3)[0][:: job["stride"]]
            ref = c02ref.reference_features(st, coords, weights, rho, sel)
            e = l2err((weights * rho[0])[sel], desc[s][:, sel], ref)
            errs = e if errs is None else np.maximum(errs, e)
    else:
        st, kinds = sdmx_settings(job["kind"], list(job["pows"]))
        from ciderpress.pyscf.sdmx import PySCFSDMXInitializer
        R = SDMX_RUNGS[2]
        na = PySCFSDMXInitializer(st, lambd=R["lambd"]).initialize_sdmx_generator(mol, 1).plan.nalpha + R["extra"]
        desc = get_descriptors(ana, st, lambd=R["lambd"], nalpha=na)
        for s, d in enumerate(dms):
            n = pni.eval_rho(mol, ao[0], d * nspin)
            sel = np.where(n > 1e-3)[0][:: job["stride"]]
            r = c02ref.sdmx_reference(mol, d * nspin, coords, weights, sel, list(job["pows"]), kinds=tuple(kinds))
            e = l2err((weights * n)[sel], desc[s][:, sel], np.concatenate([r[k] for k in kinds]))
            errs = e if errs is None else np.maximum(errs, e)
    out["rungs"].append({"rung": 1 if job["fam"] == "nldf" else 2, "err": errs.tolist()})
    out["nfeat"] = int(len(errs))
    return out


def check(job):
    try:
        if job["fam"] == "descriptors-nldf" or job["fam"] == "descriptors-sdmx":
            j = dict(job)
            j["fam"] = job["fam"].split("-")[1]
            return descriptors_job(j)
        return nldf_job(job) if job["fam"] == "nldf" else sdmx_job(job)
    except Exception as ex:
        import traceback
        return {"id": job["id"], "rungs": [], "cross": 0.0, "nfeat": None,
                "viol": [{"site": "exception:%s:%s" % (type(ex).__name__, job["fam"]), "detail": {"msg": str(ex)[:300], "tb": traceback.format_exc()[-1500:]}}]}


# --------------------------------------------------------------------------------------------------
def pairwise(cases, keys, rng, want):
    def feats(c):
        vals = [(k, repr(c[k])) for k in keys]
        return {(a, b) for i, a in enumerate(vals) for b in vals[i + 1:]}
    pool = list(cases)
    rng.shuffle(pool)
    chosen, covered = [], set()
    allp = set().union(*[feats(c) for c in pool])
    while covered != allp and pool and len(chosen) < want:
        best = max(range(len(pool)), key=lambda i: len(feats(pool[i]) - covered))
        c = pool.pop(best)
        if not feats(c) - covered:
            break
        chosen.append(c)
        covered |= feats(c)
    return chosen, len(covered), len(allp)


def main():
    ck = Check("C02", "exploration")
    rng = np.random.default_rng(ck.seed)
    quick = ck.tier == "quick"
    ck.rule = ("case = (version, exponent level, rho_mult, plan, exponent-ladder formula, spin treatment) with every spec of the version, "
               "enumerated by TLC; per case: density-weighted L2 discrepancy of every feature against direct quadrature of the documented "
               "integral on points with n > 1e-3, at the rungs of a refinement ladder, for the three interpolators; SDMX kinds x powers x spin "
               "x (fast, fast-lowmem, slow) against the documented rho^0 / rho^1 integrals; get_descriptors path; distinct = case")
    r, cases, static = run_model(ck)
    ck.exhaustive = True
    ck.log("model: %s; %d cases; static chain %s" % (r, len(cases), "decided" if static else "UNDECIDED"))
    keys = ["ver", "level", "mult", "plan", "ladder", "spin", "rep"]
    groups = {}
    for c in cases:
        k = tuple(repr(c[x]) for x in keys)
        groups.setdefault(k, dict(c)).setdefault("interps", set()).add(c["interp"])
    gl = list(groups.values())
    for g_ in gl:
        g_["interps"] = sorted(g_["interps"])
    if quick:
        chosen, ncov, nall = pairwise(gl, keys, rng, 40)
        for _ in range(2):      # two more independent pairwise covers
            more, _, _ = pairwise([c for c in gl if c not in chosen], keys, rng, 40)
            chosen += more
        # every version must appear with both spin treatments
        have = {(c["ver"], c["spin"]) for c in chosen}
        for c in gl:
            if (c["ver"], c["spin"]) not in have:
                chosen.append(c)
                have.add((c["ver"], c["spin"]))
        # repeated J specs (same kernel, other parameters) with BOTH plan classes
        have = {(c["ver"], c["plan"]) for c in chosen if c["rep"]}
        for c in gl:
            if c["rep"] and c["ver"] in ("j", "ij") and (c["ver"], c["plan"]) not in have:
                chosen.append(c)
                have.add((c["ver"], c["plan"]))
    else:
        chosen, ncov, nall = gl, None, None
    jobs = []
    for k, c in enumerate(chosen):
        ladder = (not quick) or k % 4 == 0
        interps = c["interps"] if ((not quick) or k % 3 == 0) else ["onsite_direct"]
        jobs.append({"id": len(jobs), "fam": "nldf", "case": {x: c[x] for x in c if x not in ("interp", "interps")}, "mol": ("OH" if k % 3 == 1 else "HeH+") if c["spin"] == "perspin" else ("HeH+@bohr" if k % 4 == 2 else "HeH+"),
                     "rungs": [0, 1, 2] if ladder else ([1] if k % 2 else [2]), "interps": interps, "grid_level": 2, "stride": 9 if quick else 5})
    if not quick:
        for c in chosen[:: 7]:
            if c["spin"] == "restricted":
                for mname in ("LiH", "HF"):
                    jobs.append({"id": len(jobs), "fam": "nldf", "case": {x: c[x] for x in c if x not in ("interp", "interps")}, "mol": mname,
                                 "rungs": [1], "interps": ["onsite_direct"], "grid_level": 2, "stride": 7})
    sd_cases = [("SDMX", [0, 1, 2]), ("G", [0, 1, 2]), ("1", [0, 1]), ("G1", [0, 1, 2]), ("Full", [0, 1, 2]), ("Full2", [0, 1])]
    for kind, pows in sd_cases:
        for spin in ("restricted", "perspin"):
            if quick and spin == "perspin" and kind not in ("G1", "Full"):
                continue
            jobs.append({"id": len(jobs), "fam": "sdmx", "kind": kind, "pows": pows, "spin": spin, "mol": "OH" if spin == "perspin" else ("HeH+@bohr" if kind in ("G", "Full") else "HeH+"),
                         "rungs": [0, 1, 2] if (kind in ("G1", "Full") or not quick) else [1], "grid_level": 3, "stride": 197 if quick else 97})
    dcases = [c for c in chosen if c["plan"] == "gaussian" and c["ladder"] == "etb"]
    seen = set()
    for c in dcases:
        if (c["ver"], c["spin"]) in seen or (quick and c["spin"] == "perspin" and c["ver"] != "ij"):
            continue
        seen.add((c["ver"], c["spin"]))
        jobs.append({"id": len(jobs), "fam": "descriptors-nldf", "case": {x: c[x] for x in c if x not in ("interp", "interps")},
                     "mol": "OH" if c["spin"] == "perspin" else ("HeH+@bohr" if c["ver"] in ("j", "k") else "HeH+"), "spin": c["spin"], "grid_level": 2, "stride": 9})
    jobs.append({"id": len(jobs), "fam": "descriptors-sdmx", "kind": "G1", "pows": [0, 1, 2], "spin": "restricted", "mol": "HeH+@bohr", "grid_level": 3, "stride": 197})
    jobs.append({"id": len(jobs), "fam": "descriptors-sdmx", "kind": "G1", "pows": [0, 1], "spin": "perspin", "mol": "OH", "grid_level": 3, "stride": 197})
    ck.log("%d jobs (%d NLDF cases%s)" % (len(jobs), len(chosen), "" if ncov is None else ", pairwise %d/%d" % (ncov, nall)))
    records, worst = [], {}
    for res in run_workers(os.path.abspath(__file__), jobs, nproc=16, timeout=10000):
        if "crash" in res:
            handle_crash(ck, res)
            continue
        job = jobs[res["id"]]
        ck.count(key=res["id"], n=max(1, sum(len(x["err"]) for x in res["rungs"])))
        for v in res["viol"]:
            ck.violation(v["site"], v["detail"], replay={"job": job})
        if not res["rungs"]:
            continue
        sd = job["fam"].endswith("sdmx")
        bound = SDMX_BOUND if sd else (NLDF_BOUND if job["mol"].split("@")[0] in LIGHT else NLDF_BOUND_HEAVY)
        rec = {"id": str(res["id"]), "fam": job["fam"], "_job": job,
               "rungs": [x["rung"] for x in res["rungs"]],
               "err": [[min(int(round(e * PPM)), 10 ** 9) for e in x["err"]] for x in res["rungs"]],
               "bound": [int(round(bound[x["rung"]] * PPM)) for x in res["rungs"]],
               "floor": int(round((SDMX_FLOOR if sd else NLDF_FLOOR) * PPM)),
               "cross": min(int(round(res["cross"] * PPM)), 10 ** 9), "cross_bound": int(round((1e-6 if sd else CROSS_BOUND) * PPM)),
               "nfeat": res["nfeat"], "ndoc": res["nfeat"]}
        records.append(rec)
        fam = job["fam"] + (":" + job["case"]["ver"] if "case" in job else ":" + job.get("kind", ""))
        for x in res["rungs"]:
            worst[(fam, x["rung"])] = max(worst.get((fam, x["rung"]), 0.0), max(x["err"]))
        if res.get("doc1d") is not None and res["doc1d"] > SDMX_BOUND[2]:
            ck.violation("sdmx-doc:1d:%s" % job["kind"], {"documented": "H_j^1d = 4 pi int dR R^(6-j) |d rho1/dR|^2", "weighted_L2_vs_documented": res["doc1d"],
                                                          "weighted_L2_vs_[R^(4-j)|d(R rho1)/dR|^2]": res["alt1d"], "job": job}, replay={"job": job})
    ck.extra["worst_weighted_L2"] = {"%s@rung%d" % k: float("%.3g" % v) for k, v in sorted(worst.items())}
    tv = validate_records("Trace_FeatureChain", "Trace_FeatureChain.cfg", records, nchunks=4)
    ck.extra["trace_validation"] = {"accepted": tv["accepted"], "rejected": len(tv["rejected"]), "states": tv["states"]}
    byid = {rc["id"]: rc for rc in records}
    for rid, inv in tv["rejected"]:
        rc = byid[str(rid)]
        job = rc["_job"]
        tag = job["fam"] + (":%s:%s:%s:%s" % (job["case"]["ver"], job["case"]["plan"], job["case"]["ladder"], job["case"]["spin"]) if "case" in job else ":%s:%s" % (job.get("kind"), job.get("spin")))
        ck.violation("%s:%s" % (inv, tag), {"rungs": rc["rungs"], "err_ppm": rc["err"], "bound_ppm": rc["bound"], "cross_ppm": rc["cross"], "job": job}, replay={"job": job})
    ck.traces = len(records)
    ck.sample({"job": jobs[0]})
    ck.assumptions = ["reference = direct quadrature on the molecular grid (NLDF) / r-centred scaled spherical grids + molecular grid (SDMX); its own error "
                      "is below 1e-4 (SDMX, measured against converged ladders) and common-mode for NLDF (same grid)",
                      "points with n > 1e-3; densities from PBE SCF of HeH+, LiH (restricted) and OH (unrestricted)",
                      "bounds (weighted L2): NLDF %s floor %g; SDMX %s floor %g; interpolators %g" % (NLDF_BOUND, NLDF_FLOOR, SDMX_BOUND, SDMX_FLOOR, CROSS_BOUND),
                      "SDMXFull ratio != 1 is undocumented: only fast/lowmem/slow agreement decided"]
    return ck.finish()


if __name__ == "__main__":
    if len(sys.argv) > 1 and sys.argv[1] == "--worker":
        worker_main(check)
        sys.exit(0)
    if len(sys.argv) > 2 and sys.argv[1] == "--replay":
        import json
        rp = json.load(open(sys.argv[2]))
        for occ in rp["occurrences"][:2]:
            print(check(occ["replay"]["job"]))
        sys.exit(0)
    main_wrapper(main)
