"""SYS01 (system coverage beyond the listed properties) -- which orbital a training-data request means, and that the
occupation derivatives returned for it are derivatives with respect to THAT orbital's occupation.

  M  spec/OrbSelect.tla exhaustively (every occupation pattern and energy interleaving of two channels of three orbitals, every
     request of <= 2 labels quick / 3 thorough); negative controls AscendingO, SpinBlind
  R  the finished cases TLC prints (ORBCASE) are replayed on the real get_labels_and_coeffs with tagged coefficient vectors:
     labels, coefficient identity, energies and channel of every entry, IndexError iff the model refuses; the pairing of
     derivative n with label n (unpack_feature_derivs / unpack_eigvals) is replayed with tagged arrays
  N  on real SCF solutions (H2O RKS, NH2 UKS) get_descriptors(..., orbs) is called for the local, semilocal, NLDF (j, i) and SDMX
     feature families with requests taken from the model's cases; the orbital a label denotes is computed from the model's
     MEANING (counting orbitals above / below within the scope), and the derivative array returned for the label is compared
     with a central finite difference of the features in the occupation of that spin-orbital; the reported eigenvalue must
     be that orbital's; calculate_vxc_on_mo(orbs) must agree with the full-array call at the denoted index.
Not a listed property: run with `./check_sys SYS01`; evidence in evidence_sys/."""
import cvload  # noqa: F401
import os
import sys

import numpy as np

import models as M
from common import Check, MachineryError, main_wrapper, run_tlc, tlc_printed_values

NORB = 3


def model_stage(ck):
    deep = ck.tier != "quick"
    r = run_tlc("MC_OrbSelect", "MC_OrbSelect_deep.cfg" if deep else "MC_OrbSelect.cfg", workers=16, timeout=3000, heap="12g")
    if r.error:
        raise MachineryError("TLC OrbSelect: " + r.error)
    ck.add_tlc("OrbSelect", r)
    for v in r.violated:
        ck.violation("model:OrbSelect:" + v, {})
    for cfg, expect in (("asc", "OMeaning"), ("blind", "ChannelOfItsOrbital")):
        rb = run_tlc("MC_OrbSelect", "MC_OrbSelect_%s.cfg" % cfg, workers=4, timeout=900)
        if expect not in rb.violated:
            raise MachineryError("negative control OrbSelect/%s: %s not violated (%s)" % (cfg, expect, rb.violated))
    ck.extra["negative_controls"] = "AscendingO violates OMeaning; SpinBlind violates ChannelOfItsOrbital"
    cases = []
    for cfg in ("emitA", "emitB"):
        re_ = run_tlc("MC_OrbSelect", "MC_OrbSelect_%s.cfg" % cfg, workers=8, timeout=1800)
        if re_.error or re_.violated:
            raise MachineryError("TLC OrbSelect emission %s: %s %s" % (cfg, re_.error, re_.violated))
        got = tlc_printed_values(re_.out, "ORBCASE")
        if len(got) < 1000:
            raise MachineryError("OrbSelect emission %s printed %d cases" % (cfg, len(got)))
        cases += got
    ck.exhaustive = True
    return cases


def tagged_solution(layout, occ, rank):
    """synthetic SCF arrays for a model solution: column i of channel s is a vector that identifies (s, i)"""
    nao = NORB       # (square coefficient matrices: the merged branch reshapes with nmo in place of nao, observation O10)

    def col(s, i):
        v = np.zeros(nao)
        v[i] = 1.0 + s
        v[(i + 1) % nao] = 0.25 * (i + 1) + 10 * s
        return v
    if layout == "restricted":
        mo_occ = np.array([2.0 if o else 0.0 for o in occ[0]])
        mo_energy = np.array([float(x) for x in rank[0]])
        mo_coeff = np.stack([col(0, i) for i in range(NORB)], axis=1)
    else:
        mo_occ = np.array([[1.0 if o else 0.0 for o in occ[s]] for s in (0, 1)])
        mo_energy = np.array([[float(x) for x in rank[s]] for s in (0, 1)])
        mo_coeff = np.stack([np.stack([col(s, i) for i in range(NORB)], axis=1) for s in (0, 1)])

    def ident(c):
        c = np.asarray(c)
        for s in (0, 1):
            for i in range(NORB):
                if np.array_equal(c, col(s, i)):
                    return (s, i + 1)
        return None
    return mo_occ, mo_energy, mo_coeff, ident


def as_dict(seq):
    d = {}
    for key, k in seq:
        d.setdefault(key, []).append(int(k))
    return d


def replay_case(case):
    """-> None or (clause, detail)"""
    from ciderpress.pyscf.descriptors import get_labels_and_coeffs, unpack_eigvals, unpack_feature_derivs
    layout, occ, rank, req, err, lists = case
    mo_occ, mo_energy, mo_coeff, ident = tagged_solution(layout, occ, rank)
    orbs = (as_dict(req[0]), as_dict(req[1])) if layout == "perspin" else as_dict(req[0])
    try:
        labels, coeffs, en_list, sep = get_labels_and_coeffs(orbs, mo_coeff, mo_occ, mo_energy)
    except IndexError:
        return None if err == "IndexError" else ("refused-a-valid-request", {})
    if err == "IndexError":
        return ("accepted-an-index-beyond-the-pool", {"labels": repr(labels)})
    if sep != (layout == "perspin"):
        return ("per-spin-flag", {"sep_spins": bool(sep)})
    if layout == "restricted":
        labels, coeffs, en_list = (labels, []), (coeffs, []), (en_list, [])
    for s in (0, 1):
        want = lists[s]
        got = [(tuple(l), ident(c)) for l, c in zip(labels[s], coeffs[s])]
        if len(labels[s]) != len(coeffs[s]) or len(labels[s]) != len(en_list[s]):
            return ("parallel-lists-of-different-length", {"channel": s})
        if [(tuple(w[0]), tuple(w[1])) for w in want] != [(g[0], g[1]) for g in got]:
            return ("label-denotes-another-orbital", {"channel": s, "model": [list(map(list, w)) for w in want], "code": [[list(g[0]), list(g[1]) if g[1] else None] for g in got]})
        for (lab, so), e in zip(want, en_list[s]):
            if float(e) != float(rank[so[0]][so[1] - 1]):
                return ("energy-of-another-orbital", {"channel": s, "label": list(lab), "got": float(e)})
        # pairing of derivative n with label n
        tags = np.array([[100.0 * so[0] + so[1]] for _, so in want]).reshape(len(want), 1)
        scope_orbs = orbs[s] if layout == "perspin" else orbs
        dd, ev = unpack_feature_derivs(scope_orbs, labels[s], tags, en_list[s])
        ev2 = unpack_eigvals(scope_orbs, labels[s], en_list[s])
        for (lab, so) in want:
            if float(dd[lab[0]][lab[1]][0]) != 100.0 * so[0] + so[1] or ev[lab[0]][lab[1]] != ev2[lab[0]][lab[1]]:
                return ("derivative-paired-with-another-label", {"channel": s, "label": list(lab)})
    return None


# ------------------------------------------------------------------------------------------------ numerical meaning
def denote(scope_occ, scope_energy, key, k):
    """the MEANING of a label over a scope given as flat arrays (model invariants OMeaning / UMeaning / BMeaning)"""
    n = len(scope_occ)
    for i in range(n):
        if key == "O" and scope_occ[i] and sum(1 for j in range(n) if scope_occ[j] and scope_energy[j] > scope_energy[i]) == k:
            return i
        if key == "U" and not scope_occ[i] and sum(1 for j in range(n) if not scope_occ[j] and scope_energy[j] < scope_energy[i]) == k:
            return i
        if key == "B" and sum(1 for j in range(n) if scope_energy[j] < scope_energy[i]) == k:
            return i
    return None


def settings_families():
    from ciderpress.dft.settings import NLDFSettingsVI, NLDFSettingsVJ, SDMXSettings, SemilocalSettings
    th = list(M.THETA["MGGA"])
    return [("local", "l", {}),
            ("semilocal-npa", SemilocalSettings("npa"), {}),
            ("semilocal-nst", SemilocalSettings("nst"), {}),
            ("nldf-j", NLDFSettingsVJ("MGGA", th, "one", ["se", "se_ar2"], [list(M.FP1["MGGA"]), list(M.FP2["MGGA"])]), {"inner_grids_level": 1}),
            ("nldf-i", NLDFSettingsVI("MGGA", th, "one", ["se", "se_r2"], ["se_grad"], [(0, 0), (-1, 0)]), {"inner_grids_level": 1}),
            ("sdmx", SDMXSettings([0, 1]), {})]


def numeric_stage(ck):
    from pyscf import dft
    from ciderpress.pyscf.analyzers import RHFAnalyzer, UHFAnalyzer
    from ciderpress.pyscf.descriptors import get_descriptors
    fams = settings_families()
    if ck.tier == "quick":
        fams = [f for f in fams if f[0] in ("local", "semilocal-npa", "nldf-j", "sdmx")]
    h = 2e-4
    systems = [("H2O", "restricted", {"O": [0, 1], "U": [0]}), ("H2O", "restricted", {"B": [0], "U": [1, 0], "O": [2]}),
               ("NH2", "merged", {"O": [0, 1, 2], "U": [0, 1]}), ("NH2", "perspin", ({"O": [0], "U": [1]}, {"U": [0], "O": [1, 0], "B": [1]}))]
    scf = {}
    for name, layout, orbs in systems:
        if name not in scf:
            mol = M.make_mol(name, basis="sto-3g")
            ks = dft.UKS(mol) if name == "NH2" else dft.RKS(mol)
            ks.xc = "PBE"
            ks.grids.level = 1
            ks.conv_tol = 1e-11
            ks.kernel()
            if not ks.converged:
                raise MachineryError("SCF of %s not converged" % name)
            scf[name] = (mol, ks)
        mol, ks = scf[name]
        pol = layout != "restricted"
        mo_occ, mo_energy, mo_coeff = np.asarray(ks.mo_occ), np.asarray(ks.mo_energy), np.asarray(ks.mo_coeff)
        dm0 = np.asarray(ks.make_rdm1())
        Ana = UHFAnalyzer if pol else RHFAnalyzer

        def analyzer(dm):
            return Ana(mol, dm, grids_level=0, mo_occ=mo_occ, mo_coeff=mo_coeff, mo_energy=mo_energy)
        # the orbital every label means, from the model's meaning
        want = []          # (path into the result, channel, orbital index, label)
        if layout == "restricted":
            for key, ks_ in orbs.items():
                for k in ks_:
                    want.append((None, 0, denote(list(mo_occ > 1.0), list(mo_energy), key, k), (key, k)))
        elif layout == "perspin":
            for s in (0, 1):
                for key, ks_ in orbs[s].items():
                    for k in ks_:
                        want.append((s, s, denote(list(mo_occ[s] > 0.5), list(mo_energy[s]), key, k), (key, k)))
        else:
            occf, enf = list(mo_occ.ravel() > 0.5), list(mo_energy.ravel())
            gaps = np.diff(np.sort(mo_energy.ravel()))
            if gaps.min() < 1e-6:
                raise MachineryError("degenerate spin-orbitals in %s: the merged request is ambiguous" % name)
            norb = mo_occ.shape[1]
            for key, ks_ in orbs.items():
                for k in ks_:
                    f = denote(occf, enf, key, k)
                    want.append((None, f // norb, f % norb, (key, k)))
        if any(w[2] is None for w in want):
            raise MachineryError("request outside the orbital range of %s" % name)
        ana = analyzer(dm0)
        rho_of = get_descriptors(ana, "l")[:, 0]        # channel densities on the analyzer grid
        # XC eigenvalue contributions: the request form against the full-array form
        try:
            # reference: <c|V_xc|c> of the denoted orbital from the potential matrix (the request-free form of calculate_vxc_on_mo
            # cannot run for spin-polarised analyzers on the pinned tree, observation O10)
            V = np.asarray(analyzer(dm0).calculate_vxc("PBE"))
            sel = analyzer(dm0).calculate_vxc_on_mo("PBE", orbs=orbs)
            for path, s, i, (key, k) in want:
                ck.count(key=("vxc-on-mo", name, layout, key, k))
                got = (sel[path] if path is not None else sel)[key][k]
                cc = mo_coeff[s][:, i] if pol else mo_coeff[:, i]
                ref = float(cc @ (V[s] if pol else V) @ cc)
                if abs(float(got) - float(ref)) > 1e-10 * (1 + abs(float(ref))):
                    ck.violation("vxc-on-mo:%s:label-%s%d-is-another-orbital" % (layout, key, k), {"system": name, "got": float(got), "full_array_at_denoted_index": float(ref)})
        except Exception as ex:
            ck.violation("vxc-on-mo:%s:%s" % (layout, type(ex).__name__), {"system": name, "msg": str(ex)[:200]})
        for fname, st, kw in fams:
            try:
                desc, ddesc, eig = get_descriptors(ana, st, orbs=orbs, **kw)
                plain = get_descriptors(ana, st, **kw)
            except Exception as ex:
                ck.violation("descriptors:%s:%s:%s" % (fname, layout, type(ex).__name__), {"system": name, "msg": str(ex)[:300]})
                continue
            if desc.shape != plain.shape or not np.allclose(desc, plain, rtol=1e-12, atol=1e-14):
                ck.violation("descriptors:%s:%s:features-differ-when-derivatives-are-requested" % (fname, layout),
                             {"system": name, "max": float(np.abs(desc - plain).max()) if desc.shape == plain.shape else None})
            for path, s, i, (key, k) in want:
                ck.count(key=("occ-deriv", fname, name, layout, key, k))
                try:
                    d = (ddesc[path] if path is not None else ddesc)[key][k]
                    e = (eig[path] if path is not None else eig)[key][k]
                except (KeyError, TypeError, IndexError) as ex:
                    ck.violation("descriptors:%s:%s:label-missing-from-the-result" % (fname, layout), {"system": name, "label": [key, k], "msg": repr(ex)})
                    continue
                if layout == "merged":
                    if int(d[0]) != s or int(e[0]) != s:
                        ck.violation("descriptors:%s:merged:label-reported-in-the-other-spin-channel" % fname,
                                     {"system": name, "label": [key, k], "reported": int(d[0]), "meaning": s})
                        continue
                    d, e = d[1], e[1]
                if abs(float(e) - float(mo_energy[s, i] if pol else mo_energy[i])) > 1e-12:
                    ck.violation("descriptors:%s:%s:eigenvalue-of-another-orbital" % (fname, layout), {"system": name, "label": [key, k], "got": float(e)})
                c = mo_coeff[s][:, i] if pol else mo_coeff[:, i]
                P = np.outer(c, c)
                def fdiff(hh):
                    vals = []
                    for sg in (+1, -1):
                        dm = dm0.copy()
                        if pol:
                            dm[s] = dm[s] + sg * hh * P
                        else:
                            dm = dm + sg * hh * P
                        vals.append(get_descriptors(analyzer(dm), st, **kw))
                    return (vals[0] - vals[1]) / (2 * hh)
                f1, f2 = fdiff(h), fdiff(h / 2)
                fd = (4 * f2 - f1) / 3                     # Richardson; |f1 - f2| estimates the error of the coarser one
                est = np.abs(f1 - f2)[s if pol else 0]
                fd_s = fd[s if pol else 0]
                other = float(np.abs(fd[1 - s]).max()) if pol else 0.0
                # points where the channel carries density (a finite difference in the occupation means nothing where the
                # orbital's own density exceeds the density it perturbs)
                dens = rho_of[s if pol else 0] > 1e-4
                scale = np.abs(fd_s[:, dens]).max(axis=1, keepdims=True) + 1e-300
                dd_ = np.asarray(d)
                err = float(((np.abs(dd_ - fd_s) - 4 * est)[:, dens] / scale).max()) if dd_.shape == fd_s.shape else float("inf")
                if not err < 2e-5:
                    ck.violation("descriptors:%s:%s:derivative-is-not-the-occupation-derivative-of-the-denoted-orbital" % (fname, layout),
                                 {"system": name, "label": [key, k], "channel": s, "orbital": int(i), "rel_err_vs_fd": err,
                                  "shape": list(np.asarray(d).shape), "fd_shape": list(fd_s.shape)})
                if pol and other > 1e-9:
                    ck.violation("descriptors:%s:%s:features-of-the-other-channel-depend-on-this-occupation" % (fname, layout),
                                 {"system": name, "label": [key, k], "max": other})


def main():
    ck = Check("SYS01", "model_checking")
    ck.rule = ("case = (layout, occupation pattern, energy interleaving, request); model: all solutions with 3 orbitals per channel and all "
               "requests of <= 2 (quick) / 3 (thorough) labels; replayed cases: every single-label request on every solution plus every "
               "request of <= 3 labels on a handful of solutions; a case is non-trivial if the request is non-empty")
    cases = model_stage(ck)
    nbad = 0
    for case in cases:
        req = case[3]
        ck.count(key=repr(case[:4]) if any(len(q) for q in req) else None)
        try:
            bad = replay_case(case)
        except Exception as ex:
            bad = ("%s" % type(ex).__name__, {"msg": str(ex)[:200]})
        if bad:
            nbad += 1
            ck.violation("labels:%s:%s" % (case[0], bad[0]), dict(bad[1], occ=case[1], rank=case[2], request=case[3], model_err=case[4]), replay={"case": case})
    ck.traces += len(cases) - nbad
    for case in cases[:2] + cases[-2:]:
        ck.sample({"layout": case[0], "occ": case[1], "rank": case[2], "request": case[3], "err": case[4], "lists": case[5]})
    ck.log("replayed %d model cases on get_labels_and_coeffs" % len(cases))
    numeric_stage(ck)
    return ck.finish()


if __name__ == "__main__":
    main_wrapper(main)
