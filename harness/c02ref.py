"""Independent reference for the nonlocal density features: direct O(N^2) quadrature of the integrals
documented in docs/features/nldf.rst on the integration grid (no auxiliary expansion, no splines)."""
import numpy as np
from scipy import special

CFC = 0.3 * (3 * np.pi ** 2) ** (2.0 / 3)
F = 1.2 * (6 * np.pi ** 2) ** (2.0 / 3) / np.pi       # converts (grad_mul, tau_mul) into the documented (B, C)


def doc_exponent(n, sigma, tau, params, level):
    """a = pi (n/2)^(2/3) [A + B |grad n|^2 / (8 n tau0) + C (tau / tau0 - 1)]   (docs/features/nldf.rst)"""
    A = params[0]
    n = np.maximum(n, 1e-300)
    tau0 = CFC * n ** (5.0 / 3)
    if level == "MGGA":
        B, C = params[1] * F, params[2] * F
        return np.pi * (n / 2) ** (2.0 / 3) * (A + B * sigma / (8 * n * tau0) + C * (tau / tau0 - 1))
    B = params[1] * F
    return np.pi * (n / 2) ** (2.0 / 3) * (A + B * sigma / (8 * n * tau0))


def reference_features(settings, coords, weights, rho, sel):
    """features at the points `sel`; rho = (n, dx, dy, dz[, tau]) on all points"""
    n = rho[0]
    sigma = (rho[1:4] ** 2).sum(0)
    level = settings.sl_level
    tau = rho[4] if level == "MGGA" else None
    a0 = doc_exponent(n, sigma, tau, settings.theta_params, level)
    mult = a0 if settings.rho_mult == "expnt" else 1.0
    wn = weights * n * mult
    ver = settings.nldf_type
    nsel = len(sel)
    out = []
    vecs = {}
    if ver in ("j", "ij", "k"):
        for spec, p in zip(settings.feat_specs, settings.feat_params):
            ai = doc_exponent(n, sigma, tau, p, level)
            f = np.zeros(nsel)
            for j, g in enumerate(sel):
                d = coords - coords[g]
                r2 = (d * d).sum(1)
                if ver == "k":
                    e = np.exp(-ai[g] * r2) * np.exp(-1.5 * a0 / ai[g])
                else:
                    e = np.exp(-(ai[g] + a0) * r2)
                if spec == "se":
                    k = e
                elif spec == "se_ar2":
                    k = e * ai[g] * r2
                elif spec == "se_a2r4":
                    k = e * (ai[g] * r2) ** 2
                elif spec == "se_erf_rinv":
                    b = ai[g] * p[-1]
                    r = np.sqrt(r2)
                    x = np.sqrt(b) * r
                    k = e * np.where(x > 1e-8, np.sqrt(np.pi) * special.erf(x) / (2 * np.maximum(x, 1e-300)), 1.0)
                f[j] = (wn * k).sum()
            out.append(f)
    if ver in ("i", "ij"):
        for spec in settings.l0_feat_specs:
            f = np.zeros(nsel)
            for j, g in enumerate(sel):
                d = coords - coords[g]
                r2 = (d * d).sum(1)
                e = np.exp(-a0 * r2)
                k = {"se": e, "se_r2": r2 * e, "se_apr2": a0 * r2 * e, "se_ap": a0 * e, "se_ap2r2": a0 * a0 * r2 * e,
                     "se_lapl": 4 * a0 * a0 * r2 * e - 2 * a0 * e}[spec]
                f[j] = (wn * k).sum()
            out.append(f)
        for idx, spec in enumerate(settings.l1_feat_specs):
            v = np.zeros((3, nsel))
            for j, g in enumerate(sel):
                d = coords - coords[g]             # r' - r
                r2 = (d * d).sum(1)
                e = np.exp(-a0 * r2)
                k = a0 * e if spec == "se_grad" else e
                v[:, j] = (d * (wn * k)[:, None]).sum(0)
            vecs[idx] = v
        vecs[-1] = rho[1:4][:, sel]
        for (j_, k_) in settings.l1_feat_dots:
            out.append((vecs[j_] * vecs[k_]).sum(0))
    return np.array(out)


def _h_parts(u2, d, R, kinds):
    """h, dh/dR and the factor multiplying (r'-r) in grad_r h, for separations u2 = |r'-r|^2"""
    c = (2 / np.pi) ** 1.5 * 4 / (4 - np.sqrt(2))
    g = np.exp(-2 * u2 / R ** 2)
    out = {"h": c * g * (1 - g) / R ** 3}
    if "d" in kinds:
        out["dh"] = c * (g * (1 - 2 * g) * 4 * u2 / R ** 6 - 3 * g * (1 - g) / R ** 4)
    if "1" in kinds or "1d" in kinds:
        out["g1"] = c * (4.0 / R ** 2) * g * (1 - 2 * g) / R ** 3
    if "1d" in kinds:
        dg = g * 4 * u2 / R ** 3
        out["dg1"] = 4 * c * (dg * (1 - 4 * g) / R ** 5 - 5 * g * (1 - 2 * g) / R ** 6)
    return out


def sdmx_reference(mol, dm, coords, weights, sel, pows, kinds=("0",), nR=90, Rc=1.2, nrad=28, lebedev=194):
    """Documented SDMX features (docs/features/sdmx.rst) by direct quadrature:
         rho0(R; r) = int h(|r'-r|; R) n1(r', r) d^3r',   h normalised, width ~R
         H_j^0  = 4 pi int dR R^(2-j) |rho0|^2
         H_j^0d = 4 pi int dR R^(4-j) |d rho0/dR|^2
         H_j^1  = 4 pi int dR R^(4-j) |rho1|^2,  rho1 = int [grad_r h] n1
         H_j^1d = 4 pi int dR R^(6-j) |d rho1/dR|^2
       feature = -H/4 (spin-unpolarised).  R is integrated by Gauss-Legendre in ln R.  The r' integral
       uses the molecular grid for R >= Rc (kernel wider than the grid spacing) and, for R < Rc, a
       spherical grid CENTRED AT r with radius scaled by R (Lebedev x Gauss-Legendre in |r'-r|/R), so
       that the sharp kernel is always resolved.  Nothing here uses CiderPress."""
    from pyscf.dft import numint as pni
    from pyscf.dft.gen_grid import LEBEDEV_ORDER  # noqa: F401
    from pyscf.dft import gen_grid
    leb = np.empty((lebedev, 4))
    gen_grid.libdft.MakeAngularGrid(leb.ctypes.data_as(__import__("ctypes").c_void_p), __import__("ctypes").c_int(lebedev))
    ang, wang = leb[:, :3], leb[:, 3] * 4 * np.pi
    s_, ws_ = np.polynomial.legendre.leggauss(nrad)
    smax = 3.6
    s_ = 0.5 * smax * (s_ + 1)
    ws_ = 0.5 * smax * ws_
    rsel = coords[sel]
    ao_sel = pni.eval_ao(mol, rsel, deriv=0)
    Dao_sel = dm.dot(ao_sel.T)                          # (nao, Nsel)
    ao = pni.eval_ao(mol, coords, deriv=0)
    wn1 = weights[:, None] * ao.dot(Dao_sel)            # (Ng, Nsel): w_g n1(r_g, r_sel)
    d = coords[:, None, :] - rsel[None, :, :]           # r' - r
    u2 = (d * d).sum(-1)
    t, wt = np.polynomial.legendre.leggauss(nR)
    lo, hi = np.log(0.01), np.log(80.0)
    lnR = 0.5 * (hi - lo) * t + 0.5 * (hi + lo)
    wR = 0.5 * (hi - lo) * wt
    out = {k: np.zeros((len(pows), len(sel))) for k in kinds}
    # local unit quadrature: offsets s*ang, weights s^2 ws wang
    off = (s_[:, None, None] * ang[None, :, :]).reshape(-1, 3)
    woff = (s_[:, None] ** 2 * ws_[:, None] * wang[None, :]).reshape(-1)
    for lr, w_ in zip(lnR, wR):
        R = np.exp(lr)
        if R >= Rc:
            hp = _h_parts(u2, d, R, kinds)
            r0 = (wn1 * hp["h"]).sum(0)
            dr0 = (wn1 * hp["dh"]).sum(0) if "d" in kinds else None
            r1 = (wn1[:, :, None] * hp["g1"][:, :, None] * d).sum(0) if "1" in kinds else None
            dr1 = (wn1[:, :, None] * hp["dg1"][:, :, None] * d).sum(0) if "1d" in kinds else None
        else:
            r0 = np.zeros(len(sel))
            dr0 = np.zeros(len(sel))
            r1 = np.zeros((len(sel), 3))
            dr1 = np.zeros((len(sel), 3))
            dl = off * R
            u2l = (dl * dl).sum(-1)
            hp = _h_parts(u2l, dl, R, kinds)
            wl = woff * R ** 3
            for k in range(len(sel)):
                aol = pni.eval_ao(mol, rsel[k] + dl, deriv=0)
                n1l = wl * aol.dot(Dao_sel[:, k])
                r0[k] = (n1l * hp["h"]).sum()
                if "d" in kinds:
                    dr0[k] = (n1l * hp["dh"]).sum()
                if "1" in kinds:
                    r1[k] = ((n1l * hp["g1"])[:, None] * dl).sum(0)
                if "1d" in kinds:
                    dr1[k] = ((n1l * hp["dg1"])[:, None] * dl).sum(0)
        for pi, j in enumerate(pows):
            if "0" in kinds:
                out["0"][pi] += w_ * R * 4 * np.pi * R ** (2 - j) * r0 ** 2      # dR = R d(lnR)
            if "d" in kinds:
                out["d"][pi] += w_ * R * 4 * np.pi * R ** (4 - j) * dr0 ** 2
            if "1" in kinds:
                out["1"][pi] += w_ * R * 4 * np.pi * R ** (4 - j) * (r1 ** 2).sum(1)
            if "1d" in kinds:
                out["1d"][pi] += w_ * R * 4 * np.pi * R ** (6 - j) * (dr1 ** 2).sum(1)
    if "0" in kinds:
        # analytic tail below the lowest node: rho0(R -> 0; r) = n1(r, r) because h is normalised
        nsel = np.einsum("gi,ig->g", ao_sel, Dao_sel)
        Rmin = np.exp(lo)
        for pi, j in enumerate(pows):
            out["0"][pi] += 4 * np.pi * nsel ** 2 * Rmin ** (3 - j) / (3 - j)
    return {k: -0.25 * v for k, v in out.items()}
