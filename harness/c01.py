"""C01 -- the XC matrix is the exact derivative of the XC energy (PySCF, end to end).
  M: spec/CiderPress.tla: configuration lattice of an SCF session (feature families x plan x
     interpolator x evaluator x spin mode x mixing) with the integrator/grid class selection and the
     feature-vector assembly order; TLC exhaustive.  (Batch/cache provenance: NumIntCache.tla, C09.)
  R: a pairwise cover (quick) / large sample (thorough) of the configurations TLC emits is built as a
     real decorated KS object; projection (integrator class, grid class, stand-in functional) compared
     with the model; oracle: Richardson finite differences of the returned XC energy along random
     symmetric and single-element directions of a random NON-converged PSD density matrix (per spin
     channel for UKS) vs sum(vmat * direction); nelec vs an independent grid integral of the density"""
import cvload  # noqa: F401
import os
import sys

import numpy as np

import e2e
import models as M
from common import handle_crash, Check, MachineryError, main_wrapper, run_workers, worker_main


def fd_energy(fn, h):
    f1 = (fn(h) - fn(-h)) / (2 * h)
    f2 = (fn(2 * h) - fn(-2 * h)) / (4 * h)
    return (4 * f1 - f2) / 3, abs(f1 - f2)


def check_one(job):
    from pyscf.dft import numint as pni
    cfg, seed = job["cfg"], job["seed"]
    unrestricted = job["unrestricted"]
    rng = np.random.default_rng(seed)
    mol = M.make_mol(job["mol"], basis=job.get("basis", "sto-3g"))
    viol = []
    tag = "%s:%s:%s:%s:%s:%s:%s:%s:%s" % (cfg["sl"], cfg["nldf"], cfg["sdmx"], cfg["plan"], cfg["interp"], cfg["eval"], cfg["mode"], cfg["mix"],
                                         "U" if unrestricted else "R")
    try:
        ks = e2e.make_session(cfg, mol, unrestricted, seed, level=job.get("level", 0))
    except Exception as ex:
        return {"viol": [{"site": "session:%s:%s" % (type(ex).__name__, cfg["nldf"] + "+" + cfg["sdmx"]), "detail": {"cfg": cfg, "msg": str(ex)[:300]}}], "n": 0, "proj": None}
    proj = e2e.projection(ks)
    ni = ks._numint
    dm = e2e.random_dms(mol, rng, unrestricted)
    nao = mol.nao
    fn = ni.nr_uks if unrestricted else ni.nr_rks

    def E(d):
        return fn(mol, ks.grids, ks.xc, d)[1]
    try:
        nelec, exc, vmat = fn(mol, ks.grids, ks.xc, dm.copy())
    except Exception as ex:
        return {"viol": [{"site": "call:%s:%s" % (type(ex).__name__, tag.split(":")[1] + "+" + tag.split(":")[2]), "detail": {"cfg": cfg, "msg": str(ex)[:300]}}], "n": 0, "proj": proj}
    n = 0
    if not (np.isfinite(exc) and np.all(np.isfinite(vmat))):
        viol.append({"site": "non-finite:" + tag, "detail": {"cfg": cfg}})
        return {"viol": viol, "n": 1, "proj": proj}
    # hermiticity of the returned matrix
    vm = vmat if unrestricted else vmat[None]
    if np.abs(vm - vm.transpose(0, 2, 1)).max() > 1e-10 * (1 + np.abs(vm).max()):
        viol.append({"site": "vmat-not-symmetric:" + tag, "detail": {"cfg": cfg}})
    # ---- electron count: independent grid integral of the density
    ao = pni.eval_ao(mol, ks.grids.coords, deriv=0)
    dms = dm if unrestricted else dm[None]
    for s in range(dms.shape[0]):
        rho = pni.eval_rho(mol, ao, dms[s], xctype="LDA")
        ref = float(np.dot(rho, ks.grids.weights))
        got = float(nelec[s]) if unrestricted else float(nelec)
        n += 1
        if abs(ref - got) > 1e-9 * (1 + abs(ref)):
            viol.append({"site": "nelec:" + ("U" if unrestricted else "R"), "detail": {"cfg": cfg, "impl": got, "grid-integral": ref}})
    # ---- derivative
    scale = float(np.abs(vmat).max())
    dirs = []
    for _ in range(job.get("ndir", 2)):
        dirs.append(("random", e2e.sym_direction(rng, nao)))
    i, j = int(rng.integers(nao)), int(rng.integers(nao))
    d1 = np.zeros((nao, nao))
    d1[i, j] += 0.5
    d1[j, i] += 0.5
    dirs.append(("element", d1))
    worst = 0.0
    detail = None
    for s in range(dms.shape[0]):
        for name, dlt in dirs:
            h = 2e-4 / max(1e-12, np.abs(dlt).max())

            def f(hh):
                d = dm.copy()
                if unrestricted:
                    d[s] = d[s] + hh * dlt
                else:
                    d = d + hh * dlt
                return E(d)
            g, est = fd_energy(f, h)
            ana = float(np.sum(vm[s] * dlt))
            n += 1
            excess = abs(g - ana) - 20 * est - 2e-7 * scale * np.abs(dlt).sum() / nao - 1e-11 * abs(exc) / h
            if not (excess <= worst):      # NaN counts as a violation
                worst = excess
                detail = {"spin": s, "direction": name, "fd": g, "analytic": ana, "est": est}
    if worst > 0 or worst != worst:
        viol.append({"site": "vmat-vs-fd:" + tag, "detail": dict(detail, cfg=cfg, excess=worst)})
    # ---- a STACK of density matrices (pyscf passes several at once: response solvers, state-averaged methods): every member's
    # electron count, energy and matrix must be those of the single-matrix call (whose derivative was checked above)
    dm2 = e2e.random_dms(mol, rng, unrestricted)
    mats = [dm, dm2] if seed % 2 else [dm2, dm]
    try:
        arr = np.stack(mats, axis=1 if unrestricted else 0)         # (nset, nao, nao) / (2, nset, nao, nao)
        nb, eb, vb = fn(mol, ks.grids, ks.xc, arr.copy())
        for i, m in enumerate(mats):
            n1, e1, v1 = fn(mol, ks.grids, ks.xc, m.copy())
            vbi = np.asarray(vb)[:, i] if unrestricted else np.asarray(vb)[i]
            nbi = np.asarray(nb)[..., i] if unrestricted else np.asarray(nb)[i]
            n += 1
            de, dv, dn = abs(float(np.asarray(eb)[i]) - float(e1)), float(np.abs(vbi - v1).max()), float(np.abs(nbi - np.asarray(n1)).max())
            if not (de <= 1e-10 * (1 + abs(float(e1))) and dv <= 1e-9 * (1 + scale) and dn <= 1e-10 * (1 + float(np.abs(np.asarray(n1)).max()))):
                viol.append({"site": "stack-member-differs-from-single-call:" + tag,
                             "detail": {"cfg": cfg, "member": i, "of": len(mats), "dE": de, "dV": dv, "dN": dn}})
                break
    except Exception as ex:
        viol.append({"site": "stack-call:%s:%s" % (type(ex).__name__, tag), "detail": {"cfg": cfg, "msg": str(ex)[:300]}})
    return {"viol": viol, "n": n, "proj": proj, "tag": tag}


def worker(job):
    return dict(check_one(job), id=job["id"])


def main():
    ck = Check("C01", "exploration")
    rng = np.random.default_rng(ck.seed)
    quick = ck.tier == "quick"
    ck.rule = ("case = session configuration (semilocal mode, NLDF version, SDMX kind, plan, interpolator, evaluator, spin mode, mixing) "
               "emitted by TLC from CiderPress.tla x {restricted H2O, unrestricted OH}; quick replays a pairwise cover + random fill, "
               "thorough ~10x more incl. 6-31G; each case: FD of E_xc along 2 random symmetric + 1 single-element direction per "
               "spin channel, nelec vs independent grid integral; non-trivial = has a nonlocal feature family")
    r, sessions = e2e.session_configs()
    ck.add_tlc("CiderPress", r)
    ck.exhaustive = True
    for v in r.violated:
        ck.violation("model:CiderPress:" + v, {})
    ck.log("model: %s, %d supported configurations" % (r, len(sessions)))
    cfgs = [s[0] for s in sessions]
    bycfg = {repr(sorted(s[0].items())): s for s in sessions}
    keys = ("sl", "nldf", "sdmx", "plan", "interp", "eval", "mode", "mix")
    chosen, ncov, nall = e2e.pairwise_cover(cfgs, rng, 110 if quick else 1200, keys)
    ck.extra["pairwise_pairs_covered"] = "%d of %d" % (ncov, nall)
    jobs = []
    for k, c in enumerate(chosen):
        u = bool(k % 2)
        # baseline pair of the mapped kernel: a driver-side dimension on top of the session configuration
        c = dict(c, base=(("lda", "gga", "ssos")[(k // 2) % 3] if c["mix"] == "libxc2" else ("lda", "gga", "damp" if (c["sl"] == "npa" and c["nldf"] != "none") else "gga", "chachiyo")[(k // 2) % 4]))
        if k % 5 == 2 and c["nldf"] in ("j", "k"):
            # the second legal density multiplier of the NLDF settings (driver-side dimension; versions i / ij raise
            # NotImplementedError for it when the calculator is built)
            c = dict(c, mult="expnt")
        if k % 3 == 0:
            c = dict(c, fl="rich")        # composite feature transforms with repeated argument indices (driver-side dimension)
        jobs.append({"id": k, "cfg": c, "seed": ck.seed * 1000 + k, "unrestricted": u, "mol": (("H" if k % 12 == 7 else "OH") if u else ("H2O_ghost" if k % 12 == 6 else "H2O")),
                     "basis": ("cc-pvdz" if k % 4 == 0 else "sto-3g") if quick else ("cc-pvdz", "sto-3g", "6-31g*", "sto-3g", "6-31g")[k % 5], "ndir": 2})
        if jobs[-1]["mol"] == "H":
            # one electron: in a basis with several functions a random orbital has nodal surfaces, where tau / rho diverges
            # and the large-exponent guard rightly refuses the point (C08 / C18); the minimal basis gives the node-free 1s density
            jobs[-1]["basis"] = "sto-3g"
    ck.log("replaying %d configurations end to end" % len(jobs))
    results = run_workers(os.path.abspath(__file__), [[j] for j in jobs] and jobs, nproc=16, timeout=7000)
    for res in results:
        if "crash" in res:
            handle_crash(ck, res)
            continue
        job = jobs[res["id"]]
        c = job["cfg"]
        ck.evaluations += res["n"]
        nontrivial = c["nldf"] != "none" or c["sdmx"] != "none"
        ck.count(key=(res["id"]) if nontrivial else None, n=0)
        for v in res["viol"]:
            ck.violation(v["site"], v["detail"], replay={"job": job})
        if res["proj"] is not None:
            exp = bycfg[repr(sorted((k_, v_) for k_, v_ in c.items() if k_ not in ("base", "fl", "mult")))][1]
            for k_ in ("integrator", "grids", "xc"):
                if res["proj"][k_] != exp[k_]:
                    ck.violation("projection:%s" % k_, {"cfg": c, "impl": res["proj"][k_], "spec": exp[k_]}, replay={"job": job})
        if len(ck.samples) < 3 and nontrivial:
            ck.sample({"cfg": c, "unrestricted": job["unrestricted"], "mol": job["mol"]})
    ck.traces = len(jobs)
    ck.assumptions = ["density matrices are random PSD (physically admissible, not converged)",
                      "FD acceptance: |FD - analytic| <= 20 x Richardson estimate + 2e-7 x scale + round-off term",
                      "periodic/GPAW integrators and the fractional-Laplacian integrator (NLOFNumInt cannot be constructed in this tree: its "
                      "class attribute 'settings = None' shadows the property) are not covered"]
    return ck.finish()


if __name__ == "__main__":
    if len(sys.argv) > 1 and sys.argv[1] == "--worker":
        worker_main(worker)
        sys.exit(0)
    if len(sys.argv) > 2 and sys.argv[1] == "--replay":
        import json
        rp = json.load(open(sys.argv[2]))
        for occ in rp["occurrences"][:2]:
            print(check_one(occ["replay"]["job"]))
        sys.exit(0)
    main_wrapper(main)
