"""Fresh-interpreter side of C14: load a dumped whole model with load_cider_model and evaluate it on the seeded input;
prints the sha1 of the result bytes (or ERROR:<exception>).  argv: path fmt nfeat seed"""
import cvload  # noqa: F401
import hashlib
import sys

import numpy as np

from ciderpress.dft.model_utils import load_cider_model

path, fmt, nfeat, seed = sys.argv[1], sys.argv[2], int(sys.argv[3]), int(sys.argv[4])
try:
    model = load_cider_model(path, None if fmt == "infer" else fmt)
except Exception as ex:  # noqa: BLE001
    print("ERROR:" + type(ex).__name__)
    sys.exit(0)
rng = np.random.default_rng(seed)
X0T = rng.uniform(0.1, 1.5, size=(1, nfeat, 11))
r, dr = model(X0T.copy(), rhocut=1e-9)
print("SHA:" + hashlib.sha1(np.asarray(r).tobytes() + np.asarray(dr).tobytes()).hexdigest())
