"""Value semantics of callable objects (spec/ValueSemantics.tla), shared by several drivers.
  M: ValueSemantics exhaustively; MemoBug / SharedOutBug / InPlaceBug as negative controls
  R: the witness histories TLC prints (call / caller-overwrites-its-array-in-place / drop-a-held-result over two argument
     objects and three contents) are replayed on real callables: after EVERY step every result the caller still holds is
     compared with a reference computed by a FRESH object from private copies of the argument contents at call time,
     and the argument arrays are fingerprinted around every call.
A violation names the clause: result-not-from-current-argument (an identity-keyed memo), held-result-changed-by-later-call
(shared output buffer), argument-modified."""
import numpy as np

from common import MachineryError, run_tlc, tlc_printed_values

_CACHE = {}


def model_and_histories(ck, want=10):
    """Run the model (once per process) and return a small cover of the witness histories."""
    if "hists" in _CACHE:
        return _CACHE["hists"][:want] if want else _CACHE["hists"]
    r = run_tlc("MC_ValueSemantics", "MC_ValueSemantics.cfg", workers=4, timeout=600)
    if r.error:
        raise MachineryError("TLC ValueSemantics: " + r.error)
    ck.add_tlc("ValueSemantics", r)
    for v in r.violated:
        ck.violation("model:ValueSemantics:" + v, {})
    for cfg, expect in (("memo", "ResultFromCurrentContent"), ("shared", "ResultsStable"), ("inplace", "ArgsUntouched"),
                        ("lazyctor", "BuiltFromCtorValue")):
        rb = run_tlc("MC_ValueSemantics", "MC_ValueSemantics_%s.cfg" % cfg, workers=2, timeout=300)
        if expect not in rb.violated:
            raise MachineryError("negative control ValueSemantics/%s: %s not violated (%s)" % (cfg, expect, rb.violated))
    ck.extra["value_semantics_negative_controls"] = ("identity-keyed memo violates ResultFromCurrentContent; shared output object "
                                                     "violates ResultsStable; writing into the argument violates ArgsUntouched; reading a mutable constructor argument "
                                                     "lazily violates BuiltFromCtorValue")
    hs = [h for h in tlc_printed_values(r.out, "VS_HIST")]
    if len(hs) < 50:
        raise MachineryError("ValueSemantics printed %d histories" % len(hs))

    def feats(h):
        out = set()
        lastcall = None
        over = set()
        nheld = 0
        for op in h:
            if op[0] == "call":
                out.add(("call-after-overwrite-of-same" if op[1] in over else "call", "same-as-last" if lastcall == op[1] else "other", min(nheld, 2)))
                lastcall = op[1]
                over.discard(op[1])
                nheld += 1
            elif op[0] == "overwrite":
                over.add(op[1])
                out.add(("overwrite", op[1] == lastcall))
            elif op[0] == "overwrite_ctor":
                out.add(("overwrite_ctor", "before-first-call" if lastcall is None else "later"))
            else:
                nheld = max(0, nheld - 1)
                out.add(("drop",))
        return out
    hs.sort(key=lambda h: (-sum(1 for o in h if o[0] == "call"), repr(h)))
    fs = [feats(h) for h in hs]
    allf = set().union(*fs)
    chosen, covered, idx = [], set(), list(range(len(hs)))
    while covered != allf and idx:
        b = max(idx, key=lambda i: len(fs[i] - covered))
        if not fs[b] - covered:
            break
        idx.remove(b)
        chosen.append(hs[b])
        covered |= fs[b]
    chosen += [hs[i] for i in idx]
    _CACHE["hists"] = chosen
    _CACHE["ncover"] = len([1 for _ in covered])
    ck.extra["value_semantics_histories"] = "%d witness histories from TLC; a cover of %d abstract features needs the first %d" % (
        len(hs), len(allf), len(chosen) - len(idx))
    return chosen[:want] if want else chosen


def memo_fresh(fn):
    """Reference results are functions of the argument VALUE: compute each distinct content once (keyed on the bytes)."""
    import hashlib
    cache = {}

    def g(a):
        k = hashlib.sha1(np.ascontiguousarray(a).tobytes()).hexdigest()
        if k not in cache:
            cache[k] = fn(a)
        return cache[k]
    return g


def _flat(r):
    if isinstance(r, (tuple, list)):
        return [np.asarray(x) for x in r if x is not None]
    return [np.asarray(r)]


def _differs(a, b, tol):
    for x, y in zip(_flat(a), _flat(b)):
        if x.shape != y.shape:
            return True
        if x.size and not np.allclose(x, y, rtol=tol, atol=tol * (1 + float(np.abs(y).max())), equal_nan=True):
            return True
    return False


def replay(hist, values, call, fresh_call, init=None, tol=1e-12, overwrite_ctor=None):
    """values: {'c1': array, 'c2': array, 'c3': array} (equal shapes); call(arr) -> result (array or tuple of arrays) on the
    object under test; fresh_call(arr) -> reference on a fresh object.  Returns list of (clause, step, op)."""
    init = init or {"a1": "c1", "a2": "c2"}
    arrs = {a: np.array(values[c], copy=True) for a, c in init.items()}
    held = []      # [result object, reference, ok_at_call]
    out = []
    for step, op in enumerate(hist):
        if op[0] == "call":
            a = arrs[op[1]]
            before = a.copy()
            r = call(a)
            if not np.array_equal(a, before, equal_nan=True):
                out.append(("argument-modified", step, list(op)))
                a[...] = before
            ref = fresh_call(before.copy())
            ok = not _differs(r, ref, tol)
            if not ok:
                out.append(("result-not-from-current-argument", step, list(op)))
            held.append([r, ref, ok])
        elif op[0] == "overwrite":
            arrs[op[1]][...] = values[op[2]]       # IN PLACE: same object, same shape, new content
        elif op[0] == "overwrite_ctor":
            if overwrite_ctor is not None:
                overwrite_ctor(op[1])              # the caller reuses the mutable object it gave to the constructor
        elif op[0] == "drop":
            if held:
                held.pop(0)
        for h in held[:-1] if op[0] == "call" else held:
            if h[2] and _differs(h[0], h[1], tol):
                out.append(("held-result-changed-by-later-call" if op[0] == "call" else "held-result-changed-by-caller-overwrite", step, list(op)))
                h[2] = False
        if out:
            break
    return out
