"""C19 -- CIDER integration grids are PySCF's grids plus an exact index map.
  M: spec/GridIndex.tla (tables from per-shell angular sizes; sorted/padded/pruned map), TLC exhaustive
  T: real CiderGrids objects (molecules x grid settings x pruning x sort x alignment x lmax x density
     pruning) are projected to the spec's variables and validated by Trace_GridIndex
  R: float side evaluated by the harness and part of each record: same multiset of (coords, weights)
     as pyscf.dft.Grids, coords/weights = atom-ordered[idx_map] exactly, padding weight 0,
     per-shell Gram matrix of the tabulated harmonics = I/(4 pi) up to the shell's degree, 0 above"""
import cvload  # noqa: F401
import copy
import ctypes
import itertools
import random
import sys

import numpy as np
from pyscf import dft, gto
from pyscf.dft import gen_grid, radi

from common import Check, MachineryError, main_wrapper, run_tlc, validate_records
from ciderpress.pyscf.gen_cider_grid import LMAX_DICT, CiderGrids

MOLS = {
    "H2": "H 0 0 0; H 0 0 0.74",
    "H2O": "O 0 0 0.1; H 0 0.757 0.587; H 0 -0.757 0.587",
    "LiH": "Li 0 0 0; H 0 0 1.6",
    "HOH": "H 0 0.757 0.587; O 0 0 0.1; H 0 -0.757 0.587",      # repeated element, not contiguous
    "CH3": "C 0 0 0; H 0 1.0 0.3; H 0.87 -0.5 0.3; H -0.87 -0.5 0.3",
    "He": "He 0 0 0",
    # labelled atoms: pyscf keys atom_grid / the atomic tables on atom_symbol (element + label), so two atoms of one
    # element may carry DIFFERENT angular layouts
    "H2O_lab": "O 0 0 0.1; H1 0 0.757 0.587; H2 0 -0.757 0.587",
    "H2_lab": "H1 0 0 0; H2 0 0 0.74",
    "CH3_lab": "C 0 0 0; H1 0 1.0 0.3; H 0.87 -0.5 0.3; H1 -0.87 -0.5 0.3",
    # effective core potentials: mol.atom_charge() is then the EFFECTIVE charge (Z minus the removed core), while the grid of
    # an atom (radial / angular sizes, pruning radii) is the grid of its element
    "NaH_ecp": {"atom": "Na 0 0 0; H 0 0 1.9", "basis": {"Na": "lanl2dz", "H": "sto-3g"}, "ecp": {"Na": "lanl2dz"}},
    "SiH2_ecp": {"atom": "Si 0 0 0; H 0 1.1 0.9; H 0 -1.1 0.9", "basis": {"Si": "lanl2dz", "H": "sto-3g"}, "ecp": {"Si": "lanl2dz"}},
}
PRUNES = {"nwchem": gen_grid.nwchem_prune, "sg1": gen_grid.sg1_prune, "treutler": gen_grid.treutler_prune, "none": None}


def element_shells(mol, grids):
    """Per element: angular size of every radial shell in RADIAL order, computed independently of
    the code under test from pyscf's own radial scheme and pruning function."""
    out = {}
    atom_grid = grids.atom_grid
    if isinstance(atom_grid, (list, tuple)):
        atom_grid = {mol.atom_symbol(ia): atom_grid for ia in range(mol.natm)}
    for ia in range(mol.natm):
        symb = mol.atom_symbol(ia)
        if symb in out:
            continue
        chg = gto.charge(symb)
        if symb in atom_grid:
            n_rad, n_ang = atom_grid[symb]
        else:
            n_rad = gen_grid._default_rad(chg, grids.level)
            n_ang = gen_grid._default_ang(chg, grids.level)
        rad, dr = grids.radi_method(n_rad, chg, ia)
        if callable(grids.prune):
            angs = grids.prune(chg, rad, n_ang)
        else:
            angs = [n_ang] * n_rad
        out[symb] = [int(a) for a in angs]
    return out


def lebedev(n):
    g = np.empty((n, 4))
    gen_grid.libdft.MakeAngularGrid(g.ctypes.data_as(ctypes.c_void_p), ctypes.c_int(n))
    return g


def stage_of(grids, mol, all_coords, phase):
    gi = grids.grids_indexer
    n = gi.idx_map.size
    pad = int(gi.padding)
    wts = []
    num_ok = True
    why = []
    ok_c = np.all(grids.coords[:n] == all_coords[gi.idx_map], axis=1)
    ok_w = grids.weights[:n] == gi.all_weights[gi.idx_map]
    for k in range(n):
        wts.append(int(gi.idx_map[k]) if (ok_c[k] and ok_w[k]) else -2)
    for k in range(n, grids.weights.size):
        wts.append(-1 if grids.weights[k] == 0.0 else -2)
    return {"phase": phase, "rad_loc": gi.rad_loc.tolist(), "ylm_loc": gi.ylm_loc.tolist(), "ra_loc": gi.ra_loc.tolist(),
            "ar_loc": gi.ar_loc.tolist(), "ga_loc": np.asarray(gi.ga_loc).tolist(), "ylm_rows": int(gi.ylm.shape[0]),
            "npts": int(gi.all_weights.size), "idx": gi.idx_map.astype(int).tolist(), "iatom": gi.iatom_list.astype(int).tolist(),
            "padding": pad, "wts": wts, "num_ok": num_ok, "why": why}


def observe(cfg, rid):
    spec = MOLS[cfg["mol"]]
    if isinstance(spec, dict):
        mol = gto.M(verbose=0, spin=cfg.get("spin", 0), **spec)
    else:
        mol = gto.M(atom=spec, basis="sto-3g", verbose=0, spin=cfg.get("spin", 0))
    g = CiderGrids(mol, lmax=cfg["lmax"])
    ref = dft.Grids(mol)
    for o in (g, ref):
        if isinstance(cfg["atom_grid"], dict):
            o.atom_grid = {k: tuple(v) for k, v in cfg["atom_grid"].items()}
            o.level = cfg["level"]
        elif cfg["atom_grid"] is not None:
            o.atom_grid = tuple(cfg["atom_grid"])
        else:
            o.level = cfg["level"]
        o.prune = PRUNES[cfg["prune"]]
        o.alignment = cfg["align"]
    g.build(sort_grids=cfg["sort"])
    ref.build(sort_grids=cfg["sort"])
    gi = g.grids_indexer
    why = []
    # ---- float side
    # (1) same multiset of (coords, weights) as pyscf
    def canon(c, w):
        a = np.concatenate([c, w[:, None]], axis=1)
        return a[np.lexsort(a.T[::-1])]
    if g.coords.shape != ref.coords.shape or not np.array_equal(canon(g.coords, g.weights), canon(ref.coords, ref.weights)):
        why.append("points/weights differ from pyscf.dft.Grids")
    # (2) atom-ordered grid recomputed from pyscf's partition
    # (pyscf's own gen_atomic_grids orders the shells of an atom differently, so the atom-ordered
    # arrays are taken from CiderGrids' tables + pyscf's Becke partition; they are tied to pyscf by
    # the multiset comparison above and to the integer tables by the per-shell geometry test below)
    tab = g.gen_atomic_grids(mol, g.atom_grid, g.radi_method, g.level, g.prune, build_indexer=False)
    all_coords, all_w = dft.Grids.get_partition(ref, mol, tab, ref.radii_adjust, ref.atomic_radii, ref.becke_scheme)
    if all_w.shape != gi.all_weights.shape or not np.array_equal(all_w, gi.all_weights):
        why.append("all_weights differ from the Becke partition of the atomic tables")
        all_coords = np.zeros((gi.all_weights.size, 3))
    if abs(all_w.sum() - ref.weights.sum()) > 1e-9 * abs(ref.weights.sum()):
        why.append("atom-ordered weights do not sum to pyscf's total weight")
    # (3) harmonics: per distinct (block, size) Gram matrix
    nlm = gi.nlm
    seen = set()
    for r in range(gi.nrad):
        n = int(gi.rad_loc[r + 1] - gi.rad_loc[r])
        key = (int(gi.ylm_loc[r]), n)
        if key in seen:
            continue
        seen.add(key)
        if gi.ylm_loc[r] + n > gi.ylm.shape[0]:
            why.append("ylm block outside table")
            continue
        Y = gi.ylm[gi.ylm_loc[r]: gi.ylm_loc[r] + n]
        leb = lebedev(n)
        lsh = min(LMAX_DICT[n], cfg["lmax"])
        k = (lsh + 1) ** 2
        G = 4 * np.pi * (Y[:, :k] * leb[:, 3:4]).T.dot(Y[:, :k])
        if not np.abs(G - np.eye(k)).max() < 1e-10:
            why.append("harmonics of a %d-point shell not orthonormal to degree %d (%.2e)" % (n, lsh, np.abs(G - np.eye(k)).max()))
        if k < nlm and np.any(Y[:, k:] != 0.0):
            why.append("harmonics above the shell degree not zero")
        d = gi.dirs[gi.ylm_loc[r]: gi.ylm_loc[r] + n]
        if nlm >= 4 and not np.abs(d - leb[:, :3]).max() < 1e-12:
            why.append("dirs are not the quadrature directions")
        # the points of the shell really sit on these directions around the owning atom
        a = int(gi.ar_loc[r])
        pts = all_coords[gi.rad_loc[r]: gi.rad_loc[r + 1]] - mol.atom_coord(a)
        if not np.abs(pts - gi.rad_arr[r] * leb[:, :3]).max() < 1e-10:
            why.append("shell %d points are not rad*direction around atom %d" % (r, a))
    stages = [stage_of(g, mol, all_coords, "built")]
    stages[0]["num_ok"] = not why
    stages[0]["why"] = why
    # ---- density pruning stages
    for thr in cfg.get("prune_thr", []):
        ks = dft.RKS(mol) if mol.spin == 0 else dft.UKS(mol)
        dm = ks.get_init_guess(mol, "minao")
        if dm.ndim == 3:
            dm = dm[0] + dm[1]
        ao = dft.numint.eval_ao(mol, g.coords)
        rho = dft.numint.eval_rho(mol, ao, dm)
        nbefore = g.weights.size
        g.prune_by_density_(rho.copy(), threshold=thr)
        st = stage_of(g, mol, all_coords, "pruned")
        w2 = []
        # reference pruning by pyscf on the reference grid
        ao_r = dft.numint.eval_ao(mol, ref.coords)
        rho_r = dft.numint.eval_rho(mol, ao_r, dm)
        ref.prune_by_density_(rho_r.copy(), threshold=thr)
        if g.coords.shape != ref.coords.shape or not np.array_equal(canon(g.coords, g.weights), canon(ref.coords, ref.weights)):
            w2.append("pruned grid differs from pyscf's pruned grid")
        if g.weights.size != nbefore and (g.non0tab is None or g.non0tab.shape[0] != (g.weights.size + gen_grid.BLKSIZE - 1) // gen_grid.BLKSIZE):
            w2.append("non0tab not rebuilt for the pruned grid")
        st["num_ok"] = not w2
        st["why"] = w2
        st["dropped"] = int(nbefore - g.weights.size)
        stages.append(st)
    shells = element_shells(mol, ref)
    return {"id": rid, "atoms": [mol.atom_symbol(i) for i in range(mol.natm)], "shells": shells, "align": int(cfg["align"]),
            "stages": stages, "_cfg": cfg}


def configs(tier, rnd):
    out = []
    base = dict(level=0, atom_grid=None, prune="nwchem", sort=True, align=8, lmax=10, prune_thr=[])
    mols = ["H2", "H2O", "LiH", "HOH", "CH3", "He"]
    # sweep each dimension around the base, then random combinations
    for m in mols:
        out.append(dict(base, mol=m, spin=1 if m == "CH3" else 0))
    for ag in [(3, 6), (4, 14), (6, 26), (10, 50), (12, 110), (5, 38)]:
        for pr in ("nwchem", "none"):
            out.append(dict(base, mol="H2O", atom_grid=list(ag), prune=pr))
    for pr in PRUNES:
        out.append(dict(base, mol="LiH", prune=pr, level=1))
    for al in (0, 1, 3, 8, 16, 56):
        out.append(dict(base, mol="HOH", align=al, atom_grid=[7, 14]))
    for lm in (1, 2, 3, 6, 10, 12):
        out.append(dict(base, mol="H2O", lmax=lm, atom_grid=[6, 26]))
    # per-label layouts (dict atom_grid; atoms not named fall back to the level)
    for m, ag in (("H2O_lab", {"H1": [8, 50]}), ("H2O_lab", {"H1": [6, 26], "H2": [6, 14]}), ("H2O_lab", {"H2": [9, 38], "O": [10, 50]}),
                  ("H2_lab", {"H2": [5, 14]}), ("H2_lab", {"H1": [7, 26], "H2": [7, 50]}), ("CH3_lab", {"H1": [6, 38]}),
                  ("CH3_lab", {"H": [5, 14], "H1": [5, 26]}), ("H2O", {"H": [6, 26]}), ("H2O_lab", None)):
        for pr in ("nwchem", "none"):
            out.append(dict(base, mol=m, atom_grid=ag, prune=pr, spin=1 if m.startswith("CH3") else 0))
    for m in ("NaH_ecp", "SiH2_ecp"):
        for lvl in (0, 1):
            out.append(dict(base, mol=m, level=lvl))
        out.append(dict(base, mol=m, atom_grid=[8, 26], prune="none"))
    out.append(dict(base, mol="H2O", sort=False))
    out.append(dict(base, mol="CH3", spin=1, sort=False, align=1))
    for thr in ([1e-2], [1e-4, 1e-2], [1e-1], [1e-6]):
        out.append(dict(base, mol="H2O", prune_thr=thr))
        out.append(dict(base, mol="LiH", prune_thr=thr, align=1, atom_grid=[10, 50]))
    n_extra = 20 if tier == "quick" else 200
    for _ in range(n_extra):
        m = rnd.choice(mols)
        out.append(dict(mol=m, spin=1 if m == "CH3" else 0, level=rnd.choice([0, 1, 2] if tier == "quick" else [0, 1, 2, 3]),
                        atom_grid=rnd.choice([None, None, [3, 6], [5, 14], [8, 26], [9, 38], [11, 50], [6, 86]]),
                        prune=rnd.choice(list(PRUNES)), sort=rnd.random() < 0.8, align=rnd.choice([0, 1, 2, 8, 8, 16, 7]),
                        lmax=rnd.choice([10, 10, 6, 4, 3, 8]), prune_thr=rnd.choice([[], [], [1e-3], [1e-5, 1e-2]])))
    return out


def main():
    ck = Check("C19", "model_checking")
    rnd = random.Random(ck.seed)
    ck.rule = ("grid = (molecule, level | atom_grid, pruning scheme, sort_grids, alignment, lmax, density-pruning thresholds); "
               "every dimension swept around a base + seeded random combinations; each real CiderGrids (after build and after "
               "each prune_by_density_) is validated by Trace_GridIndex; non-trivial = more than one atom or a non-default option")
    name = "MC_GridIndex_small.cfg" if ck.tier == "quick" else "MC_GridIndex_full.cfg"
    r = run_tlc("MC_GridIndex", name, workers=16, coverage=(ck.tier == "quick"), timeout=3000)
    if r.error:
        raise MachineryError("TLC: " + r.error)
    ck.add_tlc(name, r, require_actions=("FromTabs", "DoSetIdx", "DoPad", "DoPrune") if ck.tier == "quick" else ())
    ck.exhaustive = True
    ck.log("model: %s" % r)
    for v in r.violated:
        ck.violation("model:GridIndex:" + v, {"tlc": r.out[-2500:]})
    recs = []
    for k, cfg in enumerate(configs(ck.tier, rnd)):
        try:
            rec = observe(cfg, "g%d" % k)
        except Exception as ex:
            ck.violation("build:exception:%s:lmax=%s" % (type(ex).__name__, "10" if cfg["lmax"] == 10 else "other"),
                         {"cfg": cfg, "msg": str(ex)[:300]}, replay={"cfg": cfg})
            ck.count(key=None)
            continue
        recs.append(rec)
        ck.count(key=rec["id"] if (len(rec["atoms"]) > 1 or cfg != {}) else None)
        if k in (1, 30):
            st = rec["stages"][0]
            ck.sample({"cfg": cfg, "atoms": rec["atoms"], "shells": rec["shells"], "rad_loc_head": st["rad_loc"][:8],
                       "ylm_loc_head": st["ylm_loc"][:8], "npts": st["npts"], "nsorted": len(st["idx"]), "padding": st["padding"]})
    ck.log("observed %d grids (%d stages)" % (len(recs), sum(len(r_["stages"]) for r_ in recs)))
    ck.extra["prune_stages_that_dropped_points"] = sum(1 for r_ in recs for st in r_["stages"] if st.get("dropped", 0) > 0)
    ck.extra["grids_with_padding"] = sum(1 for r_ in recs if r_["stages"][0]["padding"] > 0)
    if ck.extra["prune_stages_that_dropped_points"] == 0 or ck.extra["grids_with_padding"] == 0:
        raise MachineryError("vacuous: no pruning stage dropped points / no padded grid")
    res = validate_records("Trace_GridIndex", "Trace_GridIndex.cfg", recs, nchunks=8, timeout=3000)
    ck.traces += res["accepted"]
    ck.states += res["states"]
    ck.transitions += res["generated"]
    byid = {r_["id"]: r_ for r_ in recs}
    for rid, inv in res["rejected"]:
        rc = byid[rid]
        whys = [w for st in rc["stages"] for w in st["why"]]
        ck.violation("grid:%s%s" % (inv, (":" + whys[0].split("(")[0].strip()) if (inv == "NumericOK" and whys) else ""),
                     {"cfg": rc["_cfg"], "clause": inv, "why": whys[:5]}, replay={"cfg": rc["_cfg"]})
    if res["drift"]:
        ck.notes.append("model drift: %d grids whose tables differ from GridIndex!Tables (layout change; invariants judged on observed tables)" % len(res["drift"]))
    # ---- binding self-test
    bad = copy.deepcopy(next(r_ for r_ in recs if len(r_["atoms"]) > 1 and len(r_["stages"][0]["idx"]) > 10))
    bad["id"] = "selftest"
    s0 = bad["stages"][0]
    s0["idx"][3], s0["idx"][4] = s0["idx"][4], s0["idx"][3]
    st = validate_records("Trace_GridIndex", "Trace_GridIndex.cfg", [bad], nchunks=1)
    if not st["rejected"]:
        raise MachineryError("self-test: corrupted idx_map accepted")
    ck.extra["selftest"] = "swapping two idx_map entries of an observed grid is rejected (%s)" % st["rejected"][0][1]
    ck.assumptions = ["pyscf.dft.Grids (gen_atomic_grids/get_partition/prune_by_density_) is the reference for points and weights",
                      "Lebedev weights from pyscf's MakeAngularGrid"]
    return ck.finish()


if __name__ == "__main__":
    if len(sys.argv) > 2 and sys.argv[1] == "--replay":
        import json
        rp = json.load(open(sys.argv[2]))
        for occ in rp["occurrences"][:3]:
            rec = observe(occ["replay"]["cfg"], "replay")
            print([(s["phase"], s["num_ok"], s["why"]) for s in rec["stages"]])
        sys.exit(0)
    main_wrapper(main)
