"""Run-time recorder for the integrator / generator life cycle (no change to /repo needed).
Wraps the Python methods that are the linearisation points (single-threaded at the Python level:
the return of the call is the linearisation point and program order is the total order) and
appends one event per call AFTER it returns (also on the exception path)."""
import cvload  # noqa: F401
import contextlib
import functools

import numpy as np

from common import Interner, fp

import ciderpress.pyscf.numint as cnumint
from ciderpress.dft.lcao_nldf_generator import LCAONLDFGenerator
from ciderpress.pyscf.sdmx import EXXSphGenerator


class Recorder:
    def __init__(self):
        self.events = []
        self.intern = Interner()       # array fingerprints -> small ints
        self.objs = Interner()         # object identity -> small ints
        self.keep = []                 # keep-alive so id() is never reused
        self.depth_init = 0
        self.call = None               # context of the running nr_* call
        self.feats = []                # feature arrays returned in this call (for provenance)
        self.cur_block = None

    def oid(self, o):
        if o is None:
            return 0
        self.keep.append(o)
        return self.objs(id(o))

    def f(self, a):
        return self.intern(fp(np.asarray(a)))

    def emit(self, ev, **kw):
        kw["ev"] = ev
        kw["seq"] = len(self.events) + 1
        self.events.append(kw)


def _wrap(cls, name, make):
    orig = cls.__dict__[name]
    new = make(orig)
    setattr(cls, name, new)
    return (cls, name, orig)


@contextlib.contextmanager
def recording(rec):
    undo = []

    # ---- Reset / build
    def mk_reset(orig):
        @functools.wraps(orig)
        def w(self, mol=None):
            try:
                return orig(self, mol)
            finally:
                rec.emit("Reset", mol=rec.oid(mol))
        return w
    undo.append(_wrap(cnumint.CiderNumIntMixin, "reset", mk_reset))
    undo.append(_wrap(cnumint.CiderNumIntMixin, "build", mk_reset))

    # ---- generator initialisation (outermost call only) == NrBegin
    def mk_init(orig):
        @functools.wraps(orig)
        def w(self, mol, grids, nspin):
            rec.depth_init += 1
            ok = False
            try:
                r = orig(self, mol, grids, nspin)
                ok = True
                return r
            finally:
                rec.depth_init -= 1
                if rec.depth_init == 0:
                    c = rec.call or {}
                    rec.emit("NrBegin", ok=ok, nspin=int(nspin), mol=rec.oid(mol), grids=rec.oid(grids),
                             gen=rec.oid(getattr(self, "nldfgen", None)), sdmx=rec.oid(getattr(self, "sdmxgen", None)),
                             dms=c.get("dms", []), kind=c.get("kind", "?"), ngrids=int(grids.weights.size),
                             has_nldf=bool(self.has_nldf), has_sdmx=bool(self.has_sdmx))
        return w
    undo.append(_wrap(cnumint.CiderNumIntMixin, "initialize_feature_generators", mk_init))
    undo.append(_wrap(cnumint.NLDFNumInt, "initialize_feature_generators", mk_init))
    undo.append(_wrap(cnumint.NLDFNLOFNumInt, "initialize_feature_generators", mk_init))

    # ---- nr_* entry / exit
    def mk_nr(kind):
        def make(orig):
            @functools.wraps(orig)
            def w(ni, mol, grids, xc_code, dms, *a, **k):
                d = np.asarray(dms)
                nspin = 1 if kind == "rks" else 2
                if nspin == 1:
                    dd = d[None] if d.ndim == 2 else d
                    fps = [[rec.f(x)] for x in dd]
                else:
                    da, db = d[0], d[1]
                    if da.ndim == 2:
                        da, db = da[None], db[None]
                    fps = [[rec.f(x), rec.f(y)] for x, y in zip(da, db)]
                before = fp(d)
                rec.call = {"dms": fps, "kind": kind}
                rec.feats = []
                exc = None
                try:
                    return orig(ni, mol, grids, xc_code, dms, *a, **k)
                except Exception as e:
                    exc = type(e).__name__
                    raise
                finally:
                    rec.emit("NrEnd", dms_clean=bool(fp(np.asarray(dms)) == before), exc=exc)
                    rec.call = None
            return w
        return make
    for cls in (cnumint.CiderNumInt, cnumint._NLDFMixin):
        undo.append(_wrap(cls, "nr_rks", mk_nr("rks")))
        undo.append(_wrap(cls, "nr_uks", mk_nr("uks")))

    # ---- block loops: one event per completed loop
    def mk_loop(label):
        def make(orig):
            @functools.wraps(orig)
            def w(self, mol, grids, *a, **k):
                bounds = []
                ip0 = 0
                try:
                    for item in orig(self, mol, grids, *a, **k):
                        weight = item[-2]
                        ip1 = ip0 + int(weight.size)
                        bounds.append([ip0, ip1])
                        rec.cur_block = (label, ip0, ip1)
                        ip0 = ip1
                        yield item
                finally:
                    rec.emit("BlockLoop", loop=label, bounds=bounds, ngrids=int(grids.weights.size))
            return w
        return make
    undo.append(_wrap(cnumint.CiderNumInt, "block_loop", mk_loop("block")))
    undo.append(_wrap(cnumint._NLDFMixin, "extra_block_loop", mk_loop("extra")))

    # ---- NLDF generator
    def mk_gf(orig):
        @functools.wraps(orig)
        def w(self, rho_in, spin=0, *a, **k):
            before = fp(rho_in)
            ok = False
            try:
                r = orig(self, rho_in, spin, *a, **k)
                ok = True
                rec.feats.append((spin, r))
                return r
            finally:
                c = self._cache.get(spin)
                rec.emit("FeaturePass", ok=ok, gen=rec.oid(self), spin=int(spin), rho=rec.f(rho_in),
                         cache=(rec.f(c["rho_in"]) if c is not None else 0),
                         input_clean=bool(fp(rho_in) == before), k=len(rec.feats))
        return w
    undo.append(_wrap(LCAONLDFGenerator, "get_features", mk_gf))

    def mk_gp(orig):
        @functools.wraps(orig)
        def w(self, vfeat, spin=0, *a, **k):
            before = fp(vfeat)
            c = self._cache.get(spin)
            cache = rec.f(c["rho_in"]) if c is not None else 0
            ok = False
            try:
                r = orig(self, vfeat, spin, *a, **k)
                ok = True
                return r
            finally:
                rec.emit("PotentialPass", ok=ok, gen=rec.oid(self), spin=int(spin), cache=cache,
                         input_clean=bool(fp(vfeat) == before))
        return w
    undo.append(_wrap(LCAONLDFGenerator, "get_potential", mk_gp))

    # ---- SDMX generator
    def mk_sf(orig):
        @functools.wraps(orig)
        def w(self, dm, mol, coords, *a, **k):
            d = np.asarray(dm)
            fps = [rec.f(d)] if d.ndim == 2 else [rec.f(x) for x in d]
            ok = False
            try:
                r = orig(self, dm, mol, coords, *a, **k)
                ok = True
                return r
            finally:
                rec.emit("SDMXFeat", ok=ok, dm=fps, coords=rec.f(coords))
        return w
    undo.append(_wrap(EXXSphGenerator, "get_features", mk_sf))

    def mk_sv(orig):
        @functools.wraps(orig)
        def w(self, vxc_mat, vxc_grid, *a, **k):
            slot = -1
            base = vxc_mat.base
            while base is not None and getattr(base, "base", None) is not None:
                base = base.base
            if base is not None:
                off = vxc_mat.__array_interface__["data"][0] - base.__array_interface__["data"][0]
                nao = vxc_mat.shape[-1]
                slot = int(off // (nao * nao * 8))
                if vxc_mat.ndim == 3 and base.ndim == 4:   # unrestricted: vmat[:, i] of (2, nset, nao, nao)
                    slot = slot % base.shape[1]
            cached = self._cached_ao_data
            ccoords = rec.f(cached[5]) if cached is not None else 0
            try:
                return orig(self, vxc_mat, vxc_grid, *a, **k)
            finally:
                rec.emit("SDMXVxc", slot=slot, coords=ccoords)
        return w
    undo.append(_wrap(EXXSphGenerator, "get_vxc_", mk_sv))

    # ---- one XC evaluation per (block, idm)
    def mk_xc(orig):
        @functools.wraps(orig)
        def w(self, xc_code, rho, nldf_feat, sdmx_feat, *a, **k):
            src = []
            if nldf_feat is not None and rec.cur_block is not None:
                _, ip0, ip1 = rec.cur_block
                nf = np.asarray(nldf_feat)
                nf = nf[None] if nf.ndim == 2 else nf
                for s in range(nf.shape[0]):
                    hit = []
                    for kk, (sp, F) in enumerate(rec.feats):
                        if F.shape[-1] >= ip1 and F[:, ip0:ip1].shape == nf[s].shape and np.array_equal(F[:, ip0:ip1], nf[s]):
                            hit.append(kk + 1)
                    src.append(hit)
            try:
                return orig(self, xc_code, rho, nldf_feat, sdmx_feat, *a, **k)
            finally:
                rec.emit("XC", feat_from=src, block=list(rec.cur_block[1:]) if rec.cur_block else [])
        return w
    undo.append(_wrap(cnumint.CiderNumIntMixin, "eval_xc_cider", mk_xc))

    try:
        yield rec
    finally:
        for cls, name, orig in reversed(undo):
            setattr(cls, name, orig)
