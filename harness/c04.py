"""C04 -- model evaluators return consistent energy densities and feature derivatives.
  M: spec/EvalModes.tla: dataflow of one mapped-kernel evaluation over symbolic buffers (every
     evaluator adds once into the shared value AND derivative buffers, mask hits both, point-local)
  R: every configuration TLC emits (version x mode x nspin x evaluator list x baselines x rhocut
     position) is built with the real classes; oracle: Richardson finite differences of the returned
     energy density w.r.t. every input feature of every spin channel (and, for the libxc-backed
     version, w.r.t. rho/sigma/tau), evaluator-accumulation semantics, mask consistency,
     spin-swap equivariance; chunk-boundary sample counts for the Python kernel evaluator"""
import cvload  # noqa: F401
import sys

import numpy as np

import os

from common import handle_crash, Check, MachineryError, main_wrapper, run_tlc, run_workers, tlc_printed_values, worker_main
import models as M
from ciderpress.dft import baselines
from ciderpress.dft.transform_data import FeatureList, UMap
from ciderpress.dft.xc_evaluator import (AntisymRBFEvaluator, GlobalLinearEvaluator, KernelEvaluator, MappedDFTKernel, MappedXC,
                                         RBFEvaluator, SpinRBFEvaluator, SplineSetEvaluator)
from ciderpress.dft.xc_evaluator2 import MappedDFTKernel2, MappedXC2
from ciderpress.models.kernel_plans.kernel_tools import get_rbf_kernel

N0, N1 = 5, 4
MUL1 = {"lda_x": baselines.lda_x, "gga_x": baselines.gga_x_pbe, "one": baselines.one_xc,
        "chachiyo": baselines.gga_x_chachiyo, "damp": baselines.nlda_x_damp}
ADD1 = {"none": None, "zero": baselines.zero_xc, "gga_c": baselines.gga_c_pbe}
MUL2 = {"lda_x": "LDA_X", "gga_x": "GGA_X_PBE", "one": "GGA_X_PBE_SOL"}
ADD2 = {"none": None, "zero": "LDA_C_PW_MOD", "gga_c": "GGA_C_PBE"}


def make_eval(kind, rng):
    nctrl = 6
    ls = 0.6 + 0.1 * np.arange(N1)
    alpha = rng.normal(size=nctrl) * 0.3
    if kind in ("kernel", "rbf"):
        k = get_rbf_kernel(slice(0, N1), ls, scale=1.3)
        X1c = rng.uniform(0, 1, size=(nctrl, N1))
        return (KernelEvaluator if kind == "kernel" else RBFEvaluator)(k, X1c, alpha)
    if kind == "kernelsum":
        # a SUM kernel with the constant term on the left, through the Python evaluator (the general route for kernels that
        # have no compiled evaluator): constant + constant * RBF
        from ciderpress.models import kernels as K
        k = K.DiffConstantKernel(0.4) + get_rbf_kernel(slice(0, N1), ls, scale=1.3)
        return KernelEvaluator(k, rng.uniform(0, 1, size=(nctrl, N1)), alpha)
    if kind == "antisym":
        k = get_rbf_kernel(slice(0, N1 - 1), ls[: N1 - 1], scale=0.9)
        return AntisymRBFEvaluator(k, rng.uniform(0, 1, size=(nctrl, N1)), alpha)
    if kind == "spinrbf":
        k = get_rbf_kernel(slice(0, N1), ls, scale=1.1)
        return SpinRBFEvaluator(k, rng.uniform(0, 1, size=(2, nctrl, N1)), alpha)
    if kind == "spline":
        g = lambda n: (0.0, 1.0, n)
        ind_sets = [[0], [1, 2], [0, 2, 3], [0, 1, 2, 3]]
        grids = [[g(7)], [g(5), g(6)], [g(4), g(5), g(4)], [g(4), g(4), g(4), g(4)]]
        coefs = [rng.normal(size=tuple(gr[2] + 2 for gr in gs)) * 0.2 for gs in grids]
        return SplineSetEvaluator([0.7, 1.1, 0.5, 0.3], ind_sets, grids, coefs, const=0.15)
    if kind == "linear":
        return GlobalLinearEvaluator(rng.normal(size=N1) * 0.2)
    raise ValueError(kind)


def features(rng, nspin, n, cut, rhocut):
    """normalised 'npa' features: [rho_s, p, alpha, nl1, nl2] per spin, admissible, away from kinks"""
    X = np.empty((nspin, N0, n))
    X[:, 0] = np.exp(rng.uniform(np.log(0.05), np.log(3.0), size=(nspin, n)))
    X[:, 1] = rng.uniform(0.05, 2.0, size=(nspin, n))
    X[:, 2] = rng.uniform(0.05, 2.5, size=(nspin, n))
    X[:, 3:] = rng.uniform(0.2, 2.0, size=(nspin, N0 - 3, n))
    if cut == "splits":
        X[:, 0, : n // 2] = rhocut * rng.uniform(0.05, 0.3, size=(nspin, n // 2))
    elif cut == "above_all":
        X[:, 0] = rhocut * rng.uniform(0.05, 0.3, size=(nspin, n))
    return X


def rho_tuple_of(X, rng):
    nspin, _, n = X.shape
    rho = np.asfortranarray(X[:, 0].copy())
    sig = np.zeros((2 * nspin - 1, n), order="F")
    g = rng.uniform(0.05, 1.5, size=(nspin, n)) * rho ** (4.0 / 3)
    sig[::2] = g * g
    if nspin == 2:
        sig[1] = 0.6 * g[0] * g[1]
    tau = np.asfortranarray(sig[::2] / (8 * rho) + rng.uniform(0.1, 2.0, size=(nspin, n)) * rho ** (5.0 / 3))
    return rho, sig, tau


def fd(fun, x, h):
    f1 = (fun(x + h) - fun(x - h)) / (2 * h)
    f2 = (fun(x + 2 * h) - fun(x - 2 * h)) / (4 * h)
    return (4 * f1 - f2) / 3, np.abs(f1 - f2)


def check_cfg(ck, c, rng, n=12):
    ver, mode, nspin = c["ver"], c["mode"], c["nspin"]
    rhocut = {"off": 0.0, "below_all": 1e-6, "splits": 0.5, "above_all": 50.0}[c["cut"]]
    fl = FeatureList([UMap(i, 0.3 + 0.1 * i) for i in range(1, 1 + N1)])
    evs = [make_eval(k, rng) for k in c["evals"]]
    tag = "%s:%s:nspin=%d:%s" % (ver, mode, nspin, "+".join(c["evals"]))
    try:
        if ver == "v1":
            mk = MappedDFTKernel(evs, fl, mode, MUL1[c["mul"]], ADD1[c["add"]])
        else:
            mk = MappedDFTKernel2(evs, fl, mode, MUL2[c["mul"]], ADD2[c["add"]])
    except Exception as ex:
        ck.violation("construct:%s:%s" % (ver, type(ex).__name__), {"cfg": c, "msg": str(ex)[:200]}, replay={"cfg": c})
        return
    X = features(rng, nspin, n, c["cut"], rhocut)
    rt = rho_tuple_of(X, rng) if ver == "v2" else None

    def E(Y, rtt=None):
        if ver == "v1":
            return np.asarray(mk(Y.copy(), rhocut=rhocut)[0])
        rr = rt if rtt is None else rtt
        vt = tuple(np.zeros_like(r, order="F") for r in rr)
        return np.asarray(mk(Y.copy(), tuple(r.copy(order="F") for r in rr), vt, rhocut=rhocut)[0])
    try:
        if ver == "v1":
            e, de = mk(X.copy(), rhocut=rhocut)
            vt = None
        else:
            vt = tuple(np.zeros_like(r, order="F") for r in rt)
            e, de = mk(X.copy(), tuple(r.copy(order="F") for r in rt), vt, rhocut=rhocut)
    except Exception as ex:
        ck.violation("call:%s:add=%s:%s" % (ver, c["add"], type(ex).__name__), {"cfg": c, "msg": str(ex)[:300]}, replay={"cfg": c})
        return
    e, de = np.asarray(e), np.asarray(de)
    ck.count(key=repr(c))
    if e.shape != (n,) or de.shape != X.shape:
        ck.violation("shape:%s" % tag, {"cfg": c, "e": list(e.shape), "de": list(de.shape)}, replay={"cfg": c})
        return
    if not (np.all(np.isfinite(e)) and np.all(np.isfinite(de))):
        ck.violation("non-finite:%s" % tag, {"cfg": c}, replay={"cfg": c})
        return
    # ---- derivative w.r.t. every feature of every spin channel
    worst, where = 0.0, None
    for s in range(nspin):
        for i in range(N0):
            d = np.zeros_like(X)
            d[s, i] = 1.0
            h = 1e-5 * np.maximum(1e-3, np.abs(X[s, i]))
            g, est = fd(lambda hh: E(X + d * hh), 0.0, h)
            # a point whose own or total density sits within a step of the cutoff is not differentiable
            near = np.zeros(n, dtype=bool)
            if rhocut > 0 and i == 0:
                tot = X[:, 0].sum(0) if mode != "SEP" else X[s, 0]
                near = np.abs(tot - rhocut) < 10 * h
            err = np.abs(g - de[s, i]) - 20 * est - 2e-7 * (1 + np.abs(g))
            err = np.where(np.isfinite(err), err, np.inf)      # a non-finite derivative is never 'within tolerance'
            err[near] = 0
            if err.max() > worst:
                worst, where = float(err.max()), (s, i)
    if worst > 0:
        ck.violation("deriv-vs-fd:%s:mul=%s:add=%s:cut=%s" % (tag, c["mul"], c["add"], c["cut"]),
                     {"cfg": c, "excess": worst, "spin,feature": where}, replay={"cfg": c})
    # ---- v2: derivative w.r.t. the density ingredients handed to the libxc baselines
    if ver == "v2":
        for which in range(3):
            for row in range(rt[which].shape[0]):
                def Er(hh):
                    r2 = [r.copy(order="F") for r in rt]
                    r2[which][row] += hh
                    return E(X, tuple(r2))
                h = 1e-5 * np.maximum(1e-3, np.abs(rt[which][row]))
                g, est = fd(Er, 0.0, h)
                err = np.abs(g - vt[which][row]) - 20 * est - 2e-7 * (1 + np.abs(g))
                err = np.where(np.isfinite(err), err, np.inf)
                if which == 0 and rhocut > 0:
                    tot = rt[0].sum(0) if mode != "SEP" else rt[0][row]
                    err[np.abs(tot - rhocut) < 10 * h] = 0
                if err.max() > 0:
                    ck.violation("v2-density-deriv-vs-fd:%s:%s:mul=%s:add=%s:cut=%s" % (mode, ("rho", "sigma", "tau")[which], c["mul"], c["add"], c["cut"]),
                                 {"cfg": c, "excess": float(err.max()), "row": row}, replay={"cfg": c})
                    break
    # ---- low-density cutoff: masked points have exactly zero ML energy and zero feature derivative
    if rhocut > 0 and ver == "v1":
        dens = X[:, 0] if mode == "SEP" else np.repeat(X[:, 0].sum(0)[None], nspin, 0)
        allm = np.all(dens < rhocut, axis=0)
        if np.any(e[allm] != 0.0):
            ck.violation("rhocut:%s:energy-not-zero-below-cutoff" % tag, {"cfg": c}, replay={"cfg": c})
        for s in range(nspin):
            if np.any(de[s][:, dens[s] < rhocut] != 0.0):
                ck.violation("rhocut:%s:derivative-not-zero-below-cutoff" % tag, {"cfg": c}, replay={"cfg": c})
    # ---- spin labels: swapping the input channels swaps the derivative channels
    if nspin == 2 and "antisym" not in c["evals"]:
        if ver == "v1":
            e2, de2 = mk(X[::-1].copy(), rhocut=rhocut)
        else:
            rts = (np.asfortranarray(rt[0][::-1]), np.asfortranarray(rt[1][::-1]), np.asfortranarray(rt[2][::-1]))
            e2, de2 = mk(X[::-1].copy(), rts, tuple(np.zeros_like(r, order="F") for r in rts), rhocut=rhocut)
        sc = 1 + np.abs(e).max()
        if np.abs(np.asarray(e2) - e).max() > 1e-11 * sc or np.abs(np.asarray(de2)[::-1] - de).max() > 1e-10 * (1 + np.abs(de).max()):
            ck.violation("spin-swap:%s:mul=%s:add=%s" % (tag, c["mul"], c["add"]), {"cfg": c}, replay={"cfg": c})


def accumulation(ck, rng):
    """evaluators ADD into the buffers they are given: after - before = evaluator alone"""
    for kind in ("kernel", "kernelsum", "rbf", "antisym", "spline", "linear", "spinrbf"):
        ev = make_eval(kind, rng)
        for n in (1, 7, 1999, 2000, 2001, 4001) if kind in ("kernel", "kernelsum") else (1, 7, 33):
            X1 = rng.uniform(0.05, 0.95, size=(2, n, N1) if kind == "spinrbf" else (n, N1))
            f0 = rng.normal(size=n)
            d0 = rng.normal(size=X1.shape)
            fa, da = f0.copy(), d0.copy()
            ev(X1.copy(), fa, da)
            fb, db = ev(X1.copy())
            ck.count(key=("acc", kind, n))
            if np.shape(fb) != (n,) or np.shape(db) != X1.shape:
                ck.violation("accumulate:%s:result-shape" % kind, {"n": n, "res": list(np.shape(fb)), "dres": list(np.shape(db))})
                continue
            const = getattr(ev, "const", 0.0) if kind == "spline" else 0.0
            if np.abs((fa - f0) - fb).max() > 1e-12 * (1 + np.abs(fb).max()) or np.abs((da - d0) - db).max() > 1e-12 * (1 + np.abs(db).max()):
                ck.violation("accumulate:%s:not-additive" % kind, {"n": n})
            # value/derivative consistency of the bare evaluator at chunk boundaries
            if kind in ("kernel", "kernelsum"):
                j = 1
                h = 1e-6
                Xp, Xm = X1.copy(), X1.copy()
                Xp[:, j] += h
                Xm[:, j] -= h
                g = (ev(Xp)[0] - ev(Xm)[0]) / (2 * h)
                if np.abs(g - db[:, j]).max() > 1e-6 * (1 + np.abs(g).max()):
                    ck.violation("kernel-evaluator:chunk-boundary:deriv", {"n": n, "err": float(np.abs(g - db[:, j]).max())})


def special_points(ck, rng):
    """the derivative array of every bare evaluator against finite differences of its value at points where a special-cased
    branch could sit: two (or all) features exactly equal, a feature exactly at a control point's value, a point that IS a
    control point, features exactly 0 / 1 (not for splines: outside their grid the package extrapolates, observation O8)"""
    for kind in ("kernel", "kernelsum", "rbf", "antisym", "linear", "spinrbf", "spline"):
        ev = make_eval(kind, rng)
        ctrl = getattr(ev, "_X1ctrl", getattr(ev, "X1ctrl", None))
        base = rng.uniform(0.15, 0.85, size=(8, N1))
        base[0, 1] = base[0, 0]                       # the first two features equal (the node of the antisymmetric kernel)
        base[1, :] = base[1, 0]                       # all features equal
        base[2, 0], base[2, 1] = base[2, 1], base[2, 1]
        if ctrl is not None:
            c0 = np.asarray(ctrl).reshape(-1, N1)[0]
            if kind != "spline" and np.all((c0 > 0.05) & (c0 < 0.95)):
                base[3] = c0                          # the point is a control point
            base[4, 2] = float(np.asarray(ctrl).reshape(-1, N1)[1, 2])
        if kind != "spline":
            base[5, 0], base[6, 1] = 0.0, 1.0
            base[7, :2] = 0.0
        X1 = np.stack([base, base[::-1] * 0.9 + 0.05]) if kind == "spinrbf" else base
        f, df = ev(X1.copy())
        f, df = np.array(f, copy=True), np.array(df, copy=True)
        ck.count(key=("special", kind))
        if not (np.all(np.isfinite(f)) and np.all(np.isfinite(df))):
            ck.violation("special-points:%s:non-finite" % kind, {})
            continue
        h = 1e-5
        worst, where = 0.0, None
        it = [(s, j) for s in range(2) for j in range(N1)] if kind == "spinrbf" else [(None, j) for j in range(N1)]
        for s_, j in it:
            def val(hh):
                Y = X1.copy()
                if s_ is None:
                    Y[:, j] += hh
                else:
                    Y[s_, :, j] += hh
                return np.array(ev(Y)[0], copy=True)
            g1 = (val(h) - val(-h)) / (2 * h)
            g2 = (val(2 * h) - val(-2 * h)) / (4 * h)
            g = (4 * g1 - g2) / 3
            d = df[:, j] if s_ is None else df[s_, :, j]
            err = np.abs(g - d) - 20 * np.abs(g1 - g2) - 1e-7 * (1 + np.abs(g))
            if float(err.max()) > worst:
                worst, where = float(err.max()), (s_, j, int(np.argmax(err)))
        if worst > 0:
            ck.violation("special-points:%s:derivative-differs-from-finite-difference-of-the-value" % kind,
                         {"excess": worst, "spin": where[0], "feature": where[1], "row": where[2],
                          "rows": "0: x0 == x1; 1: all equal; 2: x0 == x1 (other order); 3: a control point; 4: one feature of a control point; 5-7: features exactly 0 / 1"})


def value_semantics(ck, rng, hists):
    """spec/ValueSemantics.tla replayed on the evaluators and on mapped kernels: the caller reuses / overwrites its
    feature arrays between calls and keeps earlier results (energy densities, derivative arrays)."""
    import copy
    import valuesem
    for kind in ("kernel", "kernelsum", "rbf", "antisym", "spline", "linear", "spinrbf"):
        ev = make_eval(kind, rng)
        fresh = copy.deepcopy(ev)
        shape = (2, 9, N1) if kind == "spinrbf" else (9, N1)
        vals = {c: rng.uniform(0.05, 0.95, size=shape) for c in ("c1", "c2", "c3")}
        for h in hists:
            ck.count(key=("vs", kind))
            bad = valuesem.replay(h, vals, lambda A: ev(A), lambda A: fresh(A), tol=1e-12)
            if bad:
                ck.violation("value-semantics:evaluator:%s:%s" % (kind, bad[0][0]), {"history": h, "step": bad[0][1], "op": bad[0][2]})
                break
    fl = FeatureList([UMap(i, 0.3 + 0.1 * i) for i in range(1, 1 + N1)])
    for ver, mode, nspin, kinds in (("v1", "SEP", 2, ["rbf"]), ("v1", "NPOL", 1, ["kernel", "linear"]), ("v1", "POL", 2, ["spinrbf"]),
                                   ("v2", "SEP", 1, ["spline"]), ("v2", "NPOL", 2, ["rbf"])):
        evs = [make_eval(k, rng) for k in kinds]
        if ver == "v1":
            mk = MappedDFTKernel(evs, fl, mode, MUL1["lda_x"], ADD1["zero"])
        else:
            mk = MappedDFTKernel2(evs, fl, mode, MUL2["gga_x"], ADD2["gga_c"])
        fresh = copy.deepcopy(mk)
        vals = {c: features(rng, nspin, 8, "off", 0.0) for c in ("c1", "c2", "c3")}
        rt = rho_tuple_of(vals["c1"], rng) if ver == "v2" else None

        def run(obj, A):
            if ver == "v1":
                return obj(A, rhocut=1e-6)
            vt = tuple(np.zeros_like(r, order="F") for r in rt)
            e_, de_ = obj(A, tuple(r.copy(order="F") for r in rt), vt, rhocut=1e-6)
            return (e_, de_) + vt
        for h in hists:
            ck.count(key=("vs", ver, mode, nspin))
            bad = valuesem.replay(h, vals, lambda A: run(mk, A), lambda A: run(fresh, A), tol=1e-12)
            if bad:
                ck.violation("value-semantics:mapped-kernel:%s:%s:%s" % (ver, mode, bad[0][0]), {"history": h, "step": bad[0][1], "op": bad[0][2]})
                break


def pairwise(cfgs, rng, want):
    """greedy pairwise cover over the configuration fields, then random fill"""
    keys = ("ver", "mode", "nspin", "mul", "add", "cut")
    def feats(c):
        vals = [(k, c[k]) for k in keys] + [("ev", tuple(c["evals"]))]
        return {(a, b) for i, a in enumerate(vals) for b in vals[i + 1:]}
    pool = list(cfgs)
    rng.shuffle(pool)
    chosen, covered = [], set()
    allp = set().union(*[feats(c) for c in pool])
    while covered != allp and len(chosen) < want and pool:
        best = max(range(min(len(pool), 400)), key=lambda i: len(feats(pool[i]) - covered))
        c = pool.pop(best)
        if not feats(c) - covered:
            break
        chosen.append(c)
        covered |= feats(c)
    chosen += pool[: max(0, want - len(chosen))]
    return chosen, len(covered), len(allp)


def main():
    ck = Check("C04", "exploration")
    rng = np.random.default_rng(ck.seed)
    quick = ck.tier == "quick"
    ck.rule = ("case = (version v1 native / v2 libxc baselines, mode, nspin, list of <=2 evaluator kinds, multiplicative baseline, "
               "additive baseline, rhocut position) emitted by TLC from EvalModes.tla; quick replays a pairwise cover + random fill, "
               "thorough all; each case: Richardson FD of energy density w.r.t. every feature of every spin channel (v2 also rho, "
               "sigma, tau), mask consistency, spin swap; plus accumulation semantics incl. chunk boundaries 1999/2000/2001/4001")
    r = run_tlc("EvalModes", "MC_EvalModes.cfg", workers=16, timeout=1800, coverage=False)
    if r.error:
        raise MachineryError("TLC: " + r.error)
    ck.add_tlc("EvalModes", r)
    ck.exhaustive = True
    for v in r.violated:
        ck.violation("model:EvalModes:" + v, {})
    cfgs = tlc_printed_values(r.out, "EVALCFG")
    uniq = {repr(c): c for c in cfgs}
    cfgs = list(uniq.values())
    ck.log("model: %s, %d configurations" % (r, len(cfgs)))
    if len(cfgs) < 1000:
        raise MachineryError("too few configurations emitted")
    if quick:
        chosen, ncov, nall = pairwise(cfgs, rng, 2500)
        ck.extra["pairwise_pairs_covered"] = "%d of %d" % (ncov, nall)
    else:
        chosen = cfgs
    jobs = [{"cfgs": chosen[k::48], "seed": ck.seed + k} for k in range(48)]
    for res in run_workers(os.path.abspath(__file__), jobs, nproc=16, timeout=3000):
        if "crash" in res:
            handle_crash(ck, res)
            continue
        for v in res["violations"]:
            ck.violation(v["site"], v["detail"], v["replay"])
        ck.evaluations += res["evaluations"]
        ck.distinct |= {x if isinstance(x, str) else repr(x) for x in res["distinct"]}
    ck.sample(chosen[0])
    ck.sample(chosen[len(chosen) // 2])
    import valuesem
    vs_hists = valuesem.model_and_histories(ck, want=8 if quick else 60)
    for res in run_workers(os.path.abspath(__file__), [{"acc": True, "seed": ck.seed, "vs_hists": vs_hists}], nproc=1, timeout=1200, allow_crash=True):
        if "worker_died" in res:
            ck.violation("accumulate:process-died", {"returncode": res["worker_died"], "log": res["log"][-400:]})
        elif "crash" in res:
            handle_crash(ck, res)
            continue
        else:
            for v in res["violations"]:
                ck.violation(v["site"], v["detail"], v["replay"])
            ck.evaluations += res["evaluations"]
            ck.distinct |= {x if isinstance(x, str) else repr(x) for x in res["distinct"]}
    # extra native baselines (thorough and quick: cheap)
    for mul in ("chachiyo", "damp"):
        for mode in ("SEP", "NPOL"):
            for nspin in (1, 2):
                c = {"ver": "v1", "mode": mode, "nspin": nspin, "evals": ["rbf"], "mul": mul, "add": "zero", "cut": "below_all"}
                check_cfg(ck, c, rng)
    # every libxc-backed baseline code of the live tables (incl. the same-spin / opposite-spin splits), in both roles
    live = []
    for tab in ("LDA_CODES", "GGA_CODES", "MGGA_CODES", "SS_GGA_CODES", "OS_GGA_CODES"):
        live += sorted(getattr(baselines, tab, {}).keys())
    libxc_cfgs = []
    for code in live:
        MUL2[code] = code
        ADD2[code] = code
        for role in ("mul", "add"):
            for mode in ("SEP", "NPOL"):
                for nspin in (1, 2):
                    c = {"ver": "v2", "mode": mode, "nspin": nspin, "evals": ["rbf"], "mul": code if role == "mul" else "gga_x",
                         "add": code if role == "add" else "none", "cut": "below_all"}
                    libxc_cfgs.append(c)
                    check_cfg(ck, c, rng)
    ck.extra["libxc_codes_checked"] = live
    # the same libxc-backed cases with THREE OpenMP threads and more points than threads (the libxc wrapper and the C kernel
    # evaluators partition the grid per thread: value and derivative must stay consistent whatever the team size)
    for res in run_workers(os.path.abspath(__file__), [{"threaded": True, "cfgs": libxc_cfgs, "live": live, "seed": ck.seed + 77}], nproc=1, timeout=3000, threads=3,
                           allow_crash=True):
        if "worker_died" in res:
            ck.violation("threads=3:process-died", {"returncode": res["worker_died"], "log": res["log"][-400:]})
        elif "crash" in res:
            handle_crash(ck, res)
            continue
        else:
            for v in res["violations"]:
                ck.violation("threads=3:" + v["site"], v["detail"], v["replay"])
            ck.evaluations += res["evaluations"]
    ck.assumptions = ["features in the admissible domain, away from non-smooth loci (Chachiyo s2<1e-8 branch, points within a FD step of rhocut)",
                      "NNEvaluator (torch) absent", "v2 'one' baseline stands for GGA_X_PBE_SOL, 'zero' for LDA_C_PW_MOD"]
    return ck.finish()


def worker(job):
    ck = Check("C04", "exploration")
    rng = np.random.default_rng(job["seed"])
    if job.get("threaded"):
        for code in job["live"]:
            MUL2[code] = code
            ADD2[code] = code
        for c in job["cfgs"]:
            check_cfg(ck, c, rng, n=23)
        for kinds, mode, nspin in ((["rbf"], "SEP", 2), (["kernel", "antisym"], "NPOL", 2), (["spinrbf"], "POL", 2), (["spline", "linear"], "SEP", 1)):
            check_cfg(ck, {"ver": "v1", "mode": mode, "nspin": nspin, "evals": kinds, "mul": "lda_x", "add": "gga_c", "cut": "splits"}, rng, n=23)
        return {"violations": ck.violations, "evaluations": ck.evaluations, "distinct": sorted(ck.distinct)}
    if job.get("acc"):
        accumulation(ck, rng)
        special_points(ck, rng)
        value_semantics(ck, rng, job.get("vs_hists", []))
        return {"violations": ck.violations, "evaluations": ck.evaluations, "distinct": sorted(ck.distinct)}
    for k, c in enumerate(job["cfgs"]):
        # the number of grid points in the batch is part of the quantifier: 1, 2, 3 collide with the spin / channel
        # axis lengths that the reshapes in the evaluators key on; 12 is the generic case
        check_cfg(ck, c, rng, n=(12, 2, 12, 1, 12, 3)[k % 6])
    return {"violations": ck.violations, "evaluations": ck.evaluations, "distinct": sorted(ck.distinct)}


if __name__ == "__main__":
    if len(sys.argv) > 1 and sys.argv[1] == "--worker":
        worker_main(worker)
        sys.exit(0)
    if len(sys.argv) > 2 and sys.argv[1] == "--replay":
        import json
        rp = json.load(open(sys.argv[2]))
        ck = Check("C04", "exploration")
        for occ in rp["occurrences"][:3]:
            check_cfg(ck, occ["replay"]["cfg"], np.random.default_rng(0))
        print(ck.violations)
        sys.exit(0)
    main_wrapper(main)
