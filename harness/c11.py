"""C11 -- mapped (fast) evaluators reproduce the Gaussian-process predictive function.
  M: spec/MapTerms.tla: spline-term order of the additive mapping vs per-term scale order
     (itertools.combinations order, constant exactly once), all (ns<=2, na<=5, order<=3)
  T: the ind_sets / scales the real mapping produces are compared with the model's (integer equality)
  R: every mappable kernel class x index subsets x length scales x scales: C squared-exponential
     evaluators vs the Python kernel sum and its input gradient (1e-12); spline-mapped models on
     points inside the feature bounds as a refinement ladder in grid density; per-dimension mapping
     factor vs the kernel's own factor"""
import cvload  # noqa: F401
import contextlib
import io
import itertools
import sys

import numpy as np

from common import Check, MachineryError, main_wrapper, run_tlc, tlc_printed_values
from ciderpress.dft.transform_data import FeatureList, UMap
from ciderpress.dft.xc_evaluator import (AntisymRBFEvaluator, GlobalLinearEvaluator, KernelEvaluator, RBFEvaluator,
                                         SplineSetEvaluator)
from ciderpress.models import kernels as K
from ciderpress.models.kernel_plans import map_tools
from ciderpress.models.kernel_plans.kernel_tools import get_agpr_kernel, get_rbf_kernel


def quiet(fn, *a, **k):
    with contextlib.redirect_stdout(io.StringIO()):
        return fn(*a, **k)


def py_sum(kernel, X, Xc, alpha):
    k, dk = kernel.k_and_deriv(X, Xc)
    return k.dot(alpha), np.einsum("gcn,c->gn", dk, alpha)


def rbf_cases(ck, rng):
    N1 = 5
    nctrl = 9
    Xc = rng.uniform(0, 1, size=(nctrl, N1))
    alpha = rng.normal(size=nctrl)
    X = rng.uniform(0, 1, size=(23, N1))
    ls = 0.4 + 0.15 * np.arange(N1)
    for scale in (1.0, 0.37):
        for idx_name, idx in (("slice-full", slice(0, N1)), ("slice-none-stop", slice(0, None)), ("slice-all-none", slice(None)),
                              ("slice-proper", slice(1, 4)), ("slice-step", slice(0, N1, 2)), ("list-full", list(range(N1))),
                              ("list-proper", [0, 2, 3])):
            ck.count(key=("rbf", scale, idx_name))
            try:
                kern = quiet(get_rbf_kernel, idx, ls, scale=scale)
                ev = RBFEvaluator(kern, Xc, alpha)
                f = np.zeros(X.shape[0])
                df = np.zeros_like(X)
                ev(X, f, df)
            except Exception as ex:
                ck.violation("rbf-evaluator:%s:%s" % (idx_name, type(ex).__name__), {"scale": scale, "msg": str(ex)[:200]})
                continue
            ref, dref = py_sum(kern, X, Xc, alpha)
            if np.abs(f - ref).max() > 1e-12 * (1 + np.abs(ref).max()) or np.abs(df - dref).max() > 1e-11 * (1 + np.abs(dref).max()):
                ck.violation("rbf-evaluator:%s:differs-from-kernel-sum" % idx_name, {"scale": scale, "err": float(np.abs(f - ref).max())})
    # ---- memory layout of control points / weights / inputs is not part of the model: Fortran-ordered (what
    # DFTKernel.set_control_points(reduce=True) stores), strided views and C-ordered copies must evaluate alike
    from ciderpress.dft.xc_evaluator import SpinRBFEvaluator
    wide = rng.uniform(0, 1, size=(2 * nctrl, N1 + 3))
    layouts = {"C": lambda a: np.ascontiguousarray(a), "F": lambda a: np.asfortranarray(a),
               "col-view": lambda a: _embed(a, wide_cols=True), "row-stride": lambda a: _embed(a, wide_cols=False)}

    def _embed(a, wide_cols):
        a = np.asarray(a)
        if a.ndim == 1:
            buf = np.zeros(2 * a.size)
            buf[::2] = a
            return buf[::2]
        if wide_cols:
            buf = np.zeros(a.shape[:-1] + (a.shape[-1] + 3,))
            buf[..., : a.shape[-1]] = a
            return buf[..., : a.shape[-1]]
        buf = np.zeros(a.shape[:-2] + (2 * a.shape[-2], a.shape[-1]))
        buf[..., ::2, :] = a
        return buf[..., ::2, :]
    kern = quiet(get_rbf_kernel, slice(0, N1), ls, scale=0.9)
    Xc2 = rng.uniform(0, 1, size=(2, nctrl, N1))
    X2 = rng.uniform(0, 1, size=(2, 23, N1))
    classes = {"RBFEvaluator": (RBFEvaluator, Xc, X), "KernelEvaluator": (KernelEvaluator, Xc, X), "SpinRBFEvaluator": (SpinRBFEvaluator, Xc2, X2)}
    for cname, (cls, xc0, x0) in classes.items():
        ref_f, ref_d = cls(kern, np.ascontiguousarray(xc0), alpha.copy())(np.ascontiguousarray(x0).copy())
        for lname, lay in layouts.items():
            for what in ("ctrl", "alpha", "input"):
                ck.count(key=("layout", cname, lname, what))
                try:
                    ev = cls(kern, lay(xc0) if what == "ctrl" else np.ascontiguousarray(xc0), lay(alpha) if what == "alpha" else alpha.copy())
                    f, d = ev(lay(x0) if what == "input" else np.ascontiguousarray(x0).copy())
                except Exception as ex:
                    ck.violation("evaluator-layout:%s:%s:%s:%s" % (cname, what, lname, type(ex).__name__), {"msg": str(ex)[:200]})
                    continue
                if np.abs(np.asarray(f) - ref_f).max() > 1e-12 * (1 + np.abs(ref_f).max()) or np.abs(np.asarray(d) - ref_d).max() > 1e-11 * (1 + np.abs(ref_d).max()):
                    ck.violation("evaluator-layout:%s:%s:%s:result-depends-on-memory-layout" % (cname, what, lname),
                                 {"err_f": float(np.abs(np.asarray(f) - ref_f).max()), "err_d": float(np.abs(np.asarray(d) - ref_d).max())})
    # ---- a sum kernel k_A + k_B is mapped to a LIST of evaluators that all add into the same value / derivative buffers
    # (the DFTKernel.map / MappedDFTKernel contract): the list must reproduce the kernel sum of the sum kernel
    kA = quiet(get_rbf_kernel, slice(0, N1), ls, scale=0.7)
    kB = quiet(get_rbf_kernel, slice(0, N1), 1.6 * ls, scale=1.3)
    refA, drefA = py_sum(kA, X, Xc, alpha)
    refB, drefB = py_sum(kB, X, Xc, alpha)
    for order, evs in (("rbf+rbf", [RBFEvaluator(kA, Xc, alpha), RBFEvaluator(kB, Xc, alpha)]),
                       ("kernel+rbf", [KernelEvaluator(kA, Xc, alpha), RBFEvaluator(kB, Xc, alpha)]),
                       ("rbf+kernel", [RBFEvaluator(kA, Xc, alpha), KernelEvaluator(kB, Xc, alpha)])):
        f = np.zeros(X.shape[0])
        df = np.zeros_like(X)
        for ev in evs:
            ev(X.copy(), f, df)
        ck.count(key=("evaluator-list", order))
        if np.abs(f - (refA + refB)).max() > 1e-12 * (1 + np.abs(refA + refB).max()) or np.abs(df - (drefA + drefB)).max() > 1e-11 * (1 + np.abs(drefA + drefB).max()):
            ck.violation("evaluator-list:%s:differs-from-kernel-sum-of-the-sum-kernel" % order,
                         {"err_f": float(np.abs(f - (refA + refB)).max()), "err_d": float(np.abs(df - (drefA + drefB)).max())})
    # antisymmetric evaluator against its Python kernel
    from ciderpress.models.kernel_plans.kernel_tools import get_antisym_rbf_kernel
    ck.count(key=("antisym",))
    try:
        kern = get_antisym_rbf_kernel(ls, scale=0.8)
        ev = AntisymRBFEvaluator(kern, Xc, alpha)
        f = np.zeros(X.shape[0])
        df = np.zeros_like(X)
        ev(X, f, df)
        ref = kern(X, Xc).dot(alpha)
        if np.abs(f - ref).max() > 1e-12 * (1 + np.abs(ref).max()):
            ck.violation("antisym-evaluator:differs-from-kernel-sum", {"err": float(np.abs(f - ref).max())})
        # gradient by finite differences of the Python kernel value (its k_and_deriv is a known finding of C15)
        h = 1e-6
        for j in range(N1):
            Xp, Xm = X.copy(), X.copy()
            Xp[:, j] += h
            Xm[:, j] -= h
            g = (kern(Xp, Xc).dot(alpha) - kern(Xm, Xc).dot(alpha)) / (2 * h)
            if np.abs(g - df[:, j]).max() > 1e-6 * (1 + np.abs(g).max()):
                ck.violation("antisym-evaluator:gradient", {"j": j, "err": float(np.abs(g - df[:, j]).max())})
                break
    except Exception as ex:
        ck.violation("antisym-evaluator:%s" % type(ex).__name__, {"msg": str(ex)[:200]})


BOUNDS = {0: (0.0, 1.0), 1: (-1.0, 1.0), 2: (-0.5, 1.5)}


def feature_list_of_kinds(n):
    """feature f has bound class f % 3 (MapTerms!BoundKind): UMap (0,1), SignedUMap (-1,1), VMap scaled to (-1/2,3/2)"""
    from ciderpress.dft.transform_data import SignedUMap, VMap
    mk = {0: lambda f: UMap(f, 0.5), 1: lambda f: SignedUMap(f, 0.5), 2: lambda f: VMap(f, 0.5, scale=2.0, center=0.5)}
    fl = FeatureList([mk[f % 3](f) for f in range(n)])
    for f in range(n):
        b = fl[f].bounds
        if (float(b[0]), float(b[1])) != BOUNDS[f % 3]:
            raise MachineryError("feature map bounds changed: %r" % (b,))
    return fl


def sample_in_bounds(rng, n, nfeat, margin):
    lo = np.array([BOUNDS[f % 3][0] for f in range(nfeat)])
    hi = np.array([BOUNDS[f % 3][1] for f in range(nfeat)])
    return lo + (hi - lo) * rng.uniform(margin, 1 - margin, size=(n, nfeat))


def spin_rbf_cases(ck, rng):
    """POL-mode C evaluator vs the closed-form kernel sum: both pairings, broad and narrow length scales, inputs in the
    orientation of the control points and with the spin labels exchanged"""
    import spinkernel
    from ciderpress.dft.xc_evaluator import SpinRBFEvaluator
    for name, ls, Xc, alpha, X in spinkernel.cases(rng, N1=4):
        kern = quiet(get_rbf_kernel, slice(0, 4), ls, scale=1.0)
        ev = SpinRBFEvaluator(kern, Xc, alpha)
        f, df = ev(X.copy())
        rf, rdf = spinkernel.reference(X, Xc, ev._alpha, ls)
        ck.count(key=("spinrbf", name))
        sc = 1e-300 + np.abs(rf).max()
        if not np.abs(f - rf).max() <= 1e-12 * (1 + sc) or not np.abs(df - rdf).max() <= 1e-11 * (1 + np.abs(rdf).max()):
            ck.violation("spin-rbf-evaluator:%s:differs-from-kernel-sum" % name.split(":")[0],
                         {"case": name, "value_err": float(np.abs(f - rf).max()), "grad_err": float(np.abs(df - rdf).max()), "scale": float(sc)})


def additive_case(ck, rng, model_terms, ns, na, order, kind, densities, layout="front"):
    """map an additive kernel (optionally times a subset RBF) to splines and compare on the bounded domain.
    layout: where the single / additive dimensions sit in the feature vector (MapTerms!Inds); features have
    heterogeneous bounds (MapTerms!BoundKind)"""
    exp_terms, exp_scidx, exp_gterms, exp_kinds = model_terms[(ns, na, order, layout)]
    inds = {"front": list(range(ns + na)),
            "back": [na + c for c in range(ns)] + list(range(na)),
            "gap": [c + 1 for c in range(ns)] + [ns + 2 + c for c in range(na)]}[layout]
    N1 = ns + na + (2 if layout == "gap" else 0)
    nctrl = 7
    fl = feature_list_of_kinds(N1)
    Xc = sample_in_bounds(rng, nctrl, N1, 0.05)
    alpha = rng.normal(size=nctrl)
    ls_cols = rng.uniform(0.5, 1.2, size=ns + na)          # per mapped column (singles, then additive)
    base_scale = list(rng.uniform(0.3, 1.5, size=order + 1))
    sinds, ainds = inds[:ns], inds[ns:]
    as_index = lambda ix: slice(ix[0], ix[-1] + 1) if ix == list(range(ix[0], ix[-1] + 1)) and layout == "front" else list(ix)
    if kind == "arbf":
        if layout == "front":
            kern = quiet(get_agpr_kernel, slice(0, ns), slice(ns, ns + na), ls_cols, scale=base_scale, order=order, nsingle=ns)
        else:
            arbf = K.SubsetARBF(as_index(ainds), order=order, length_scale=ls_cols[ns:], scale=base_scale,
                                length_scale_bounds="fixed", scale_bounds="fixed")
            kern = arbf if ns == 0 else K.DiffProduct(K.SubsetRBF(as_index(sinds), length_scale=ls_cols[:ns], length_scale_bounds="fixed"), arbf)
    else:
        cls = {"rq": K.SubsetAddRQ, "llrbf": K.SubsetAddLLRBF}[kind]
        kern = cls(as_index(ainds), order=order, alpha=1.7, length_scale=ls_cols[ns:], scale=base_scale, length_scale_bounds="fixed", scale_bounds="fixed")
    X = sample_in_bounds(rng, 40, N1, 0.02)
    ref, dref = py_sum(kern, X, Xc, alpha)
    tag = "%s:ns=%d:na=%d:order=%d:%s" % (kind, ns, na, order, layout)
    errs = []
    for dens in densities:
        ck.count(key=(tag, dens))
        try:
            out = quiet(map_tools.get_mapped_gp_evaluator_additive, kern, Xc, alpha, fl, srbf_density=dens, arbf_density=dens, max_ngrid=400)
        except Exception as ex:
            ck.violation("map-additive:%s:%s" % (tag, type(ex).__name__), {"msg": str(ex)[:300]})
            return
        if len(out) == 5:
            scale, ind_sets, grids, coefs, const = out
        else:
            scale, ind_sets, grids, coefs = out
            const = 0
        # ---- T: term order, scale order, FEATURE indices and axis domains against the model
        keep = [k for k, t in enumerate(exp_terms) if len(t) > 0]
        exp_pairs = [(list(exp_gterms[k]), base_scale[exp_scidx[k]]) for k in keep]
        got_pairs = [([int(i) for i in s_], float(sc)) for s_, sc in zip(ind_sets, scale)]
        if len(scale) != len(ind_sets):
            ck.violation("map-additive:%s:scale-and-term-lists-differ-in-length" % tag, {"nscale": len(scale), "nterms": len(ind_sets)})
            return
        if [p[0] for p in got_pairs] != [p[0] for p in exp_pairs]:
            ck.violation("map-additive:%s:term-order" % tag, {"impl": [p[0] for p in got_pairs][:8], "spec": [p[0] for p in exp_pairs][:8]})
            return
        if any(abs(a[1] - b[1]) > 1e-14 for a, b in zip(got_pairs, exp_pairs)):
            ck.violation("map-additive:%s:scale-order" % tag, {"impl": [p[1] for p in got_pairs], "spec": [p[1] for p in exp_pairs]})
            return
        got_dom = [[(float(ax[0]), float(ax[1])) for ax in g] for g in grids]
        exp_dom = [[BOUNDS[kd] for kd in exp_kinds[k]] for k in keep]
        # the property asks for fidelity ON the bounded feature domain: every axis must COVER the bounds of its feature
        covers = len(got_dom) == len(exp_dom) and all(len(g_) == len(e_) and all(a[0] <= b[0] + 1e-12 and a[1] >= b[1] - 1e-12 for a, b in zip(g_, e_))
                                                     for g_, e_ in zip(got_dom, exp_dom))
        if not covers:
            ck.violation("map-additive:%s:axis-domain-does-not-cover-the-bounds-of-its-feature" % tag, {"impl": got_dom[:4], "spec": exp_dom[:4], "terms": [p[0] for p in got_pairs][:4]})
            return
        if ns == 0 and abs(const - base_scale[0] * alpha.sum()) > 1e-13 * (1 + abs(const)):
            ck.violation("map-additive:%s:constant-term" % tag, {"const": float(const), "expected": float(base_scale[0] * alpha.sum())})
        ev = SplineSetEvaluator(scale, ind_sets, grids, coefs, const=const)
        f, df = ev(X.copy())
        e = float(np.abs(f - ref).max() / (1 + np.abs(ref).max()))
        eg = float(np.abs(df - dref).max() / (1 + np.abs(dref).max()))
        errs.append((dens, e, eg))
    # refinement ladder: finest grid accurate, and not worse than the coarsest
    if errs[-1][1] > 2e-3 or errs[-1][2] > 2e-2 or errs[-1][1] > max(errs[0][1], 1e-6):
        ck.violation("map-additive:%s:spline-error-ladder" % tag, {"ladder(density,value_err,grad_err)": errs})


def simple_and_linear(ck, rng):
    N1 = 4
    nctrl = 8
    fl = feature_list_of_kinds(N1)          # heterogeneous bounds: (0,1), (-1,1), (-1/2,3/2), (0,1)
    Xc = sample_in_bounds(rng, nctrl, N1, 0.05)
    alpha = rng.normal(size=nctrl)
    ls = np.array([0.5, 0.8, 0.6, 0.7])
    X = sample_in_bounds(rng, 30, N1, 0.02)
    for idx_name, idx, cols in (("full", slice(0, 4), [0, 1, 2, 3]), ("proper", slice(1, 3), [1, 2]), ("tail", slice(2, 4), [2, 3])):
        kern = quiet(get_rbf_kernel, idx, ls, scale=0.7)
        ref = kern(X, Xc).dot(alpha)
        errs = []
        for dens in ((8, 16) if idx_name == "full" else (8, 16, 32)):
            ck.count(key=("simple", idx_name, dens))
            try:
                scale, ind_sets, grids, coefs = quiet(map_tools.get_mapped_gp_evaluator_simple, kern, Xc, alpha, fl, rbf_density=dens, max_ngrid=400)
                got_dom = [(float(ax[0]), float(ax[1])) for ax in grids[0]]
                exp_dom = [BOUNDS[c % 3] for c in cols]
                if [int(i) for i in ind_sets[0]] != cols or len(got_dom) != len(exp_dom) or \
                        not all(a[0] <= b[0] + 1e-12 and a[1] >= b[1] - 1e-12 for a, b in zip(got_dom, exp_dom)):
                    ck.violation("map-simple:%s:axis-domain-does-not-cover-the-bounds-of-its-feature" % idx_name,
                                 {"ind_set": [int(i) for i in ind_sets[0]], "impl": got_dom, "spec": [BOUNDS[c % 3] for c in cols]})
                    break
                f, _ = SplineSetEvaluator(scale, ind_sets, grids, coefs)(X.copy())
            except Exception as ex:
                ck.violation("map-simple:%s:%s" % (idx_name, type(ex).__name__), {"msg": str(ex)[:200]})
                break
            errs.append(float(np.abs(f - ref).max() / (1 + np.abs(ref).max())))
        if errs and (errs[-1] > 2e-3 or errs[-1] > max(errs[0], 1e-6)):
            ck.violation("map-simple:%s:spline-error-ladder" % idx_name, {"errs": errs})
    kl = K.DiffLinearKernel()
    ev = map_tools.get_mapped_gp_evaluator_linear(kl, rng.uniform(size=(N1, N1)), alpha[:N1])
    ck.count(key=("linear",))
    Xcl = ev.consts * 0  # placeholder to keep the evaluator alive
    Xc2 = rng.uniform(size=(N1, N1))
    a2 = rng.normal(size=N1)
    ev = map_tools.get_mapped_gp_evaluator_linear(kl, Xc2, a2)
    f, df = ev(X.copy())
    ref = kl(X, Xc2).dot(a2)
    if np.abs(f - ref).max() > 1e-12 * (1 + np.abs(ref).max()):
        ck.violation("map-linear:differs-from-kernel-sum", {"err": float(np.abs(f - ref).max())})


def shipped_plan_end_to_end(ck, rng):
    """The shipped mapping plan (models/kernel_plans/arbf_exchange.py: get_kernel + mapping_plan) through DFTKernel.map: the
    mapped kernel must reproduce, on admissible raw features, the energy density and feature derivatives of the same DFT kernel
    evaluated with the Python kernel sum (KernelEvaluator), as a ladder in the spline density."""
    from ciderpress.dft import baselines
    from ciderpress.dft.xc_evaluator import MappedDFTKernel
    from ciderpress.models.dft_kernel import DFTKernel
    from ciderpress.models.kernel_plans import arbf_exchange
    from ciderpress.models.kernel_plans.map_tools import get_mapped_gp_evaluator_additive
    nfeat_raw = 5                                             # rho + 4 features
    fl = FeatureList([UMap(i, 0.3 + 0.1 * i) for i in range(1, nfeat_raw)])      # N1 = 4, the first one is the "single" dimension
    nat_l = np.array([0.4, 0.5, 0.6, 0.45])
    kern = quiet(arbf_exchange.get_kernel, natural_scale=1.0, natural_lscale=nat_l, scale_factor=0.8, lscale_factor=1.1)
    for mode, nspin in (("SEP", 1), ("SEP", 2), ("NPOL", 2)):
        dk = DFTKernel(kern, fl, mode, "LDA_X" if False else baselines.lda_x, baselines.zero_xc)
        nctrl = 9
        dk.X1ctrl = np.asfortranarray(rng.uniform(0.05, 0.95, size=(nctrl, fl.nfeat)))
        dk.alpha = rng.normal(size=nctrl) * 0.2
        X0T = rng.uniform(0.1, 2.0, size=(nspin, nfeat_raw, 14))
        ref = MappedDFTKernel([KernelEvaluator(dk.kernel, dk.X1ctrl, dk.alpha)], fl, mode, baselines.lda_x, baselines.zero_xc)
        e0, de0 = ref(X0T.copy(), rhocut=1e-9)
        errs = []
        for dens in (8, 16, 32):
            ck.count(key=("shipped-plan", mode, nspin, dens))

            def plan(k_, dens=dens):
                out = quiet(get_mapped_gp_evaluator_additive, k_.kernel, k_.X1ctrl, k_.alpha, k_.feature_list, srbf_density=dens, arbf_density=dens, max_ngrid=400)
                return SplineSetEvaluator(*out)
            try:
                mk = dk.map(plan if dens != 8 else (lambda k_: quiet(arbf_exchange.mapping_plan, k_)))
                e, de = mk(X0T.copy(), rhocut=1e-9)
            except Exception as ex:
                ck.violation("shipped-plan:%s:%s" % (mode, type(ex).__name__), {"nspin": nspin, "msg": str(ex)[:200]})
                break
            errs.append((dens, float(np.abs(np.asarray(e) - e0).max() / (1e-300 + np.abs(e0).max())), float(np.abs(np.asarray(de) - de0).max() / (1e-300 + np.abs(de0).max()))))
        if errs and (errs[-1][1] > 2e-3 or errs[-1][2] > 3e-2 or errs[-1][1] > max(errs[0][1], 1e-6)):
            ck.violation("shipped-plan:%s:nspin=%d:mapped-model-differs-from-kernel-sum" % (mode, nspin), {"ladder(density,value,deriv)": errs})


def _rbf_plan(dk):
    """a module-level plan (the same callable object at every map, like a shipped kernel_plans module's mapping_plan)"""
    return [RBFEvaluator(dk.kernel, dk.X1ctrl, dk.alpha)]


def _arbf_plan(dk):
    from ciderpress.models.kernel_plans import arbf_exchange
    return quiet(arbf_exchange.mapping_plan, dk)


def remap_histories(ck, rng):
    """DFTKernel.map / DFTKernel2.map as a function of the MODEL AS IT IS NOW (spec/ValueSemantics.tla): TLC's witness histories
    -- map, the trainer replaces or edits the weights of the same kernel object (what MOLGP.fit does at every re-fit), map
    again WITH THE SAME PLAN CALLABLE, keep earlier mapped models -- are replayed on two live kernel objects per (class, plan);
    after every map the mapped model's output is compared with the output of a FRESH kernel object carrying the current
    weights, mapped by a fresh callable."""
    import valuesem
    from ciderpress.dft import baselines
    from ciderpress.models.dft_kernel import DFTKernel, DFTKernel2
    from ciderpress.models.kernel_plans import arbf_exchange
    hists = valuesem.model_and_histories(ck, want=5)
    fl = FeatureList([UMap(i, 0.3 + 0.1 * i) for i in range(1, 5)])
    nctrl = 9
    X1 = np.asfortranarray(rng.uniform(0.05, 0.95, size=(nctrl, fl.nfeat)))
    X0T = rng.uniform(0.1, 2.0, size=(1, 5, 12))
    values = {c: rng.normal(size=nctrl) * 0.2 for c in ("c1", "c2", "c3")}
    akern = quiet(arbf_exchange.get_kernel, natural_scale=1.0, natural_lscale=np.array([0.4, 0.5, 0.6, 0.45]), scale_factor=0.8, lscale_factor=1.1)
    rkern = quiet(get_rbf_kernel, slice(0, 4), np.array([0.4, 0.5, 0.6, 0.45]), scale=0.7)
    for cname, cls, base in (("DFTKernel", DFTKernel, (baselines.lda_x, baselines.zero_xc)), ("DFTKernel2", DFTKernel2, ("LDA_X", None))):
        for pname, kern, plan in (("rbf", rkern, _rbf_plan), ("arbf_exchange", akern, _arbf_plan)):
            def make(alpha):
                dk = cls(kern, fl, "SEP", base[0], base[1])
                dk.X1ctrl = X1.copy(order="F")
                dk.alpha = alpha
                return dk

            def evaluate(mk, cname=cname):
                if cname == "DFTKernel2":          # its baseline needs libxc density tuples: compare the mapped function itself
                    X1 = mk.get_descriptors(X0T.copy(), force_polarize=True)
                    e, de = np.zeros(X1.shape[-2]), np.zeros_like(X1)
                    for fe in mk.fevals:
                        fe(X1, e, de)
                    return e, de
                e, de = mk(X0T.copy(), rhocut=1e-9)
                return np.array(e, copy=True), np.array(de, copy=True)
            for hi, hist in enumerate(hists):
                ck.count(key=("remap", cname, pname, hi))
                owner = {}

                def call(arr):
                    if id(arr) not in owner:              # the first map of this argument object: a live kernel that keeps THIS array
                        owner[id(arr)] = make(arr)
                    dk = owner[id(arr)]
                    if dk.alpha is not arr:
                        dk.alpha = arr
                    return evaluate(dk.map(plan))

                def fresh(arr):
                    return evaluate(make(arr.copy()).map(lambda k_: plan(k_)))
                try:
                    bad = valuesem.replay(hist, values, call, valuesem.memo_fresh(fresh), tol=1e-11)
                except Exception as ex:
                    ck.violation("remap:%s:%s:%s" % (cname, pname, type(ex).__name__), {"history": hist, "msg": str(ex)[:200]})
                    break
                if bad:
                    ck.violation("remap:%s:%s:%s" % (cname, pname, bad[0][0]),
                                 {"history": hist, "step": bad[0][1], "op": bad[0][2],
                                  "meaning": "the mapped model does not equal the kernel sum of the model it was mapped from (weights changed between two maps of the same object with the same plan)"})
                    break


def k0_factor(ck, rng):
    """the per-dimension factor used for mapping equals the factor the kernel itself uses"""
    nd = 3
    ls = np.array([0.6, 1.3, 2.1])
    x = rng.uniform(0, 1, size=(6, nd))
    y = rng.uniform(0, 1, size=(5, nd))
    for name, kern in (("DiffARBFV2", K.DiffARBFV2(order=2, length_scale=ls, scale=[0.1, 0.5, 1.0])),
                       ("DiffAddLLRBF", K.DiffAddLLRBF(order=2, alpha=1.7, length_scale=ls, scale=[0.1, 0.5, 1.0])),
                       ("DiffAddRQ", K.DiffAddRQ(order=2, alpha=2.3, length_scale=ls, scale=[0.1, 0.5, 1.0]))):
        own = kern._get_k0_dk0_eval(x, y, False)[0]
        for i in range(nd):
            ck.count(key=("k0", name, i))
            mp = kern.get_k0_for_mapping(x[:, i], y[:, i], ls[i])
            if mp.shape != own[:, :, i].shape or np.abs(mp - own[:, :, i]).max() > 1e-13:
                ck.violation("k0-for-mapping:%s:differs-from-kernel-factor" % name, {"dim": i, "lscale": float(ls[i]),
                                                                                    "err": float(np.abs(mp - own[:, :, i]).max())})
                break


def main():
    ck = Check("C11", "exploration")
    rng = np.random.default_rng(ck.seed)
    quick = ck.tier == "quick"
    ck.rule = ("case = (mappable kernel class, number of single/additive dimensions, order, index form, scale, grid density); C evaluators "
               "vs Python kernel sum (1e-12), spline-mapped models vs the kernel sum on the bounded domain as a refinement ladder in grid "
               "density (8,16,32), term/scale order vs the TLC model of the mapping loop, mapping factor vs kernel factor")
    r = run_tlc("MapTerms", "MC_MapTerms.cfg", workers=4, timeout=600)
    if r.error:
        raise MachineryError("TLC: " + r.error)
    ck.add_tlc("MapTerms", r)
    ck.exhaustive = True
    for v in r.violated:
        ck.violation("model:MapTerms:" + v, {})
    model_terms = {}
    for cfg, terms, scales, gterms, kinds in tlc_printed_values(r.out, "TERMS"):
        model_terms[tuple(cfg)] = (terms, scales, gterms, kinds)
    if len(model_terms) < 20:
        raise MachineryError("MapTerms emitted %d configurations" % len(model_terms))
    rbf_cases(ck, rng)
    spin_rbf_cases(ck, rng)
    dens = (8, 16, 32)
    cases = []
    for ns in (0, 1, 2):
        for na in (1, 2, 3, 4):
            for order in (1, 2, 3):
                if order > na or ns + order > 4:
                    continue
                cases.append((ns, na, order, "arbf"))
    for na, order in ((2, 1), (3, 2), (2, 2)):
        cases += [(0, na, order, "rq"), (0, na, order, "llrbf")]
    if quick:
        cases = [c for c in cases if c[1] <= 3]
    for ns, na, order, kind in cases:
        additive_case(ck, rng, model_terms, ns, na, order, kind, dens)
    # index layouts other than the identity (additive block first, unused features in between)
    lay_cases = [(1, 2, 1, "arbf", "back"), (1, 3, 2, "arbf", "back"), (2, 2, 2, "arbf", "back"), (0, 2, 2, "arbf", "gap"), (1, 2, 2, "arbf", "gap"),
                 (0, 2, 1, "rq", "gap"), (0, 3, 2, "llrbf", "gap")]
    if not quick:
        lay_cases += [(ns, na, order, "arbf", lay) for ns in (0, 1, 2) for na in (2, 3) for order in (1, 2) for lay in ("back", "gap")
                      if not (lay == "back" and ns == 0) and ns + order <= 3]
    for ns, na, order, kind, lay in lay_cases:
        additive_case(ck, rng, model_terms, ns, na, order, kind, (8, 16, 32) if ns + order <= 3 else (8, 16), layout=lay)
    simple_and_linear(ck, rng)
    shipped_plan_end_to_end(ck, rng)
    remap_histories(ck, rng)
    k0_factor(ck, rng)
    ck.traces = len(cases)
    ck.sample({"case(ns,na,order,kind)": cases[3], "model_terms": model_terms[(cases[3][0], cases[3][1], cases[3][2], "front")][0]})
    ck.assumptions = ["spline error judged on points inside the transformed-feature bounds (0,1) as a ladder: finest density error <= 2e-3 "
                      "(value) / 2e-2 (gradient) relative and not above the coarsest", "NNEvaluator / torch not present"]
    return ck.finish()


if __name__ == "__main__":
    if len(sys.argv) > 2 and sys.argv[1] == "--replay":
        print(open(sys.argv[2]).read()[:3000])
        sys.exit(0)
    main_wrapper(main)
