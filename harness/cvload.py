"""Import FIRST in every driver: makes ciderpress load its C libraries from /verif/build/lib
(built from /repo's working tree by build.sh) without writing anything under /repo.
Also usable as a pytest plugin:  PYTHONPATH=/verif/harness pytest -p cvload ..."""
import os
import sys

VERIF = os.path.dirname(os.path.dirname(os.path.abspath(__file__)))
LIBDIR = os.environ.get("CIDER_VERIF_LIBDIR", os.path.join(VERIF, "build", "lib"))
REPO = os.environ.get("CIDER_REPO", "/repo")
if REPO != "/repo":
    sys.path.insert(0, REPO)

import numpy  # noqa: E402
import ciderpress.lib as _L  # noqa: E402
import ciderpress.lib.load as _LL  # noqa: E402


def load_library(name):
    return numpy.ctypeslib.load_library(name, LIBDIR)


_L.load_library = load_library
_LL.load_library = load_library
