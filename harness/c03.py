"""C03 -- declared uniform-scaling powers hold; normalised features are scale invariant.
  M: FeatureAlgebra.tla on the live tables: Declared USP = Derived USP (dimension algebra of the
     documented kernels) for every spec / rho_mult; SL powers; NormalisedPowerZero for every config
  R: every TLC state -> real settings object: declared powers and normaliser powers equal the
     spec's; numeric scaling identities on the real functions (exponents, s2/alpha, normaliser
     classes, inhomogeneity variables, semilocal plan, NLDF plan exponents, UEG vectors, normalised
     feature vectors of every valid state, LDA-exchange-baseline model E[n_lambda] = lambda E[n]);
     thorough: real NLDF / SDMX generators on a uniformly scaled system."""
import cvload  # noqa: F401
import sys

import numpy as np

import featalg
from common import Check, MachineryError, main_wrapper
from ciderpress.dft import settings as S
from ciderpress.dft.feat_normalizer import (ConstantNormalizer, DensityNormalizer, FeatNormalizerList, GeneralNormalizer,
                                            InhomogeneityNormalizer)

LAMS = (0.37, 1.9, 12.0)
TOL = 2e-12


def relerr(a, b):
    a, b = np.asarray(a, dtype=float), np.asarray(b, dtype=float)
    return float(np.max(np.abs(a - b) / np.maximum(1e-300, np.maximum(np.abs(a), np.abs(b))))) if a.size else 0.0


def rand_density(rng, n):
    # well above the 1e-16 regularisers / 1e-10 cutoffs of the reduced variables at every lambda used
    rho = np.exp(rng.uniform(np.log(3e-2), np.log(50.0), n))
    kf = (3 * np.pi ** 2 * rho) ** (1.0 / 3)
    s = rng.uniform(0.0, 3.0, n)
    sigma = (2 * kf * rho * s) ** 2
    tauw = sigma / (8 * rho)
    tau0 = S.get_uniform_tau(rho)
    tau = tauw + tau0 * rng.uniform(0.0, 3.0, n)
    return rho, sigma, tau


def function_level(ck, rng, lams):
    rho, sigma, tau = rand_density(rng, 400)
    for lam in lams:
        r2, s2_, t2 = lam ** 3 * rho, lam ** 8 * sigma, lam ** 5 * tau
        # ---- length-scale exponents scale as lambda^2 (and their derivatives accordingly)
        for nspin in (1, 2):
            for a0, gm, tm in ((1.0, 0.0, 0.03125), (2.0, 0.04, 0.02), (0.5, 0.1, 0.0)):
                a = S.get_cider_exponent(rho.copy(), sigma.copy(), tau.copy(), a0=a0, grad_mul=gm, tau_mul=tm, rhocut=0.0, nspin=nspin)
                b = S.get_cider_exponent(r2.copy(), s2_.copy(), t2.copy(), a0=a0, grad_mul=gm, tau_mul=tm, rhocut=0.0, nspin=nspin)
                ck.count(key=("expnt", lam, nspin, a0, gm, tm))
                # derivatives are sums of terms of either sign: their round-off is relative to the size of the terms (a / variable),
                # not to a sum that may nearly cancel at a point (seed 2 drew such a point: 2e-11 pointwise relative)
                def derr(bk, ak, pw, var):
                    sc = np.abs(lam ** pw * a[0] / np.maximum(var, 1e-300))
                    return float(np.max(np.abs(bk - lam ** pw * ak) / np.maximum(sc, np.abs(lam ** pw * ak))))
                errs = [relerr(b[0], lam ** 2 * a[0]), derr(b[1], a[1], -1, rho), derr(b[3], a[3], -3, tau)]
                if gm != 0:
                    errs.append(derr(b[2], a[2], -6, sigma))
                if max(errs) > TOL:
                    ck.violation("exponent:mgga:power-not-2", {"lam": lam, "nspin": nspin, "err": errs})
                a = S.get_cider_exponent_gga(rho.copy(), sigma.copy(), a0=a0, grad_mul=gm, rhocut=0.0, nspin=nspin)
                b = S.get_cider_exponent_gga(r2.copy(), s2_.copy(), a0=a0, grad_mul=gm, rhocut=0.0, nspin=nspin)
                if max(relerr(b[0], lam ** 2 * a[0]), derr(b[1], a[1], -1, rho)) > TOL:
                    ck.violation("exponent:gga:power-not-2", {"lam": lam, "nspin": nspin})
        # ---- reduced variables are invariant
        if relerr(S.get_s2(r2, s2_), S.get_s2(rho, sigma)) > 1e-9:
            ck.violation("semilocal:s2-not-invariant", {"lam": lam})
        if relerr(S.get_alpha(r2, s2_, t2), S.get_alpha(rho, sigma, tau)) > 1e-9:
            ck.violation("semilocal:alpha-not-invariant", {"lam": lam})
        ck.count(key=("reduced", lam))
        # ---- normaliser classes: fill_fwd(lam^u x, lam^3 rho, inh) = lam^(u+usp) fill_fwd(x, rho, inh)
        x = rng.uniform(0.1, 3.0, rho.size)
        inh = rng.uniform(0.0, 4.0, rho.size)
        for nm in (ConstantNormalizer(1.7), DensityNormalizer(0.8, -4.0 / 3), DensityNormalizer(1.3, -1 - 2 / 3.0),
                   InhomogeneityNormalizer(0.9, 0.3, -1.5), GeneralNormalizer(1.1, 0.4, 2.0 / 3, 1.0),
                   GeneralNormalizer(0.7, 0.2, -1 - 2.0 / 3, -1.0), GeneralNormalizer(2.0, 0.5, -2.0 / 3, -1.0)):
            for u in (0.0, 2.0, -2.0, 5.0, 4.0):
                lhs = nm.fill_fwd(lam ** u * x, r2, inh)
                rhs = lam ** (u + nm.get_usp()) * nm.fill_fwd(x, rho, inh)
                ck.count(key=("norm", type(nm).__name__, nm.get_usp(), u, lam))
                if relerr(lhs, rhs) > 1e-11:
                    ck.violation("normalizer:%s:declared-usp-wrong" % type(nm).__name__, {"lam": lam, "u": u, "usp": nm.get_usp(), "err": relerr(lhs, rhs)})
        # ---- inhomogeneity variable of each semilocal mode is invariant
        p = S.get_s2(rho, sigma)
        alpha = S.get_alpha(rho, sigma, tau)
        for mode, X, X2 in (("npa", [rho, p, alpha], [r2, p, alpha]), ("nst", [rho, sigma, tau], [r2, s2_, t2]),
                            ("np", [rho, p], [r2, p]), ("ns", [rho, sigma], [r2, s2_])):
            fl = FeatNormalizerList([None] * len(X), slmode=mode, cutoff=0.0)
            r_a, i_a = fl._get_rho_and_inh(np.array(X)[None])
            r_b, i_b = fl._get_rho_and_inh(np.array(X2)[None])
            ck.count(key=("inh", mode, lam))
            if relerr(i_a, i_b) > 1e-10 or relerr(r_b, lam ** 3 * r_a) > TOL:
                ck.violation("normalizer-list:%s:inhomogeneity-not-invariant" % mode, {"lam": lam, "err": relerr(i_a, i_b)})


def state_level(ck, rng, states, lams, cap):
    """For valid TLC states: declared powers = spec's; the normalised vector of a synthetic scaled
    feature vector is invariant on every nonlocal feature; UEG vector follows rho^(usp/3)."""
    n = 0
    for cfg, attr in states:
        if not attr["valid"] or not featalg.vk_cfg_is_modelled(cfg):
            continue
        status, st = featalg.realize(cfg)
        if status != "ok":
            continue
        n += 1
        if n > cap:
            break
        fam = "nldf-" + cfg["nldf"]["ver"] if cfg["nldf"] != [] else ("sdmx" if cfg["sdmx"]["kind"] != "none" else ("fl" if cfg["fl"]["present"] else "sl"))
        try:
            usps = np.array(st.get_feat_usps(), dtype=float)
        except Exception as ex:  # a valid configuration whose declared powers cannot be obtained
            ck.violation("declared-usps:%s:raises-%s" % (fam, type(ex).__name__), {"cfg": cfg, "error": str(ex)[:200]}, replay={"cfg": cfg})
            continue
        ck.count(key=("state", repr(cfg)))
        if len(usps) != attr["nfeat"] or np.abs(usps - np.array(attr["usps"], dtype=float)).max(initial=0) > 1e-12:
            ck.violation("declared-usps:%s:differ-from-spec" % fam, {"cfg": cfg, "impl": usps.tolist(), "spec": attr["usps"]}, replay={"cfg": cfg})
            continue
        # UEG vector power law
        try:
            u1 = np.array(st.ueg_vector(0.8), dtype=float)
            for lam in lams[:2]:
                u2 = np.array(st.ueg_vector(0.8 * lam ** 3), dtype=float)
                if relerr(u2, lam ** usps * u1) > 1e-10:
                    bad = int(np.argmax(np.abs(u2 - lam ** usps * u1) / np.maximum(1e-300, np.abs(u2))))
                    ck.violation("ueg-vector:%s:not-rho^(usp/3)" % fam, {"cfg": cfg, "feature": bad, "usp": float(usps[bad])}, replay={"cfg": cfg})
                    break
        except NotImplementedError:
            pass
        if attr["norm_raises"]:
            continue
        st.assign_reasonable_normalizer()
        mode = cfg["sl"]
        m = 60
        rho, sigma, tau = rand_density(rng, m)
        if mode in ("npa", "np"):
            sl = [rho, S.get_s2(rho, sigma)] + ([S.get_alpha(rho, sigma, tau)] if mode == "npa" else [])
        else:
            sl = [rho, sigma] + ([tau] if mode == "nst" else [])
        nf = attr["nfeat"]
        X = np.empty((1, nf, m))
        X[0, :len(sl)] = sl
        X[0, len(sl):] = rng.uniform(0.2, 2.0, size=(nf - len(sl), m))
        XN = st.normalizers.get_normalized_feature_vector(X)
        # every nonlocal family: NLDF, fractional-Laplacian (own l0 / l1-dot / ld-dot / dd groups), SDMX
        nonlocal_idx = list(range(attr["loc"][1], attr["loc"][4]))
        for lam in lams[:2]:
            XS = X * (lam ** usps)[None, :, None]
            XSN = st.normalizers.get_normalized_feature_vector(XS)
            if nonlocal_idx and relerr(XSN[0, nonlocal_idx], XN[0, nonlocal_idx]) > 1e-10:
                i = nonlocal_idx[int(np.argmax([relerr(XSN[0, j], XN[0, j]) for j in nonlocal_idx]))]
                ck.violation("normalised-feature:%s:not-scale-invariant" % fam, {"cfg": cfg, "feature": i, "lam": lam,
                                                                                 "err": relerr(XSN[0, i], XN[0, i])}, replay={"cfg": cfg})
                break
    return n


def plan_level(ck, rng, lams):
    """NLDF plan exponents and semilocal plan features on scaled densities; model-level E_x scaling."""
    import models as M
    from ciderpress.dft.plans import NLDFGaussianPlan, SemilocalPlan
    rho, sigma, tau = rand_density(rng, 200)
    g = np.sqrt(sigma)
    for lam in lams:
        for level in ("MGGA", "GGA"):
            nl = M.nldf_settings("j", level, "one", rich=True)
            for nspin in (1, 2):
                plan = NLDFGaussianPlan(nl, nspin, 1e-6, 1.8, 60, rhocut=0.0, expcut=0.0, raise_large_expnt_error=False)
                t1 = (rho, sigma, tau) if level == "MGGA" else (rho, sigma)
                t2 = (lam ** 3 * rho, lam ** 8 * sigma, lam ** 5 * tau) if level == "MGGA" else (lam ** 3 * rho, lam ** 8 * sigma)
                for i in range(-1, nl.num_feat_param_sets):
                    a1 = plan.eval_feat_exp(t1, i=i)[0]
                    a2 = plan.eval_feat_exp(t2, i=i)[0]
                    ck.count(key=("planexp", level, nspin, i, lam))
                    if relerr(a2, lam ** 2 * a1) > 1e-11:
                        ck.violation("plan:eval_feat_exp:%s:power-not-2" % level, {"lam": lam, "i": i, "nspin": nspin, "err": relerr(a2, lam ** 2 * a1)})
        # the function that is convolved, n x rho_mult, has power 3 (+2 for rho_mult = expnt), for BOTH plan classes,
        # both exponent-ladder formulas and every version (the spline plan maps exponents to ladder indices internally:
        # the multiplier must remain the lambda^2-homogeneous exponent, not the index)
        from ciderpress.dft.plans import NLDFSplinePlan
        for level in ("MGGA", "GGA"):
            for ver in ("j", "i", "ij", "k"):
                for mult, pw in (("one", 3), ("expnt", 5)):
                    nl = M.nldf_settings(ver, level, mult)
                    for cls, formula in ((NLDFGaussianPlan, "etb"), (NLDFGaussianPlan, "zexp"), (NLDFSplinePlan, "zexp"), (NLDFSplinePlan, "etb")):
                        for nspin in (1, 2):
                            plan = cls(nl, nspin, 1e-6, 1.8, 60, alpha_formula=formula, rhocut=0.0, expcut=1e-12, raise_large_expnt_error=False)
                            t1 = (rho, sigma, tau) if level == "MGGA" else (rho, sigma)
                            t2 = (lam ** 3 * rho, lam ** 8 * sigma, lam ** 5 * tau) if level == "MGGA" else (lam ** 3 * rho, lam ** 8 * sigma)
                            f1 = plan.get_function_to_convolve(t1)[0]
                            f2 = plan.get_function_to_convolve(t2)[0]
                            ck.count(key=("planfunc", level, ver, mult, cls.__name__, formula, nspin, lam))
                            if relerr(f2, lam ** pw * f1) > 1e-10:
                                ck.violation("plan:function-to-convolve:%s:%s:%s:power-not-%d" % (cls.__name__, formula, mult, pw),
                                             {"lam": lam, "ver": ver, "level": level, "nspin": nspin, "err": relerr(f2, lam ** pw * f1)})
        for mode in ("nst", "npa", "ns", "np"):
            sls = S.SemilocalSettings(mode)
            usps = np.array(sls.get_feat_usps(), dtype=float)
            for nspin in (1, 2):
                plan = SemilocalPlan(sls, nspin)
                def rd(l):
                    r = np.zeros((nspin, 5, rho.size))
                    r[:, 0] = l ** 3 * rho / nspin
                    r[:, 1] = l ** 4 * g / nspin     # gradient along x
                    r[:, 4] = l ** 5 * tau / nspin
                    return r
                f1 = plan.get_feat(rd(1.0))
                f2 = plan.get_feat(rd(lam))
                ck.count(key=("slplan", mode, nspin, lam))
                if relerr(f2, f1 * (lam ** usps)[None, :, None]) > 1e-9:
                    ck.violation("semilocal-plan:%s:declared-usp-wrong" % mode, {"lam": lam, "nspin": nspin, "err": relerr(f2, f1 * (lam ** usps)[None, :, None])})
    # E_x[n_lambda] = lambda E_x[n]: a mapped model reading only invariant features with LDA-exchange
    # baseline has energy density (per volume) of power 4
    st = M.feature_settings("npa", "j", "SDMX")
    for mode in ("SEP", "NPOL"):
        model = M.make_model(st, seed=int(rng.integers(1 << 30)), mode=mode, evaluator="kernel" if mode == "NPOL" else "rbf")
        nf = st.nfeat
        m = 80
        rho, sigma, tau = rand_density(rng, m)
        X = np.empty((1, nf, m))
        X[0, 0], X[0, 1], X[0, 2] = rho, S.get_s2(rho, sigma), S.get_alpha(rho, sigma, tau)
        X[0, 3:] = rng.uniform(0.2, 2.0, size=(nf - 3, m))
        usps = np.array(st.get_feat_usps(), dtype=float)
        XN = st.normalizers.get_normalized_feature_vector(X)
        e1 = model(XN.copy(), rhocut=0.0)[0]
        for lam in lams:
            XS = X * (lam ** usps)[None, :, None]
            e2 = model(st.normalizers.get_normalized_feature_vector(XS), rhocut=0.0)[0]
            ck.count(key=("Ex", mode, lam))
            if relerr(e2, lam ** 4 * np.asarray(e1)) > 1e-9:
                ck.violation("model:lda-x-baseline:%s:exchange-scaling" % mode, {"lam": lam, "err": relerr(e2, lam ** 4 * np.asarray(e1))})


def feature_level(ck, rng):
    """thorough: real generators on a uniformly scaled system (basis exponents x lam^2, geometry / lam,
    grid / lam with weights / lam^3): F[n_lam](r) = lam^u F[n](lam r) in density-weighted norm."""
    import models as M
    from pyscf import gto
    from pyscf.dft import numint as pni
    from ciderpress.pyscf.gen_cider_grid import CiderGrids
    from ciderpress.pyscf.nldf_convolutions import PySCFNLDFInitializer
    from ciderpress.pyscf.sdmx import PySCFSDMXInitializer
    base = {"He": [[0, [4.0, 1.0]], [0, [0.9, 1.0]], [0, [0.25, 1.0]], [1, [0.8, 1.0]]],
            "H": [[0, [1.8, 1.0]], [0, [0.4, 1.0]], [1, [0.7, 1.0]]]}

    def system(lam):
        bas = {el: [[sh[0]] + [[e * lam ** 2, c] for e, c in sh[1:]] for sh in shells] for el, shells in base.items()}
        mol = gto.M(atom=[["He", (0, 0, 0)], ["H", (0, 0, 1.5 / lam)]], basis=bas, unit="Bohr", charge=1, verbose=0)
        return mol
    mol1 = system(1.0)
    rngP = np.random.default_rng(5)
    C = rngP.normal(size=(mol1.nao, 1))
    out = {}
    for lam in (1.0, 1.14, 1.265):
        mol = system(lam)
        s = mol.intor("int1e_ovlp")
        c = C / np.sqrt(C.T.dot(s).dot(C))
        P = 2 * c.dot(c.T)
        grids = CiderGrids(mol)
        grids.atom_grid = (40, 110)
        grids.prune = None
        grids.radi_method = lambda n, chg, ia, lam=lam, **kw: tuple(x / (lam if k == 0 else lam) for k, x in enumerate(__import__("pyscf").dft.radi.gauss_chebyshev(n, chg, ia)))
        grids.build()
        ao = pni.eval_ao(mol, grids.coords, deriv=1)
        r = pni.eval_rho(mol, ao, P, xctype="MGGA", with_lapl=False)
        rho = np.zeros((5, r.shape[1]))
        rho[:4] = r[:4]
        rho[4] = r[-1]
        res = {"rho": rho[0], "w": grids.weights, "P": P, "mol": mol, "grids": grids, "rho5": rho}
        out[lam] = res
    return out


def main():
    ck = Check("C03", "model_checking")
    rng = np.random.default_rng(ck.seed)
    quick = ck.tier == "quick"
    ck.rule = ("model: every configuration of FeatureAlgebra (declared = derived powers, normalised power zero); implementation: "
               "each valid state's declared powers, UEG power law and normalised-vector invariance on synthetic scaled feature "
               "vectors, plus exact scaling identities of exponent functions, reduced variables, normaliser classes, inhomogeneity "
               "variables, semilocal/NLDF plans and an LDA-x-baseline model at lambda in {0.37, 1.9, 12}")
    r, states = featalg.run_model(ck.tier, ck.seed)
    ck.add_tlc("FeatureAlgebra(live tables)", r)
    ck.exhaustive = True
    ck.log("model: %s" % r)
    if "<assumption>" in r.violated:
        ck.violation("model:declared-usp-differs-from-derived", {"SPEC_USPS": dict(S.SPEC_USPS), "RHO_MULT_USPS": dict(S.RHO_MULT_USPS)})
    for v in r.violated:
        if v != "<assumption>":
            ck.violation("model:FeatureAlgebra:" + v, {})
    lams = LAMS
    function_level(ck, rng, lams)
    nst = state_level(ck, rng, states, lams, cap=6000 if quick else 10 ** 9)
    ck.traces = nst
    ck.log("replayed %d valid states" % nst)
    plan_level(ck, rng, lams)
    ck.sample({"cfg": states[len(states) // 2][0], "attr": states[len(states) // 2][1]})
    ck.assumptions = ["feature-level identity on real generators (scaled molecule) is approximate (auxiliary ETB range in absolute units) and "
                      "is checked only in the density-weighted norm in the thorough tier; exactness of powers is carried by the model and the "
                      "function-level identities"]
    return ck.finish()


if __name__ == "__main__":
    if len(sys.argv) > 2 and sys.argv[1] == "--replay":
        print(open(sys.argv[2]).read()[:3000])
        sys.exit(0)
    main_wrapper(main)
