"""C12 -- feature transforms and normalisers have derivatives matching their values.
  M: spec/MapAlgebra.tla (live arities): every list of <=2 maps with every index assignment incl.
     coincident indices and gamma class; accumulation contract as a bag equation
  R: each state -> real maps: finite differences of fill_feat_ vs fill_deriv_ accumulated through
     FeatureList.fill_derivs_, list result = sum of member results, support of dfdx = the spec's rows;
     normaliser classes x semilocal modes: reverse mode vs FD, forward mode vs FD, transposition"""
import cvload  # noqa: F401
import inspect
import os
import shutil
import sys
import warnings

import numpy as np

import maps
from common import Check, MachineryError, RawTLA, main_wrapper, run_tlc, stage_spec, tlc_printed_values, to_tla, write_live_module
from ciderpress.dft import transform_data as td
from ciderpress.dft.feat_normalizer import (ConstantNormalizer, DensityNormalizer, FeatNormalizerList, GeneralNormalizer,
                                            InhomogeneityNormalizer)

warnings.filterwarnings("ignore", message="'where' used without 'out'")


def arities():
    ar, hg = {}, {}
    for c in td.ALL_CLASSES:
        names = [p for p in inspect.signature(c.__init__).parameters if p != "self"]
        ar[c.__name__] = sum(1 for p in names if p in maps.INDEX_ARGS)
        hg[c.__name__] = any(p.startswith("gamma") for p in names)
    return ar, hg


def build_map(desc, rng):
    cls = getattr(td, desc["cls"])
    names = [p for p in inspect.signature(cls.__init__).parameters if p != "self"]
    kw = {}
    it = iter(desc["idx"])
    for p in names:
        if p in maps.INDEX_ARGS:
            kw[p] = int(next(it))
        elif p.startswith("gamma"):
            kw[p] = 1.0 if desc["gam"] == "one" else float(np.round(rng.uniform(0.3, 2.2), 3))
        elif p == "scale":
            kw[p] = float(np.round(rng.uniform(0.6, 1.8), 3))
        elif p == "center":
            kw[p] = float(np.round(rng.uniform(-0.4, 0.4), 3))
        elif p in ("c", "B", "C"):
            kw[p] = float(np.round(rng.uniform(0.4, 1.4), 3))
    return cls(**kw)


def fd_check(fl, nraw, rng, npts=9, h=1e-5):
    """returns (max abs error of analytic vs Richardson FD relative to scale, dfdx analytic)"""
    x = rng.uniform(0.15, 1.6, size=(nraw, npts))
    dfdy = rng.normal(size=(fl.nfeat, npts))
    dfdx = np.zeros((nraw, npts))
    fl.fill_derivs_(dfdx, dfdy, x.copy())

    def F(xx):
        y = np.zeros((fl.nfeat, npts))
        fl.fill_vals_(y, xx.copy())
        return (y * dfdy).sum(0)
    worst = 0.0
    for r in range(nraw):
        d1 = np.zeros_like(x)
        d1[r] = h
        f1 = (F(x + d1) - F(x - d1)) / (2 * h)
        f2 = (F(x + 2 * d1) - F(x - 2 * d1)) / (4 * h)
        fd = (4 * f1 - f2) / 3
        est = np.abs(f1 - f2)
        err = np.abs(fd - dfdx[r]) - 20 * est - 1e-7 * (1 + np.abs(fd))
        err = np.where(np.isfinite(err), err, np.inf)      # a non-finite derivative is never 'within tolerance'
        worst = max(worst, float(err.max()))
    return worst, dfdx, x, dfdy


def check_state(ck, lst, rows, rng, nraw):
    try:
        ms = [build_map(d, rng) for d in lst]
    except Exception as ex:
        ck.violation("map:%s:constructor-%s" % (lst[0]["cls"], type(ex).__name__), {"lst": lst, "msg": str(ex)[:200]})
        return
    fl = td.FeatureList(ms)
    names = "+".join(d["cls"] for d in lst)
    gam = "+".join(d["gam"] for d in lst)
    ck.count(key=repr(lst))
    try:
        worst, dfdx, x, dfdy = fd_check(fl, nraw, rng)
    except Exception as ex:
        ck.violation("map:%s:exception-%s" % (names, type(ex).__name__), {"lst": lst, "msg": str(ex)[:200]}, replay={"lst": lst})
        return
    coincident = any(len(set(d["idx"])) < len(d["idx"]) for d in lst)
    if worst > 0:
        ck.violation("map:%s:deriv-vs-fd:gamma=%s%s" % (names, gam, ":coincident-indices" if coincident else ""),
                     {"lst": lst, "excess": worst}, replay={"lst": lst})
        return
    # support: rows the spec says receive no term must stay exactly zero
    for r in range(nraw):
        if rows[r] == 0 and np.any(dfdx[r] != 0.0):
            ck.violation("map:%s:writes-into-unrelated-row" % names, {"lst": lst, "row": r}, replay={"lst": lst})
    if len(ms) == 2:
        tot = np.zeros_like(dfdx)
        for k, m in enumerate(ms):
            m.fill_deriv_(tot, dfdy[k], x.copy())
        if not np.allclose(tot, dfdx, rtol=1e-13, atol=1e-15):
            ck.violation("list:%s:not-sum-of-members" % names, {"lst": lst}, replay={"lst": lst})
    # inputs untouched
    x0 = x.copy()
    y = np.zeros((fl.nfeat, x.shape[1]))
    fl.fill_vals_(y, x)
    if not np.array_equal(x, x0):
        ck.violation("map:%s:input-mutated" % names, {"lst": lst}, replay={"lst": lst})


def normalizer_checks(ck, rng):
    norm_sets = [ConstantNormalizer(1.7), DensityNormalizer(0.8, -4.0 / 3), InhomogeneityNormalizer(0.9, 0.3, -1.5),
                 GeneralNormalizer(1.1, 0.4, 2.0 / 3, 1.0), GeneralNormalizer(0.7, 0.2, -5.0 / 3, -1.0), None]
    # normalisers that share an EXPONENT but not the constants (and exponents that differ by exactly one: the derivative of
    # one has the exponent of the other): anything remembered per exponent within one evaluation of the list is exposed
    twins = [InhomogeneityNormalizer(0.9, 0.3, -1.5), InhomogeneityNormalizer(1.3, 0.55, -1.5), GeneralNormalizer(1.1, 0.4, 2.0 / 3, 1.0),
             GeneralNormalizer(0.6, 0.35, 1.0 / 3, 1.0), InhomogeneityNormalizer(1.0, 0.45, -0.5), GeneralNormalizer(0.8, 0.25, 2.0 / 3, -1.5),
             DensityNormalizer(0.8, -4.0 / 3), DensityNormalizer(1.4, -4.0 / 3), DensityNormalizer(0.5, -1.0 / 3)]
    from ciderpress.dft import settings as S
    for mode in ("npa", "nst", "np", "ns"):
        nsl = 3 if mode in ("npa", "nst") else 2
        for nspin in (1, 2):
            for trial in range(3):
                extra = [norm_sets[k] for k in rng.permutation(len(norm_sets))[:4]] if trial else [twins[k] for k in rng.permutation(len(twins))]
                nl = FeatNormalizerList([None] * nsl + extra, slmode=mode)
                nf = nl.nfeat
                m = 7
                rho = rng.uniform(0.05, 3.0, size=(nspin, m))
                if mode in ("npa", "np"):
                    sl = [rho, rng.uniform(0, 2, (nspin, m))] + ([rng.uniform(0, 2, (nspin, m))] if mode == "npa" else [])
                else:
                    sl = [rho, rng.uniform(0, 5, (nspin, m))] + ([rng.uniform(0.1, 5, (nspin, m))] if mode == "nst" else [])
                X = np.empty((nspin, nf, m))
                for k, a in enumerate(sl):
                    X[:, k] = a
                X[:, nsl:] = rng.uniform(0.2, 2.0, size=(nspin, nf - nsl, m))
                V = rng.normal(size=X.shape)
                ck.count(key=("norm", mode, nspin, trial))
                # reverse mode vs FD of sum(V * XN)
                g = nl.get_derivative_wrt_unnormed_features(X.copy(), V.copy())

                def F(Y):
                    return (V * nl.get_normalized_feature_vector(Y.copy())).sum(axis=(1,))
                h = 1e-6
                worst = 0.0
                for i in range(nf):
                    d = np.zeros_like(X)
                    d[:, i] = h
                    f1 = (F(X + d) - F(X - d)) / (2 * h)
                    f2 = (F(X + 2 * d) - F(X - 2 * d)) / (4 * h)
                    fd = (4 * f1 - f2) / 3
                    err = np.abs(fd - g[:, i]) - 20 * np.abs(f1 - f2) - 1e-7 * (1 + np.abs(fd))
                    err = np.where(np.isfinite(err), err, np.inf)
                    worst = max(worst, float(err.max()))
                if worst > 0:
                    ck.violation("normalizer-list:%s:reverse-mode-vs-fd" % mode, {"nspin": nspin, "excess": worst,
                                                                                 "norms": [type(n).__name__ for n in extra]})
                # forward mode vs FD, and transposition <D XN(dX), W> = <dX, bwd(W)>
                for s in range(nspin):
                    DX = rng.normal(size=(nf, m))
                    fwd = nl.get_derivative_of_normed_features(X[s].copy(), DX.copy())
                    e = 1e-6
                    fdv = (nl.get_normalized_feature_vector((X[s] + e * DX)[None])[0] - nl.get_normalized_feature_vector((X[s] - e * DX)[None])[0]) / (2 * e)
                    if np.abs(fwd - fdv).max() > 1e-6 * (1 + np.abs(fdv).max()):
                        ck.violation("normalizer-list:%s:forward-mode-vs-fd" % mode, {"err": float(np.abs(fwd - fdv).max())})
                    W = rng.normal(size=(nf, m))
                    bwd = nl.get_derivative_wrt_unnormed_features(X[s][None].copy(), W[None].copy())[0]
                    lhs, rhs = float((fwd * W).sum()), float((DX * bwd).sum())
                    if abs(lhs - rhs) > 1e-11 * (abs(lhs) + abs(rhs) + 1):
                        ck.violation("normalizer-list:%s:forward-reverse-not-transposes" % mode, {"lhs": lhs, "rhs": rhs})
                # grid points whose raw density lies under the normalisers' cutoff (far tail, an exact zero, an empty spin
                # channel): the value routine clamps the density there and stays LINEAR in the non-local columns, so their
                # reverse-mode derivative must still be the derivative of the value, and forward / reverse stay transposes
                # for perturbations of the non-local columns
                Xl = X.copy()
                Xl[0, 0, 1], Xl[-1, 0, 3], Xl[-1, 0, 4] = 3e-11, 0.0, 1e-13
                gl = nl.get_derivative_wrt_unnormed_features(Xl.copy(), V.copy())
                ck.count(key=("norm-subcutoff", mode, nspin, trial))
                for i in range(nsl, nf):
                    d = np.zeros_like(Xl)
                    d[:, i] = 1e-3
                    fd = ((nl.get_normalized_feature_vector(Xl + d) - nl.get_normalized_feature_vector(Xl - d)) * V).sum(axis=1) / 2e-3
                    if not np.all(np.abs(fd - gl[:, i]) <= 1e-9 * (np.abs(fd).max() + 1e-300)):
                        ck.violation("normalizer-list:%s:sub-cutoff-density:reverse-mode-vs-fd" % mode,
                                     {"nspin": nspin, "column": i, "err": float(np.abs(fd - gl[:, i]).max()), "scale": float(np.abs(fd).max())})
                        break
                for s in range(nspin):
                    DX = np.zeros((nf, m))
                    DX[nsl:] = rng.normal(size=(nf - nsl, m))
                    fwd = nl.get_derivative_of_normed_features(Xl[s].copy(), DX.copy())
                    lhs, rhs = (V[s] * fwd).sum(axis=0), (gl[s] * DX).sum(axis=0)
                    if not np.all(np.abs(lhs - rhs) <= 1e-10 * (np.abs(lhs).max() + 1e-300)):
                        ck.violation("normalizer-list:%s:sub-cutoff-density:forward-reverse-not-transposes" % mode,
                                     {"nspin": nspin, "err": float(np.abs(lhs - rhs).max())})


def forward_mode_plans(ck, rng):
    """Occupation-derivative (forward-mode) routines one level below the normalisers: SemilocalPlan.get_occd against finite
    differences of get_feat and as the transpose of get_vxc; LCAONLDFGenerator.get_features_and_occ_derivs against finite
    differences of its own feature output along orbital-density directions (spline / train_gen interpolators)."""
    import models as M
    from pyscf.dft import numint as pni
    from ciderpress.dft.plans import SemilocalPlan
    from ciderpress.dft.settings import SemilocalSettings
    from ciderpress.pyscf.gen_cider_grid import CiderGrids
    from ciderpress.pyscf.nldf_convolutions import PySCFNLDFInitializer
    n = 9
    for mode in ("npa", "nst", "np", "ns"):
        for nspin in (1, 2):
            plan = SemilocalPlan(SemilocalSettings(mode), nspin)
            ncomp = 5 if mode in ("npa", "nst") else 4
            rho = np.zeros((nspin, ncomp, n))
            rho[:, 0] = rng.uniform(0.05, 2.0, size=(nspin, n))
            rho[:, 1:4] = rng.normal(size=(nspin, 3, n)) * 0.4 * rho[:, :1] ** (4.0 / 3)
            if ncomp == 5:
                sig = (rho[:, 1:4] ** 2).sum(1)
                rho[:, 4] = sig / (8 * rho[:, 0]) + rng.uniform(0.1, 1.5, size=(nspin, n)) * rho[:, 0] ** (5.0 / 3)
            drho = rng.normal(size=rho.shape) * 0.3 * rho[:, :1]
            ck.count(key=("occd-sl", mode, nspin))
            try:
                feat, occd = plan.get_occd(rho.copy(), drho.copy())
            except Exception as ex:  # noqa: BLE001
                ck.violation("forward-mode:semilocal-plan:%s:%s" % (mode, type(ex).__name__), {"nspin": nspin, "msg": str(ex)[:200]})
                continue
            f0 = plan.get_feat(rho.copy())
            h = 1e-5
            f1 = (plan.get_feat(rho + h * drho) - plan.get_feat(rho - h * drho)) / (2 * h)
            f2 = (plan.get_feat(rho + 2 * h * drho) - plan.get_feat(rho - 2 * h * drho)) / (4 * h)
            g = (4 * f1 - f2) / 3
            if np.abs(np.asarray(feat) - f0).max() > 1e-12 * (1 + np.abs(f0).max()):
                ck.violation("forward-mode:semilocal-plan:%s:value-differs-from-get_feat" % mode, {"nspin": nspin})
            excess = np.abs(np.asarray(occd) - g) - 20 * np.abs(f1 - f2) - 1e-7 * (1 + np.abs(g).max())
            if not (excess.max() <= 0):
                ck.violation("forward-mode:semilocal-plan:%s:occd-vs-fd" % mode, {"nspin": nspin, "excess": float(np.nanmax(excess))})
            v = rng.normal(size=np.asarray(occd).shape)
            vxc = np.asarray(plan.get_vxc(rho.copy(), v.copy()))
            lhs, rhs = float((v * occd).sum()), float((vxc * drho[:, : vxc.shape[1]]).sum())
            if abs(lhs - rhs) > 1e-10 * (1 + abs(lhs)):
                ck.violation("forward-mode:semilocal-plan:%s:not-the-transpose-of-get_vxc" % mode, {"nspin": nspin, "lhs": lhs, "rhs": rhs})
    mol = M.make_mol("H2O")
    grids = CiderGrids(mol)
    grids.atom_grid = (14, 50)
    grids.build()
    ao = pni.eval_ao(mol, grids.coords, deriv=1)
    P = 2 * M.core_dm(mol)

    def rho5(dm, level):
        r = pni.eval_rho(mol, ao, dm, xctype="MGGA", with_lapl=False)
        x = np.zeros((5 if level == "MGGA" else 4, r.shape[1]))
        x[:4] = r[:4]
        if level == "MGGA":
            x[4] = r[-1]
        return x
    import scipy.linalg
    from pyscf import scf
    w, c = scipy.linalg.eigh(scf.hf.get_hcore(mol), mol.intor("int1e_ovlp"))
    orbs = [np.outer(c[:, k], c[:, k]) for k in (2, 5)]
    for ver in ("j", "i", "ij", "k"):
        # (the on-site interpolators refuse this call by design; the exponent must depend on the density GRADIENT for the
        # d(sigma) route to matter: GGA-level always, meta-GGA through the theta / feature gradient coefficients of models.py)
        for interp, level in (("train_gen", "MGGA"), ("train_gen", "GGA")):
            nl = M.nldf_settings(ver, level, "one")
            gen = PySCFNLDFInitializer(nl, interpolator_type=interp).initialize_nldf_generator(mol, grids.grids_indexer, 1)
            gen.interpolator.set_coords(grids.coords)
            rho = rho5(P, level)
            orb = np.stack([rho5(o, level) for o in orbs])
            ck.count(key=("occd-nldf", ver, interp))
            try:
                feat, occd = gen.get_features_and_occ_derivs(rho.copy(), orb.copy())
            except Exception as ex:  # noqa: BLE001
                ck.violation("forward-mode:nldf-generator:%s:%s:%s" % (ver, interp, type(ex).__name__), {"msg": str(ex)[:200]})
                continue
            empty = np.zeros((0,) + rho.shape)
            F = lambda r_: np.asarray(gen.get_features_and_occ_derivs(r_, empty)[0])
            sel = rho[0] > 1e-4
            for k in range(orb.shape[0]):
                h = 1e-4
                f1 = (F(rho + h * orb[k]) - F(rho - h * orb[k])) / (2 * h)
                f2 = (F(rho + 2 * h * orb[k]) - F(rho - 2 * h * orb[k])) / (4 * h)
                g = (4 * f1 - f2) / 3
                scale = 1 + np.abs(g[..., sel]).max(axis=-1, keepdims=True)          # per feature
                excess = (np.abs(np.asarray(occd[k]) - g) - 20 * np.abs(f1 - f2))[..., sel] - 1e-4 * scale      # (FD noise of the core region: 2e-5 probed)
                if not (excess.max() <= 0):
                    ck.violation("forward-mode:nldf-generator:%s:%s:occd-vs-fd" % (ver, interp), {"orbital": k, "excess": float(np.nanmax(excess)),
                                                                                               "feature": int(np.unravel_index(np.nanargmax(excess), excess.shape)[0])})
                    break


def two_phase(ck, rng):
    """spec/TwoPhase.tla: value / derivative routines called in every order over two inputs; every derivative call must equal
    the same call on a fresh object that never saw a value call (maps: every registered class alone and in a list;
    normaliser lists: every semilocal mode)."""
    import copy
    import maps
    r = run_tlc("TwoPhase", "MC_TwoPhase.cfg", workers=2, timeout=300)
    if r.error:
        raise MachineryError("TLC TwoPhase: " + r.error)
    ck.add_tlc("TwoPhase", r)
    for v in r.violated:
        ck.violation("model:TwoPhase:" + v, {})
    rb = run_tlc("TwoPhase", "MC_TwoPhase_bug.cfg", workers=2, timeout=300)
    if "DerivFromOwnArgument" not in rb.violated:
        raise MachineryError("negative control TwoPhase/StashBug: DerivFromOwnArgument not violated")
    hists = tlc_printed_values(r.out, "TP_HIST")
    if len(hists) < 100:
        raise MachineryError("TwoPhase printed %d histories" % len(hists))
    ck.extra["two_phase_histories"] = len(hists)
    nraw, npts = 5, 6
    objs = []
    for cls in maps.all_map_classes():
        m = maps.make(cls, rng, nraw=nraw)
        objs.append(("map:" + cls.__name__, td.FeatureList([m])))
    objs.append(("list:mixed", td.FeatureList([maps.make(c, rng, nraw=nraw) for c in maps.all_map_classes()[:8]])))
    for name, fl in objs:
        X = {k: rng.uniform(0.15, 1.6, size=(nraw, npts)) for k in ("A", "B")}
        dfdy = rng.normal(size=(fl.nfeat, npts))
        pristine = copy.deepcopy(fl)

        def deriv(obj, x):
            d = np.zeros((nraw, npts))
            obj.fill_derivs_(d, dfdy.copy(), x.copy())
            return d
        ref = {k: deriv(copy.deepcopy(pristine), X[k]) for k in X}
        bad = None
        for h in hists:
            ck.count()
            obj = copy.deepcopy(pristine)
            for step, (kind, x) in enumerate(h):
                if kind == "value":
                    obj(X[x].T.copy())
                else:
                    d = deriv(obj, X[x])
                    if not np.allclose(d, ref[x], rtol=1e-12, atol=1e-13 * (1 + np.abs(ref[x]).max()), equal_nan=True):
                        bad = (h, step)
                        break
            if bad:
                ck.violation("two-phase:%s:derivative-depends-on-earlier-value-calls" % name, {"history": bad[0], "step": bad[1]})
                break
    for mode in ("npa", "nst", "np", "ns"):
        nsl = 3 if mode in ("npa", "nst") else 2
        nl0 = FeatNormalizerList([None] * nsl + [ConstantNormalizer(1.7), DensityNormalizer(0.8, -4.0 / 3), InhomogeneityNormalizer(0.9, 0.3, -1.5),
                                                 GeneralNormalizer(1.1, 0.4, 2.0 / 3, 1.0)], slmode=mode)
        X = {k: rng.uniform(0.2, 2.0, size=(2, nl0.nfeat, npts)) for k in ("A", "B")}
        V = rng.normal(size=X["A"].shape)
        ref = {k: copy.deepcopy(nl0).get_derivative_wrt_unnormed_features(X[k].copy(), V.copy()) for k in X}
        bad = None
        for h in hists:
            ck.count()
            obj = copy.deepcopy(nl0)
            for step, (kind, x) in enumerate(h):
                if kind == "value":
                    obj.get_normalized_feature_vector(X[x].copy())
                else:
                    d = obj.get_derivative_wrt_unnormed_features(X[x].copy(), V.copy())
                    if not np.allclose(d, ref[x], rtol=1e-12, atol=1e-13 * (1 + np.abs(ref[x]).max()), equal_nan=True):
                        bad = (h, step)
                        break
            if bad:
                ck.violation("two-phase:normalizer-list:%s:derivative-depends-on-earlier-value-calls" % mode, {"history": bad[0], "step": bad[1]})
                break


def main():
    ck = Check("C12", "exploration")
    rng = np.random.default_rng(ck.seed)
    quick = ck.tier == "quick"
    ck.rule = ("case = list of <=2 feature maps with an index assignment (coincident indices included) and gamma class, enumerated "
               "exhaustively by TLC from the live class table (all 21 classes, NRaw=3 quick / 4 thorough for single maps; pairs over "
               "2 raw rows); each case: Richardson finite differences with error estimate vs accumulated fill_derivs_, support, "
               "member-sum equality, input untouched; plus normaliser lists x 4 semilocal modes x nspin: reverse/forward/transpose")
    ar, hg = arities()
    d = stage_spec([])
    try:
        write_live_module("Live_MapAlgebra", {
            "LiveArity": RawTLA("(" + " @@ ".join("%s :> %d" % (to_tla(k), v) for k, v in ar.items()) + ")"),
            "LiveHasGamma": RawTLA("(" + " @@ ".join("%s :> %s" % (to_tla(k), "TRUE" if v else "FALSE") for k, v in hg.items()) + ")"),
            "LivePairClasses": set(ar.keys()) if not quick else {k for k, v in ar.items() if v <= 3},
        }, d, extends="Integers, Sequences, FiniteSets, TLC")
        with open(os.path.join(d, "MC_MapAlgebra.tla"), "w") as f:
            f.write("---- MODULE MC_MapAlgebra ----\nEXTENDS MapAlgebra, Live_MapAlgebra\n====\n")
        with open(os.path.join(d, "ma.cfg"), "w") as f:
            f.write("SPECIFICATION Spec\nCONSTANTS\n Arity <- LiveArity\n HasGamma <- LiveHasGamma\n NRaw = %d\n MaxLen = 2\n"
                    " PairClasses <- LivePairClasses\nINVARIANT Additive\nINVARIANT TotalTerms\nINVARIANT Emit\n" % (3 if quick else 4))
        r = run_tlc("MC_MapAlgebra", os.path.join(d, "ma.cfg"), workers=16, specdir=d, timeout=3000, heap="12g")
    finally:
        shutil.rmtree(d, ignore_errors=True)
    if r.error:
        raise MachineryError("TLC: " + r.error)
    ck.add_tlc("MapAlgebra(live arities)", r)
    ck.exhaustive = True
    for v in r.violated:
        ck.violation("model:MapAlgebra:" + v, {})
    states = tlc_printed_values(r.out, "MAPS")
    ck.log("model: %s, %d states" % (r, len(states)))
    nraw = 3 if quick else 4
    pairs = [s for s in states if len(s[0]) == 2]
    singles = [s for s in states if len(s[0]) == 1]
    if quick and len(pairs) > 6000:
        idx = rng.permutation(len(pairs))[:6000]
        pairs = [pairs[i] for i in idx]
    for lst, rows in singles + pairs:
        check_state(ck, lst, [rows[k] for k in range(nraw)] if isinstance(rows, dict) else rows, rng, nraw)
    ck.extra["single_map_states"] = len(singles)
    ck.extra["pair_states_replayed"] = len(pairs)
    ck.sample({"lst": singles[len(singles) // 2][0], "rows": singles[len(singles) // 2][1]})
    normalizer_checks(ck, rng)
    two_phase(ck, rng)
    forward_mode_plans(ck, rng)
    ck.assumptions = ["admissible domain: raw features in [0.15, 1.6] (positive densities, bounded reduced variables)",
                      "finite differences with Richardson extrapolation; a discrepancy counts only beyond 20x the FD error estimate + 1e-7"]
    return ck.finish()


if __name__ == "__main__":
    if len(sys.argv) > 2 and sys.argv[1] == "--replay":
        import json
        rp = json.load(open(sys.argv[2]))
        rng = np.random.default_rng(0)
        for occ in rp["occurrences"][:3]:
            lst = occ["replay"]["lst"]
            fl = td.FeatureList([build_map(d, rng) for d in lst])
            print(lst, fd_check(fl, 4, rng)[0])
        sys.exit(0)
    main_wrapper(main)
