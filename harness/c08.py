"""C08 -- vanishing or extreme densities never give non-finite or spurious contributions.
  M: spec/Cutoffs.tla: lattice of magnitude classes of (rho_a, rho_b, |grad rho|, tau) around every
     cutoff x spin mode x nspin x semilocal mode, with the required output class (masked or not)
     per channel; TLC enumerates it
  R: every lattice state is concretised into real inputs: layer functions (exponents, reduced
     variables, semilocal plan fwd/bwd, normaliser list fwd/bwd, baselines, all 21 feature maps) must
     return finite numbers; eval_xc_cider (native and libxc-backed models) must return finite energy
     density and potentials, and exactly zero ML energy / feature derivatives where the model says
     the point is masked; end to end: H atom (empty beta channel, single orbital) and very diffuse
     grids give finite XC matrices"""
import cvload  # noqa: F401
import sys
import warnings

import numpy as np

import e2e
import maps
import models as M
from common import Check, MachineryError, main_wrapper, run_tlc, tlc_printed_values
from ciderpress.dft import baselines
from ciderpress.dft import settings as S
from ciderpress.dft.plans import FracLaplPlan, SemilocalPlan
from ciderpress.pyscf.numint import CiderNumInt

RHO = {"zero": 0.0, "denormal": 1e-310, "1e-17": 1e-17, "1e-11": 1e-11, "4e-11": 4e-11, "9e-11": 9e-11, "1.1e-10": 1.1e-10,
       "4e-10": 4e-10, "6e-10": 6e-10, "9e-10": 9e-10, "1.1e-9": 1.1e-9, "1e-6": 1e-6, "0.1": 0.1}


def concretise(points):
    """lattice states (sharing mode, nspin, sl) -> rho array (nspin, 5, N)"""
    nspin = points[0][0]["nspin"]
    N = len(points)
    rho = np.zeros((nspin, 5, N))
    for k, (p, m0, m1) in enumerate(points):
        for s in range(nspin):
            r = RHO[(p["rho_a"] if s == 0 else p["rho_b"])[1]]
            kf = (3 * np.pi ** 2 * max(r, 0.0)) ** (1.0 / 3)
            g = {"zero": 0.0, "tiny": 1e-30, "normal": 2 * kf * r * 0.9, "huge": 1e6}[p["grad"]]
            tw = g * g / (8 * r) if r > 0 else 0.0
            t0 = 0.3 * (3 * np.pi ** 2) ** (2.0 / 3) * r ** (5.0 / 3)
            t = {"single": tw, "zero": tw, "normal": tw + t0, "huge": max(tw, 1e6)}[p["tau"]]
            if not np.isfinite(t):
                t = 1e300
            rho[s, 0, k] = r
            rho[s, 1, k] = g          # gradient along x
            rho[s, 4, k] = t
    return rho


def finite(ck, site, arrs, detail):
    for a in arrs:
        if a is None:
            continue
        a = np.asarray(a, dtype=float)
        if not np.all(np.isfinite(a)):
            ck.violation(site, dict(detail, n_bad=int(np.count_nonzero(~np.isfinite(a)))))
            return False
    return True


def layer_checks(ck, rho, sl, nspin, labels):
    rs = rho[:, 0]
    sig = np.einsum("sxg,sxg->sg", rho[:, 1:4], rho[:, 1:4])
    tau = rho[:, 4]
    det = {"sl": sl, "nspin": nspin}
    with np.errstate(all="ignore"):
        for s in range(nspin):
            for a0, gm, tm in ((1.0, 0.0, 0.03125), (2.0, 0.04, 0.02)):
                out = S.get_cider_exponent(rs[s].copy(), sig[s].copy(), tau[s].copy(), a0=a0, grad_mul=gm, tau_mul=tm, rhocut=1e-10 / nspin, nspin=nspin)
                finite(ck, "layer:get_cider_exponent:grad_mul=%s" % ("0" if gm == 0 else "pos"), out, det)
                outg = S.get_cider_exponent_gga(rs[s].copy(), sig[s].copy(), a0=a0, grad_mul=gm, rhocut=1e-10 / nspin, nspin=nspin)
                finite(ck, "layer:get_cider_exponent_gga", outg, det)
                # below the cutoff the exponent is clamped to a constant: every derivative is exactly zero there
                # (a non-zero one is a spurious contribution to the potential at points that carry no density)
                below = rs[s] < 1e-10 / nspin
                for nm, o in (("get_cider_exponent", out), ("get_cider_exponent_gga", outg)):
                    for k, d in enumerate(o[1:]):
                        if np.any(np.asarray(d)[below] != 0.0):
                            ck.violation("layer:%s:derivative-not-zero-below-cutoff:grad_mul=%s" % (nm, "0" if gm == 0 else "pos"),
                                         dict(det, which=("drho", "dsigma", "dtau")[k], max=float(np.abs(np.asarray(d)[below]).max())))
                            break
                    if below.any() and np.ptp(np.asarray(o[0])[below]) != 0.0:
                        ck.violation("layer:%s:value-not-clamped-below-cutoff" % nm, det)
            finite(ck, "layer:get_s2", [S.get_s2(rs[s], sig[s])], det)
            finite(ck, "layer:ds2", S.ds2(rs[s], sig[s]), det)
            finite(ck, "layer:get_alpha", [S.get_alpha(rs[s], sig[s], tau[s])], det)
            finite(ck, "layer:dalpha", S.dalpha(rs[s], sig[s], tau[s]), det)
        plan = SemilocalPlan(S.SemilocalSettings(sl), nspin)
        feat = plan.get_feat(rho.copy())
        ok = finite(ck, "layer:semilocal-plan:get_feat:%s" % sl, [feat], det)
        vx = np.zeros_like(rho)
        plan.get_vxc(rho.copy(), np.ones_like(feat), vxc=vx)
        finite(ck, "layer:semilocal-plan:get_vxc:%s" % sl, [vx], det)
    return feat if ok else None


def model_checks(ck, rho, points, mode, nspin, sl, rng, seed):
    """eval_xc_cider on the synthetic batch: finite everywhere, exact zeros where masked"""
    N = rho.shape[-1]
    # (mixing recipe, evaluator, baseline pair of the mapped kernel): the baselines are where 0/0 arises at empty points
    # (spin polarisation zeta, reduced gradient), so every native pair and the libxc pairs incl. the SS/OS split take part
    for mix, evk, base in (("xmix_c", "rbf" if mode != "POL" else "spinrbf", "lda"), ("libxc2", "kernel", "lda"), ("pure", "two", "lda"),
                           ("pure", "rbf" if mode != "POL" else "spinrbf", "gga"), ("xmix", "rbf" if mode != "POL" else "spinrbf", "damp"),
                           ("pure", "rbf" if mode != "POL" else "spinrbf", "chachiyo"), ("libxc2", "kernel", "gga"), ("libxc2", "kernel", "ssos")):
        if mode == "POL" and (mix == "libxc2" or evk != "spinrbf"):
            continue
        if mix == "libxc2" and e2e.SLLEVEL[sl] != "MGGA":
            continue
        cfg = {"sl": sl, "nldf": "j", "sdmx": "none", "plan": "gaussian", "interp": "onsite_direct", "eval": evk, "mode": mode, "mix": mix, "base": base}
        model = e2e.make_mapped_model(cfg, seed)
        st = model.settings
        kw = e2e.MIX[mix]
        from ciderpress.dft.model_utils import get_slxc_settings
        slxc = get_slxc_settings(None, kw["xkernel"], kw["ckernel"], kw["xmix"])
        ni = CiderNumInt(model, slxc, None, None, xmix=kw["xmix"], rhocut=1e-9)
        ni.build()
        ni.sl_plan = SemilocalPlan(st.sl_settings, nspin)
        ni.fl_plan = FracLaplPlan(st.nlof_settings, nspin)
        nnl = st.nldf_settings.nfeat
        # raw nonlocal features scale like the density they integrate; zero where the density is zero
        nl = rng.uniform(0.2, 2.0, size=(nspin, nnl, N)) * np.minimum(1.0, rho[:, :1] * 1e3)
        rr = rho if e2e.SLLEVEL[sl] == "MGGA" else rho[:, :4]
        tag = "%s:%s:nspin=%d:%s%s" % (mix, mode, nspin, sl, "" if base == "lda" else ":base=" + base)
        with np.errstate(all="ignore"), warnings.catch_warnings():
            warnings.simplefilter("ignore")
            try:
                exc, (vxc, vnl, vsd) = ni.eval_xc_cider(slxc, rr[0].copy() if nspin == 1 else rr.copy(), nl.copy() if nspin == 2 else nl[0].copy(),
                                                        None, deriv=1)[:2]
            except Exception as ex:
                ck.violation("eval_xc_cider:%s:exception-%s" % (tag, type(ex).__name__), {"msg": str(ex)[:300]})
                continue
            exc = np.asarray(exc)
            vxc = np.asarray(vxc).reshape(nspin, -1, N)
            vnl = np.asarray(vnl).reshape(nspin, nnl, N)
            ck.count(key=("eval", tag), n=N)
            for name, arr in (("exc", exc), ("vxc", vxc), ("vxc_nldf", vnl)):
                bad = ~np.isfinite(arr)
                if bad.any():
                    k = int(np.argwhere(bad.reshape(-1, N).any(0))[0][0])
                    p = points[k][0]
                    ck.violation("eval_xc_cider:%s:non-finite-%s" % (tag, name),
                                 {"rho_a": p["rho_a"][1], "rho_b": p["rho_b"][1], "grad": p["grad"], "tau": p["tau"], "count": int(bad.sum())})
            # masked points: zero derivative w.r.t. the nonlocal features (every model version), and no ML energy at all
            # (version-1 models, where the semilocal remainder can be evaluated on its own as the reference)
            if slxc and mix != "libxc2":
                xt = ni._xc_type(slxc)
                nvar = {"LDA": 1, "GGA": 4, "MGGA": 5}[xt]
                arg = np.ascontiguousarray(rr[0, :nvar]) if nspin == 1 else np.ascontiguousarray(rr[:, :nvar])
                exc_sl = np.asarray(ni.eval_xc_eff(slxc, arg, deriv=1, xctype=xt)[0])
            else:
                exc_sl = np.zeros(N)
            for k, (p, m0, m1) in enumerate(points):
                masks = [m0, m1][:nspin]
                for s in range(nspin):
                    if masks[s] and np.any(vnl[s, :, k] != 0.0):
                        ck.violation("eval_xc_cider:%s:masked-point-has-feature-derivative" % tag,
                                     {"rho_a": p["rho_a"][1], "rho_b": p["rho_b"][1], "grad": p["grad"], "tau": p["tau"], "spin": s})
                        break
                if mix != "libxc2" and all(masks) and np.isfinite(exc[k]) and np.isfinite(exc_sl[k]) and exc[k] != exc_sl[k]:
                    ck.violation("eval_xc_cider:%s:masked-point-has-ml-energy" % tag,
                                 {"rho_a": p["rho_a"][1], "rho_b": p["rho_b"][1], "grad": p["grad"], "tau": p["tau"],
                                  "exc": float(exc[k]), "exc_semilocal": float(exc_sl[k])})


def map_and_norm_checks(ck, rng):
    """all 21 feature maps and the normaliser classes on edge values"""
    from ciderpress.dft.feat_normalizer import FeatNormalizerList
    vals = np.array([0.0, 1e-310, 1e-17, 1e-10, 1e-3, 1.0, 30.0, 1e3, 1e6])
    x = np.stack([np.roll(vals, k) for k in range(4)])
    with np.errstate(all="ignore"), warnings.catch_warnings():
        warnings.simplefilter("ignore")
        for cls in maps.all_map_classes():
            m = maps.make(cls, rng, nraw=4)
            y = np.zeros(x.shape[1])
            d = np.zeros_like(x)
            try:
                m.fill_feat_(y, x.copy())
                m.fill_deriv_(d, np.ones(x.shape[1]), x.copy())
            except Exception as ex:
                ck.violation("map:%s:exception-%s" % (cls.__name__, type(ex).__name__), {"msg": str(ex)[:200]})
                continue
            ck.count(key=("map", cls.__name__))
            if not np.all(np.isfinite(y)):
                ck.violation("map:%s:non-finite-value" % cls.__name__, {"inputs": x[:, ~np.isfinite(y)][:, 0].tolist()})
            if not np.all(np.isfinite(d)):
                ck.violation("map:%s:non-finite-derivative" % cls.__name__, {})
        for mode in ("npa", "nst", "np", "ns"):
            st = M.feature_settings(mode, "i", "SDMX", rich=False)
            nl = st.normalizers
            nf = st.nfeat
            X = np.zeros((1, nf, vals.size))
            X[0, 0] = vals
            X[0, 1:] = rng.uniform(0, 2, size=(nf - 1, vals.size)) * np.minimum(1.0, vals * 1e3)
            XN = nl.get_normalized_feature_vector(X.copy())
            g = nl.get_derivative_wrt_unnormed_features(X.copy(), np.ones_like(X))
            ck.count(key=("normlist", mode))
            if not (np.all(np.isfinite(XN)) and np.all(np.isfinite(g))):
                ck.violation("normalizer-list:%s:non-finite" % mode, {"bad_rho": vals[~np.isfinite(XN).all(axis=(0, 1))].tolist()})
        # native baselines above the model cutoff (below it the model masks their output)
        bv = np.array([2e-9, 1e-6, 1e-3, 1.0, 30.0, 1e3])
        X = np.zeros((1, 5, bv.size))
        X[0, 0] = bv
        X[0, 1] = [0, 1e-12, 1e-8, 1e-3, 1, 1e3]
        X[0, 2] = [0, 1, 2, 0, 5, 100]
        X[0, 3:] = 1.0
        for nm in ("lda_x", "gga_x_pbe", "gga_x_chachiyo", "nlda_x_damp", "gga_c_pbe"):
            for nspin in (1, 2):
                XX = np.concatenate([X] * nspin)
                e, de = getattr(baselines, nm)(XX.copy())
                ck.count(key=("baseline", nm, nspin))
                if not (np.all(np.isfinite(e)) and np.all(np.isfinite(de))):
                    bad = bv[~(np.isfinite(e) & np.isfinite(de).all(axis=(0, 1)))]
                    ck.violation("baseline:%s:non-finite:nspin=%d" % (nm, nspin), {"rho": bad.tolist()[:4]})


def e2e_checks(ck, rng, quick):
    from pyscf import gto
    # Ne@pad: a nucleus exactly on the coordinate grids are padded with ((1e-4, 1e-4, 1e-4) Bohr, zero weight): anything singular
    # in the distance to a nucleus is evaluated at r = 0 at the padding points
    cases = [("H", 1, True), ("He", 0, False), ("H2", 0, True), ("Ne@pad", 0, False)]
    for name, spin, unres in cases:
        atom = {"H2": "H 0 0 0; H 0 0 8.0", "Ne@pad": "Ne 1e-4 1e-4 1e-4"}.get(name, "%s 0 0 0" % name)
        mol = gto.M(atom=atom, basis="sto-3g" if name != "He" else "6-31g", spin=spin, verbose=0, unit="Bohr")
        for nldf, sdmx, ev, mode in (("j", "SDMX", "rbf", "SEP"), ("i", "none", "kernel", "NPOL"), ("k", "G1", "rbf", "SEP"), ("ij", "none", "spinrbf", "POL")):
            cfg = {"sl": "npa", "nldf": nldf, "sdmx": sdmx, "plan": "gaussian", "interp": "onsite_direct", "eval": ev, "mode": mode, "mix": "xmix_c"}
            try:
                ks = e2e.make_session(cfg, mol, unres, 1, atom_grid=((90, 110) if not quick else (60, 50)) if name != "Ne@pad" else (61, 50))
                if name == "Ne@pad":
                    npad = int(np.count_nonzero((np.abs(ks.grids.coords - 1e-4).max(axis=1) == 0) & (ks.grids.weights == 0)))
                    if npad == 0:
                        raise MachineryError("the Ne@pad grid has no padding point (size %d)" % ks.grids.weights.size)
                nocc_a = (mol.nelectron + spin) // 2
                nocc_b = (mol.nelectron - spin) // 2
                # a physical (node-free where it matters) density: occupied orbitals of the core Hamiltonian;
                # a random one-electron orbital has nodal surfaces where tau/rho diverges and the large-exponent
                # guard (C18) rightly refuses to extrapolate
                from pyscf import scf
                h1 = scf.hf.get_hcore(mol)
                s1 = mol.intor("int1e_ovlp")
                import scipy.linalg
                _, c = scipy.linalg.eigh(h1, s1)
                Pa = c[:, :max(nocc_a, 1)].dot(c[:, :max(nocc_a, 1)].T)
                if unres:
                    Pb = c[:, :nocc_b].dot(c[:, :nocc_b].T) if nocc_b > 0 else np.zeros_like(Pa)   # empty beta channel
                    n_, e_, v_ = ks._numint.nr_uks(mol, ks.grids, ks.xc, np.stack([Pa, Pb]))
                else:
                    n_, e_, v_ = ks._numint.nr_rks(mol, ks.grids, ks.xc, 2 * Pa)
            except MachineryError:
                raise
            except Exception as ex:
                ck.violation("e2e:%s:%s+%s:exception-%s" % (name, nldf, sdmx, type(ex).__name__), {"msg": str(ex)[:300]})
                continue
            ck.count(key=("e2e", name, nldf, sdmx, mode))
            far = int(np.count_nonzero(np.linalg.norm(ks.grids.coords, axis=1) > 25))
            if not (np.isfinite(e_) and np.all(np.isfinite(v_)) and np.all(np.isfinite(n_))):
                ck.violation("e2e:%s:%s+%s:%s:non-finite" % (name, nldf, sdmx, mode), {"exc": float(e_), "far_points": far})


def main():
    ck = Check("C08", "exploration")
    rng = np.random.default_rng(ck.seed)
    quick = ck.tier == "quick"
    ck.rule = ("case = lattice point (rho_a, rho_b class around every cutoff incl. 0 / denormal; gradient zero/tiny/normal/huge; tau "
               "single-orbital/normal/huge) x spin mode x nspin x semilocal mode, enumerated by TLC from Cutoffs.tla; every point is "
               "pushed through the layer functions and eval_xc_cider (3 model kinds); distinct = lattice point x model kind")
    r = run_tlc("MC_Cutoffs", "MC_Cutoffs.cfg", workers=8, timeout=900)
    if r.error:
        raise MachineryError("TLC: " + r.error)
    ck.add_tlc("Cutoffs", r)
    ck.exhaustive = True
    for v in r.violated:
        ck.violation("model:Cutoffs:" + v, {})
    pts = tlc_printed_values(r.out, "POINT")
    ck.log("model: %s, %d lattice points" % (r, len(pts)))
    if len(pts) < 10000:
        raise MachineryError("lattice not emitted")
    groups = {}
    for p, m0, m1 in pts:
        groups.setdefault((p["mode"], p["nspin"], p["sl"]), []).append((p, m0, m1))
    nmasked = 0
    for (mode, nspin, sl), points in sorted(groups.items()):
        points.sort(key=lambda t: repr(sorted(t[0].items())))
        rho = concretise(points)
        labels = None
        ck.count(key=("batch", mode, nspin, sl), n=len(points))
        layer_checks(ck, rho, sl, nspin, labels)
        model_checks(ck, rho, points, mode, nspin, sl, rng, ck.seed)
        nmasked += sum(1 for p in points if p[1] or p[2])
        for p in points[:: max(1, len(points) // 40)]:
            ck.distinct.add(repr(sorted(p[0].items())))
    ck.extra["lattice_points"] = len(pts)
    ck.extra["points_with_a_masked_channel"] = nmasked
    ck.sample({"point": pts[len(pts) // 3][0], "masked": [pts[len(pts) // 3][1], pts[len(pts) // 3][2]]})
    map_and_norm_checks(ck, rng)
    e2e_checks(ck, rng, quick)
    ck.assumptions = ["outputs are judged (finite / exactly zero); intermediate warnings are not, since the code deliberately produces and then masks infinities",
                      "the mask is the one the code defines on the normalised density feature (nspin*rho_s; for non-separable polarised models 2*rho_total)",
                      "classes exactly on a threshold are unspecified"]
    return ck.finish()


if __name__ == "__main__":
    if len(sys.argv) > 2 and sys.argv[1] == "--replay":
        print(open(sys.argv[2]).read()[:3000])
        sys.exit(0)
    main_wrapper(main)
